#!/bin/bash
# Runs "$@" in a private network namespace that mimics the host (eth0 192.0.2.2/24, fd00::2/64),
# so that concurrently running mDNS test suites of other processes cannot interfere.
exec unshare -n bash -c '
ip link set lo up
ip link add eth0 type veth peer name eth1
sysctl -qw net.ipv6.conf.eth1.disable_ipv6=1
ip link set eth0 mtu 1400
ip addr add 192.0.2.2/24 dev eth0
ip -6 addr add fd00::2/64 dev eth0 nodad
ip link set eth1 up
ip link set eth0 up
ip route add default via 192.0.2.1 dev eth0
sleep 2
exec "$@"' bash "$@"
