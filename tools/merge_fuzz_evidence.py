#!/usr/bin/env python3
"""merge_fuzz_evidence.py <ID> <target> <runs> <seed> <log> <seconds> <exit code>
Adds the figures of one libFuzzer campaign to evidence/<ID>.json (coverage.fuzz)."""
import json, os, re, sys
pid, target, runs, seed, log, secs, code = sys.argv[1:8]
root = os.path.dirname(os.path.dirname(os.path.abspath(__file__)))
p = os.path.join(root, "evidence", pid + ".json")
try:
    ev = json.load(open(p))
except Exception:
    sys.exit(0)
text = open(log, errors="replace").read()
m = re.findall(r"#(\d+)\s+DONE\s+cov: (\d+) ft: (\d+) corp: (\d+)/(\S+)", text)
units = re.search(r"stat::number_of_executed_units:\s*(\d+)", text)
entry = {
    "target": target, "engine": "libFuzzer (cargo-fuzz, -s none), oracle inside the target",
    "planned_runs": int(runs), "seed": int(seed), "exit_code": int(code), "seconds": int(secs),
    "executed": int(units.group(1)) if units else (int(m[-1][0]) if m else None),
    "edges_covered": int(m[-1][1]) if m else None, "features": int(m[-1][2]) if m else None,
    "corpus_units": int(m[-1][3]) if m else None,
    "violation": bool(re.search(r"^VIOLATION property=", text, re.M)),
}
cov = ev.setdefault("coverage", {})
fz = [e for e in cov.get("fuzz", []) if e.get("target") != target]
fz.append(entry)
cov["fuzz"] = fz
json.dump(ev, open(p, "w"), indent=1)
