#!/usr/bin/env python3
"""Regenerates /verif/MANIFEST.json from the table below (run after adding a check)."""
import json, os, subprocess
here = os.path.dirname(os.path.dirname(os.path.abspath(__file__)))
props = [json.loads(l) for l in open(os.path.join(here, "properties.jsonl"))]

E1 = "E1-codec"; E2 = "E2-component"; E3 = "E3-simulation"; E4 = "E4-real-threads"
CHECKS = {
 "C01": dict(engine=E1+"+"+E3, design="6/C01",
   technique="property-based differential testing of the decoder against an independent reference decoder over random, mutated, grammar-generated hostile and exhaustively enumerated datagrams; CPU-time and allocation watchdogs; plus generated damaged datagrams through the simulated daemon's receive path, judged against the decoder's verdict on exactly those bytes",
   text="Exploration: ~1.7e6 (quick) / ~3e7 (thorough) generated datagrams plus an exhaustively enumerated small-alphabet sub-space; each decoded under a panic/CPU/allocation watchdog and compared record-by-record with an independent RFC 1035 decoder; 6e3 / 1e5 damaged answers (cut short, lying counts / lengths, trailing bytes) delivered to a simulated daemon: a rejected datagram has no effect, an accepted one reports only addresses it holds. Sampling, not proof: it shows absence of panics, hangs and invented records on what was generated.",
   note="Trusted: harness/src/refdns.rs (reference decoder), the delegation-only facade src/verif/{codec,parser_view}.rs. Hang = >2 s CPU on one datagram; allocation cap 64 MiB."),
 "C02": dict(engine=E1, design="6/C02",
   technique="property-based round-trip testing: generated message specs are encoded by the crate and read back by an independent RFC 1035 parser and by the crate's own decoder; omissions must be justified by size",
   text="Exploration: 1.5e5 (quick) / 4e6 (thorough) generated messages over label pools with shared suffixes, near-collisions and escapes, from empty to several packets. Every emitted packet is parsed by an independent decoder and compared with what was added (order-preserving, omissions only when the record does not fit).",
   note="Trusted: harness/src/refdns.rs (parser and size model). Names are valid DNS names (<=255 octets). Known finding: questions are never size-checked."),
 "C16": dict(engine=E1+"+"+E3, design="6/C16",
   technique="property-based round-trip and differential testing of TXT encoding/decoding against an independent RFC 6763 codec over generated property lists and arbitrary RDATA, plus end-to-end register->browse between two simulated daemons",
   text="Exploration: ~1.5e6 generated property lists through every supported input type (refusal rule, held list, generated RDATA read by a reference decoder, first-key-wins, case-insensitive lookup), 3e6 arbitrary byte strings as received RDATA, and 2e4 end-to-end runs between two simulated daemons (quick tier).",
   note="Trusted: refdns::txt_* reference codec; the simulation hooks. Zero-length received strings may end or be skipped; HashMap input is unordered."),
 "C07": dict(engine=E3, design="6/C07",
   technique="stateful property-based testing of the real daemon loop in a deterministic simulation (virtual clock, simulated interfaces, captured packets): generated registrations, wire-level oracle on probe/announce timelines",
   text="Exploration: 1.6e4 (quick) / 4e5 (thorough) generated registration scenarios (1-4 services, 1-3 interfaces, v4/v6, shared hosts, staggered starts, late interfaces, early queries, scripted jitter; thorough covers every jitter 0..249). Each (service, interface, family) is judged on the captured packets: three probes 250 ms apart with the proposed records, no answer before the announcement, two complete announcements 1 s apart, bounded time.",
   note="Trusted: simulation hooks (src/verif.rs) and refdns. Silent network, exact wake-ups. Late interfaces judged for enable_addr_auto services only."),
 "C09": dict(engine=E3, design="6/C09",
   technique="stateful property-based testing in the deterministic daemon simulation: generated register / re-register / conflict / unregister / shutdown sequences, wire-level oracle on goodbyes and silence",
   text="Exploration: 3e4 (quick) / 8e5 (thorough) generated op sequences over 1-3 services and 1-3 interfaces. Oracle: unregister reply vs a model of registrations; goodbye exactly on the (interface, family) pairs where the service was announced since its last register, complete, under the last announced names, repeated 120 ms later; nothing with a positive TTL afterwards; other services still answered.",
   note="Trusted: simulation hooks and refdns. Services are recognised on the wire by a TXT attribute id=<n>. Conflicts are injected only while the single current registration is unannounced."),
 "C06": dict(engine=E3, design="6/C06",
   technique="stateful property-based testing in the deterministic daemon simulation with a reference responder model: generated register/re-register/unregister/conflict histories and injected queries; every response compared with must/may/must-not record sets",
   text="Exploration: 2.5e4 (quick) / 7e5 (thorough) generated histories with ~4 injected queries each (1-4 questions over type, subtype, meta, instance, original name, host, unknown; all question types; case variants; known answers; IPv4/IPv6; port 5353 or legacy). The response (or silence) in the iteration that handled the query is compared with a reference responder written from the statement: answers == must + subset(may), required additionals present, nothing else, TTLs, cache-flush bits, transport, legacy unicast rules.",
   note="Trusted: simulation hooks, refdns, the reference responder (harness/src/props/responder.rs). Open choices of the statement are in `may` (listed in evidence assumptions)."),
 "C10": dict(engine=E2+"+"+E3, design="6/C10",
   technique="exhaustive boundary grid over the suppression predicate (component facade) plus stateful property-based testing in the daemon simulation on the responder side (C06 scenario with boundary known answers) and on the querier side (browse queries of a daemon holding PTRs of all ages)",
   text="Exploration: the complete grid 5 record kinds x 12 responder TTLs x ~8 known TTLs around the half x 5 difference kinds (2350 points, enumerated), 2e4 responder histories with boundary known answers, and 1.2e4 querier histories in which every outgoing browse query's known-answer list is judged (only held shared records with at most half their life gone, remaining TTL +-1 s, query on every interface).",
   note="Trusted: simulation hooks, refdns, reference responder. Exactly half the TTL is left open on both sides; letter-case-only differences leave suppression open."),
 "C13": dict(engine=E3, design="6/C13",
   technique="stateful property-based testing in the deterministic daemon simulation: generated interleavings of browse / browse again / browse_cache / stop / resolve_hostname / stop / shutdown with scripted responders, observed ~2 h of virtual time after the last call; channel-protocol and wire oracles",
   text="Exploration: 2e4 (quick) / 6e5 (thorough) generated interleavings. Per channel: first event SearchStarted, Found before Resolved, exactly one final SearchStopped after stop / timeout (SearchTimeout first) / shutdown; on the wire: no query for a type or host name outside the log-position intervals in which a search for it is open (compared case-insensitively), none for cache-only browses; a cache-only browse after stop_browse reports nothing that was not announced again.",
   note="Trusted: simulation hooks and refdns. Replaced searches need not get SearchStopped themselves; two hostname searches for one name are never open at once."),
 "C19": dict(engine=E3, design="6/C19",
   technique="stateful property-based testing in the deterministic daemon simulation over virtual horizons of days: every query is attributed to the back-off schedule of an open search, a refresh mark of a cached record or a follow-up, and every scheduled time must carry its query",
   text="Exploration: 2.4e4 (quick) / 4e5 (thorough) generated search histories (1-3 browses, 0-3 hostname searches, started / stopped / re-issued, responders with TTL 2..5000 s) observed for hours to 3 days of virtual time (~65 scheduled queries per case). Exact comparison of query times with start, +1, +3, +7 ... s, gaps doubling to 2048 s then 3600 s.",
   note="Trusted: simulation hooks and refdns. Exact wake-ups, very large interface-check interval, no interface changes, no verify calls."),
 "C12": dict(engine=E3, design="6/C12",
   technique="metamorphic property-based testing in the deterministic daemon simulation: each generated scenario is run woken only as the daemon asks and again with additional idle wake-ups every 10-100 ms; any action that is later or missing in the silent run was due without a timer; plus a spin oracle on the wake-up requests of every iteration",
   text="Exploration: 6e3 (quick) / 1.5e5 (thorough) scenario pairs over 8-45 s of virtual time mixing all kinds of timed work (probe steps, tiebreak retry, announcement repeat, retransmissions, refreshes, expiries, verify deadlines, hostname timeouts, interface check with interval default/1 s/very large/0), and 2e3 / 4e4 scenarios observed silently for 3 h of virtual time for the no-spin bound. Model-free: the oracle is the relation between the two runs.",
   note="Trusted: simulation hooks. A late action is reported only if it is late again on a second pair of fresh daemons (HashMap order differs per thread)."),
 "C03": dict(engine=E3, design="6/C03",
   technique="stateful property-based testing in the deterministic daemon simulation with a reference cache: generated response-packet histories (announcements, updates, goodbyes, cache-flush replacements, duplicates, two interfaces) and time advances around TTL boundaries; every ServiceResolved is compared with the records that may still be used at that instant",
   text="Exploration: 3e4 (quick) / 9e5 (thorough) generated histories; each ServiceResolved (about 2.6 per case) is checked field by field (host/port from a usable SRV, every address from a usable A/AAAA of that host and tagged only with interfaces it arrived on, TXT from a usable TXT record, host and >=1 address present) against an upper-bound reference cache built from the statement (TTL, goodbye, cache-flush after 1 s).",
   note="Trusted: simulation hooks, refdns, the reference cache (harness/src/props/browser.rs). The upper bound never shortens lifetimes for verify calls."),
 "C05": dict(engine=E3, design="6/C05",
   technique="stateful property-based testing in the deterministic daemon simulation with a reference cache and forced wake-ups at every model expiry: generated announcement / goodbye / silence / refresh / verify histories; ServiceRemoved is judged never-early, on-time and final",
   text="Exploration: 2.5e4 (quick) / 7e5 (thorough) generated departure histories over horizons up to 75 min (about 1.4 judged removals per case; causes goodbye, PTR expiry, SRV expiry, last address expiry, verify deadline each with a floor). Never early: not while PTR, SRV and an address of the SRV's host all have more than a second left (before and after the datagrams of the iteration). On time: on the channel by the end of the step taken at the expiry or the next one. Final: no ServiceResolved afterwards without new records. Second part (two-listeners): 8e3 (quick) / 3e5 (thorough) histories of one instance listed under its type and a subtype with both browsed at once (announcements, goodbyes of all / SRV / PTRs, silence, stop_browse of either search); differential oracle between the two listeners (ServiceRemoved reaches both in the same step or neither) plus an expiry model for never-early / on-time.",
   note="Trusted: simulation hooks, refdns, the reference cache. Instances keep host and port (one SRV at a time); all instances belong to browsed types; stop_browse is part of the two-listeners histories only, where both PTR records always arrive together with one TTL (>= 2 s) and no responder answers refreshes."),
 "C04": dict(engine=E3, design="6/C04",
   technique="stateful property-based testing in the deterministic daemon simulation with a reference cache: generated partitions/orderings of instance record sets into packets, PTR-only arrivals with a scripted responder answering the daemon's follow-up queries, and go-away/come-back histories; completeness invariant at the end of every step",
   text="Exploration: 3e4 (quick) / 9e5 (thorough) generated arrival histories (~2 complete sets and ~1 follow-up round per case). Invariant at the end of every step: an instance whose PTR, SRV, TXT and an address are live in the lower-bound reference cache since before the previous step has been reported by ServiceFound and a ServiceResolved equal to the cache's view (host, port, address set, TXT). Follow-up: an instance found with only its PTR is asked for, by its exact label sequence, within 500 ms.",
   note="Trusted: simulation hooks, refdns, reference cache. Known finding: labels containing dots/backslashes are re-encoded with other label boundaries in follow-up queries."),
 "C17": dict(engine=E3, design="6/C17",
   technique="stateful property-based testing in the deterministic daemon simulation with a reference cache and forced wake-ups at model expiries and timeouts: generated resolve_hostname / stop / responder-answer histories in every letter-case variant",
   text="Exploration: 2.5e4 (quick) / 7e5 (thorough) generated hostname-resolution histories (~1.6 AddressesFound events per case). AddressesFound: every address is an unexpired one received for that name (case-insensitive) and tagged only with interfaces it was learned on; every live address is reported by the end of the next step; AddressesRemoved never while a copy has more than a second left and delivered by the step after expiry; first query asks A and AAAA; refresh query at exactly 80 % of an address's life; SearchTimeout then final SearchStopped exactly at the timeout; no query after the end.",
   note="Trusted: simulation hooks, refdns, reference cache. One search per host name at a time. Known finding: a goodbye for an uncached address is reported as found."),
 "C11": dict(engine=E2+"+"+E3, design="6/C11",
   technique="exhaustive enumeration over every TTL up to a bound plus property-based testing of record lifetime / refresh-mark arithmetic and of cache-flush on record pairs through the component facade under a virtual clock, and stateful simulation of a browsing daemon whose refresh queries are compared with the 80/85/90/95 % marks of every received copy",
   text="Exploration: every TTL 1..=3000 (quick) / 1..=20000 (thorough) x 4 observation patterns enumerated; 2e6 generated observation sequences (expiry boundary, at most one refresh per mark, none after expiry, none before its mark, no mark passed silently, fresh copy restarts); 2e6 generated cache-flush pairs at every age relation around 1000 ms (same/other name, class, interface, RDATA, flush bit, third record of the burst); 2.5e4 simulated histories in which ~5 refresh marks per case are checked on the wire.",
   note="Trusted: component facade (delegation only), simulation hooks, refdns. Exactly 1000 ms of age is left open."),
 "C08": dict(engine=E2+"+"+E3, design="6/C08",
   technique="exhaustive enumeration plus property-based testing of the simultaneous-probe comparison (Probe::insert_record / tiebreaking through the component facade) against the RFC 6762 8.2 order computed independently and against itself with the sides swapped; stateful simulation of two or three real daemons contesting the same instance and host name on one link (dense grid of start offsets x probe jitters enumerated, generated beyond that), and of one daemon attacked by a scripted peer at every probe step; every packet of every daemon is decoded independently and judged against the names the daemon held at that moment",
   text="Exploration: all 79x79 pairs of record sets (size <= 2) x 4 orders enumerated, 1e6 generated pairs of 0-3 records; 3618 enumerated two-daemon duels (offset 0..2000 ms step 10 x 9 jitter pairs x 2 data orders) and 1.2e4 generated duels of 2-3 daemons over 12 instance / 9 host labels; 1.2e4 generated histories with 1-4 injected conflicts or peer probes. Judged: exactly one holder of each contested name, pairwise distinct final names of the documented form, NameChange events, three probes before a new name is claimed, one second of silence after a lost comparison, no response record under a name not (or no longer) held, SRV target and port, answers to PTR/SRV/A/ANY questions afterwards, goodbyes.",
   note="Trusted: simulation hooks (lock-step gate, virtual clock, captured egress, injected ingress, scripted jitter), component facade, refdns. Two known findings are excluded by signature (escaped instance labels; one-record-type-at-a-time renaming under single-type attacks by a scripted peer)."),
 "C15": dict(engine=E3, design="6/C15",
   technique="property-based testing over the public API (calls with strings generated near valid ones by character-level edits, and boundary numbers, each under catch_unwind) and over datagram sequences (targeted messages with hostile labels about the names the daemon is busy with, their byte-level mutations, and the C01 datagram families) against one real daemon in lock-step simulation, followed by virtual time for deferred work and a liveness oracle: no panic in the caller, daemon thread alive, status() Running, a fresh browse served, the service registered at the start still answered for",
   text="Exploration: 2.5e4 generated API histories of 1-7 calls (17 kinds of call; about half of all calls are refused with an error, the others accepted) and 2.5e4 generated histories of 1-11 datagrams on a daemon with a browse, a host name search and a registration running (a control registration whose label overflows 63 bytes when a conflict suffix is added, incl. multi-byte characters at the cut), each followed by 12 s of virtual time.",
   note="Trusted: simulation hooks, panic recorder. The crate is built with overflow checks and debug assertions on. get_ip_check_interval() (blocks the calling thread until the daemon answers) and the cfg(test)-only test_up/down_interface are not called."),
 "C14": dict(engine=E3+"+E4", design="6/C14",
   technique="exhaustive enumeration plus property-based generation of command batches with a shutdown at every queue position (lock-step simulation: the batch enters the daemon's queue in order, loop iterations run only where the case says), judged by what every call returned and what every reply channel held in the end while the handle clones are still alive; and randomized real-thread stress (2-4 client threads issuing generated calls on clones of a real daemon while another thread shuts it down) with a watchdog for blocked calls",
   text="Exploration: all 3554 batches with the shutdown at every position among 0-2 other commands of 12 kinds x every subset of loop iterations; 4e4 generated batches of up to 10 commands of 13 kinds from three clones (shutdown positions 0-8+, further shutdowns, 1-2 interfaces); 1.5e3 real-thread runs, of which ~95 % had the shutdown fall among the calls. Judged: every call returns an error or its reply channel yields or is closed; DaemonShutdown only after the daemon ran; Shutdown reported exactly once; SearchStopped once and last on every open browse / host name search; a goodbye for the announced service; nothing sent after the exit; afterwards every call on every clone fails with DaemonShutdown and status() says Shutdown.",
   note="Trusted: simulation hooks; the real-thread part depends on OS scheduling (replay of its cases is best effort). A cache-only browse may see two SearchStopped events (its own and the shutdown's), as the C13 statement allows."),
 "C18": dict(engine=E3, design="6/C18",
   technique="stateful property-based testing of one real daemon in lock-step simulation against a reference model of the interface table and the ordered enable/disable selections (which interface / family pairs are active at every moment): every packet must leave on an active pair and carry only the service's addresses of that link, peers' announcements are delivered per link and every address in every ServiceResolved event must have been learned on an interface that has not vanished and whose family was not disabled since, the instance of a vanished interface must be reported removed, and at the end a query on every active pair must be answered exactly where the model says",
   text="Exploration: 2.5e4 generated histories on 1-3 interfaces (IPv4 and/or IPv6, different subnets) with 1-9 operations: selections of 7 kinds, interface events (family added / removed, down / up, address moved), register / unregister with explicit addresses in a subset of the subnets or automatic addressing, peers' announcements per interface and family, queries, re-browsing, pauses; ~4.8e5 packets judged for their interface.",
   note="Trusted: simulation hooks (interface table shim, per-interface egress capture), the model of IfKind matching. Not judged: packets within 1100 ms after a table change; an interface vanishing while disabled; answers for explicit-address services on links that appeared after the registration; Predicate / loopback selections; one peer instance per interface (no multi-homed instances)."),
 "C20": dict(engine=E3, design="6/C20",
   technique="stateful property-based testing of one real daemon in lock-step simulation under generated traffic floods, with the daemon's own get_metrics() as the observable: after every flood the cached-record and timer counts are compared with a reference count of what the open searches account for, and at rest (every search stopped, the longest TTL passed, and an hour later) with zero",
   text="Exploration: 2.5e3 generated histories of 1-8 operations with floods of up to 1500 datagrams (announcements of browsed and never-browsed types with distinct names, records without a PTR, one instance flapping, addresses of searched and strange hosts, queries and probes, the C01 hostile families, subtype PTRs; TTL 2 s..75 min), searches and registrations started and stopped, pauses up to an hour; ~1e5 unrelated datagrams in total.",
   note="Trusted: simulation hooks; the reference count of needed records. Three known findings are excluded by signature (datagrams without a PTR answer are cached whatever is searched for; every received copy adds timers; stale timers are not taken back) - what they leave is bounded by allowances computed per case (records within their TTL, copies received), so growth beyond them is still reported. Cache bounds are not judged in cases with the hostile datagram families (shared name pool)."),
}

FUZZ = {
 "C01": "decode (byte-level: the bytes are the datagram)",
 "C02": "encode (structured, seed-scheduled)",
 "C04": "arrivals (structured, seed-scheduled)",
 "C08": "comparison and conflicts (structured, seed-scheduled)",
 "C14": "shutdown_queue (structured, seed-scheduled)",
 "C15": "daemon_packets and api_arguments (structured, seed-scheduled)",
 "C16": "txt (byte-level: the bytes are the TXT RDATA) and txt_lists (structured, seed-scheduled)",
 "C18": "interfaces (structured, seed-scheduled)",
}

def check_entry(pid, c):
    c = dict(c)
    if pid in FUZZ:
        c["technique"] += "; the thorough tier then runs coverage-guided libFuzzer campaigns (cargo-fuzz, fixed numbers of runs, the same oracle inside the target): " + FUZZ[pid]
        c["note"] += " Thorough tier: tools/fuzz.sh merges the campaign figures into the evidence file (coverage.fuzz); a libFuzzer timeout / OOM / crash outside the oracle is reported as inconclusive (exit 2)."
    return {
        "property_id": pid,
        "quick_cmd": f"./check {pid} quick",
        "thorough_cmd": f"./check {pid} thorough",
        "evidence_file": f"/verif/evidence/{pid}.json",
        "replay_cmd_template": f"./check {pid} --replay {{path}}",
        "engine": c["engine"],
        "level_claimed": {"category": "exploration", "text": c["text"], "design_ref": f"DESIGN.md section {c['design']}"},
        "level_note": c["note"],
        "technique": c["technique"],
    }

def repo_commits():
    try:
        out = subprocess.check_output(["git", "-C", "/repo", "log", "--format=%h %s"], text=True)
        return [l.split()[0] for l in out.splitlines() if l.split(" ", 1)[1].startswith("verif-hooks")]
    except Exception:
        return []

NOT_BUILT = "check not built yet (framework under construction; see DESIGN.md section 6)"
m = {
 "version": 1,
 "setup_cmd": "cd /verif/harness && CARGO_NET_OFFLINE=true cargo build --release --offline",
 "hooks": {
   "guard": "cargo feature `verif-hooks` of mdns-sd (off by default)",
   "enable": "the harness crate depends on /repo by path with features=[\"verif-hooks\"]; every ./check invocation runs `cargo build --release --offline` first, which rebuilds mdns-sd from /repo's working tree",
   "baseline_off_cmd": "cd /repo && cargo nextest run --workspace --no-fail-fast --test-threads 8 --offline || cargo test --workspace --no-fail-fast --offline",
   "source_commits": repo_commits(),
   "add_only": True,
 },
 "engines": [
   {"name": E1, "path": "/verif/harness/src/props/{c01,c02,c16}.rs + /verif/fuzz", "serves_properties": ["C01","C02","C16","C15"], "kind_free_text": "proptest generators + exhaustive enumeration + libFuzzer targets against the wire codec through the verif::codec facade, oracle = independent reference codec refdns"},
   {"name": E2, "path": "/verif/harness/src/props", "serves_properties": ["C08","C10","C11","C20"], "kind_free_text": "proptest / enumeration over records, cache and tiebreaking under a thread-local virtual clock"},
   {"name": "E4 real threads", "path": "/verif/harness/src/props/c14.rs", "serves_properties": ["C14"], "kind_free_text": "an unhooked daemon on real sockets (private port) with 2-4 client threads issuing generated calls while another thread shuts it down; watchdog for blocked calls"},
   {"name": E3, "path": "/verif/harness/src/sim", "serves_properties": ["C01","C03","C04","C05","C06","C07","C08","C09","C10","C11","C12","C13","C14","C15","C16","C17","C18","C19","C20"], "kind_free_text": "the real daemon thread in lock-step under a virtual clock, simulated interfaces, captured egress and injected ingress; generated histories, per-property monitors"},
 ],
 "checks": [check_entry(p["id"], CHECKS[p["id"]]) for p in props if p["id"] in CHECKS],
 "not_applicable": [{"property_id": p["id"], "reason": NOT_BUILT} for p in props if p["id"] not in CHECKS],
 "notes": "All checks: exit 0 held / 1 VIOLATION / 2 inconclusive. VERIF_SEED selects the PRNG stream. known_findings.json lists recorded defects (status known) and the repaired ones (status fixed, suppressing nothing); fix: commits in /repo repair the others. DESIGN.md section 11 is the build report (defects repaired, known findings, false alarms corrected, the 100 seeded changes and which check catches which). VERIF_NO_FUZZ=1 skips the libFuzzer part of the thorough tier.",
}
json.dump(m, open(os.path.join(here, "MANIFEST.json"), "w"), indent=1)
print("checks:", [c["property_id"] for c in m["checks"]])
