#!/bin/sh
# tools/silence.sh [seed ...] : every quick check on the unchanged tree, from fresh processes, with the
# given VERIF_SEEDs (default 1 2 3 4 5); prints one line per run and a summary of non-zero exits.
here="$(cd "$(dirname "$0")/.." && pwd)"
seeds="${*:-1 2 3 4 5}"
bad=0
for s in $seeds; do
  for id in C01 C02 C03 C04 C05 C06 C07 C08 C09 C10 C11 C12 C13 C14 C15 C16 C17 C18 C19 C20; do
    out=$(VERIF_SEED=$s "$here/check" $id quick 2>&1); code=$?
    line=$(printf '%s\n' "$out" | grep -a -E "^$id quick:" | tail -1)
    echo "seed=$s exit=$code $line"
    if [ $code -ne 0 ]; then bad=$((bad+1)); printf '%s\n' "$out" | grep -a -E "^(VIOLATION|INCONCLUSIVE)" | head -3; fi
  done
done
echo "non-zero exits: $bad"
