#!/usr/bin/env python3
"""Seeded changes (property-breaking patches written by agents that saw only the property text).

  tools/seeded.py import <P> <dir> [cd]  copy <dir>/patch{k}.diff, demo{k}.md, meta{k}.json to seeded/<P>-{a,b}/ (or -{c,d})
  tools/seeded.py run [name ...] [--checks C01,C02] [--tier quick]
        for each seeded/<name>: apply patch.diff to /repo (must be clean), build the harness into a
        scratch target directory, run the listed checks (default: the check of the change's own
        property) with a scratch VERIF_ROOT, revert /repo, and record the outcome in meta.json.

Nothing is ever committed to /repo; the scratch directories live under /tmp and are removed.
"""
import json, os, shutil, subprocess, sys, time

VERIF = os.path.dirname(os.path.dirname(os.path.abspath(__file__)))
REPO = "/repo"
SEEDED = os.path.join(VERIF, "seeded")
TGT = "/tmp/verif-seeded-target"
ROOT = "/tmp/verif-seeded-root"


def sh(cmd, **kw):
    return subprocess.run(cmd, shell=True, text=True, capture_output=True, **kw)


def repo_clean():
    return sh(f"git -C {REPO} status --porcelain").stdout.strip() == ""


def do_import(prop, src, letters="ab"):
    for k, suffix in ((1, letters[0]), (2, letters[1])):
        p = os.path.join(src, f"patch{k}.diff")
        if not os.path.exists(p):
            continue
        dst = os.path.join(SEEDED, f"{prop}-{suffix}")
        os.makedirs(dst, exist_ok=True)
        shutil.copy(p, os.path.join(dst, "patch.diff"))
        d = os.path.join(src, f"demo{k}.md")
        if os.path.exists(d):
            shutil.copy(d, os.path.join(dst, "demo.md"))
        meta = {}
        m = os.path.join(src, f"meta{k}.json")
        if os.path.exists(m):
            try:
                meta = json.load(open(m))
            except Exception as e:
                meta = {"note": f"agent meta unreadable: {e}"}
        meta.pop("test_output_tail", None)
        out = {"property": prop, "origin": "sub-agent given only the property text and a scratch worktree", "agent": meta}
        old = os.path.join(dst, "meta.json")
        if os.path.exists(old):
            prev = json.load(open(old))
            for key in ("runs", "confirmed", "verdict"):
                if key in prev:
                    out[key] = prev[key]
        json.dump(out, open(old, "w"), indent=1)
        print("imported", dst)


def prepare_root():
    shutil.rmtree(ROOT, ignore_errors=True)
    os.makedirs(os.path.join(ROOT, "evidence"))
    shutil.copy(os.path.join(VERIF, "known_findings.json"), ROOT)
    shutil.copy(os.path.join(VERIF, "properties.jsonl"), ROOT)
    shutil.copytree(os.path.join(VERIF, "replays"), os.path.join(ROOT, "replays"))


def run_one(name, checks, tier):
    d = os.path.join(SEEDED, name)
    meta_p = os.path.join(d, "meta.json")
    meta = json.load(open(meta_p))
    prop = meta["property"]
    checks = checks or [prop]
    if not repo_clean():
        print("refusing: /repo has uncommitted changes")
        sys.exit(2)
    head = sh(f"git -C {REPO} rev-parse --short HEAD").stdout.strip()
    r = sh(f"git -C {REPO} apply {os.path.join(d, 'patch.diff')}")
    if r.returncode != 0:
        print(name, "patch does not apply:", r.stderr.strip()[:300])
        meta.setdefault("runs", []).append({"repo_head": head, "applies": False, "error": r.stderr.strip()[:300]})
        json.dump(meta, open(meta_p, "w"), indent=1)
        return
    try:
        env = dict(os.environ, CARGO_TARGET_DIR=TGT, CARGO_NET_OFFLINE="true")
        b = sh("cargo build --release --offline", cwd=os.path.join(VERIF, "harness"), env=env)
        if b.returncode != 0:
            print(name, "harness does not build with the patch")
            meta.setdefault("runs", []).append({"repo_head": head, "applies": True, "builds": False, "error": b.stderr[-600:]})
            json.dump(meta, open(meta_p, "w"), indent=1)
            return
        results = {}
        for c in checks:
            prepare_root()
            env2 = dict(env, VERIF_ROOT=ROOT)
            t0 = time.time()
            r = sh(f"{TGT}/release/check {c} {tier}", cwd=os.path.join(VERIF, "harness"), env=env2)
            lines = [l for l in r.stdout.splitlines() if l.startswith("VIOLATION")]
            sigs = sorted({l.split("(")[-1].rstrip(")") for l in lines})
            results[c] = {"exit": r.returncode, "violations": sigs[:8], "seconds": round(time.time() - t0, 1)}
            print(name, c, tier, "exit", r.returncode, sigs[:4])
        meta.setdefault("runs", []).append({"repo_head": head, "applies": True, "builds": True, "tier": tier, "results": results})
        caught = sorted({c for run in meta["runs"] for c, v in run.get("results", {}).items() if v["exit"] == 1})
        missed = sorted({c for run in meta["runs"] for c, v in run.get("results", {}).items() if v["exit"] != 1} - set(caught))
        meta["caught_by"] = caught
        meta["missed_by"] = missed
        json.dump(meta, open(meta_p, "w"), indent=1)
    finally:
        sh(f"git -C {REPO} checkout -- .")
        shutil.rmtree(ROOT, ignore_errors=True)


def main():
    a = sys.argv[1:]
    if not a:
        print(__doc__)
        return
    if a[0] == "import":
        do_import(a[1], a[2], a[3] if len(a) > 3 else "ab")
        return
    if a[0] == "run":
        names, checks, tier = [], None, "quick"
        i = 1
        while i < len(a):
            if a[i] == "--checks":
                checks = a[i + 1].split(",")
                i += 2
            elif a[i] == "--tier":
                tier = a[i + 1]
                i += 2
            else:
                names.append(a[i])
                i += 1
        if not names:
            names = sorted(os.listdir(SEEDED))
        for n in names:
            run_one(n, checks, tier)
        return
    print(__doc__)


if __name__ == "__main__":
    main()
