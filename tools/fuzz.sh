#!/bin/sh
# tools/fuzz.sh <ID>
# Runs the libFuzzer campaigns registered for property <ID> (fixed numbers of runs, fresh corpus
# seeded from fuzz/seeds/<target>), with the property's own oracle inside the target
# (harness/src/fuzz_entry.rs). Exit 0 = nothing found; 1 = "VIOLATION property=<ID> replay=<path>"
# printed (the replay file is an ordinary `./check <ID> --replay` file); 2 = inconclusive
# (build failure, libFuzzer timeout / out of memory, crash outside the oracle).
# The campaign figures are merged into evidence/<ID>.json under coverage.fuzz.
here="$(cd "$(dirname "$0")/.." && pwd)"
id="$1"
case "$id" in
  C01) plan="decode:3000000:700" ;;
  C02) plan="encode:20000:64" ;;
  C04) plan="arrivals:40000:64" ;;
  C08) plan="comparison:1000000:64 conflicts:40000:64" ;;
  C14) plan="shutdown_queue:40000:64" ;;
  C15) plan="daemon_packets:40000:64 api_arguments:40000:64" ;;
  C16) plan="txt:1500000:600 txt_lists:300000:64" ;;
  C18) plan="interfaces:40000:64" ;;
  *) exit 0 ;;
esac
export CARGO_NET_OFFLINE=true
export VERIF_ROOT="$here"
seed=$(( ${VERIF_SEED:-0} + 1 ))
cd "$here/harness" || exit 2
targets=$(for p in $plan; do echo "${p%%:*}"; done)
for t in $targets; do
  if ! cargo +nightly fuzz build -s none --fuzz-dir ../fuzz "$t" >"$here/fuzz/build-$t.log" 2>&1; then
    tail -20 "$here/fuzz/build-$t.log"
    echo "INCONCLUSIVE property=$id fuzz target $t does not build (see fuzz/build-$t.log)"
    exit 2
  fi
done
status=0
for p in $plan; do
  t="${p%%:*}"; rest="${p#*:}"; runs="${rest%%:*}"; maxlen="${rest#*:}"
  corpus="$here/fuzz/corpus/$t"
  rm -rf "$corpus"; mkdir -p "$corpus" "$here/fuzz/artifacts/$t"
  if [ -d "$here/fuzz/seeds/$t" ]; then cp "$here/fuzz/seeds/$t"/* "$corpus"/ 2>/dev/null; fi
  log="$here/fuzz/run-$t.log"
  start=$(date +%s)
  cargo +nightly fuzz run -s none --fuzz-dir ../fuzz "$t" "$corpus" -- \
      -runs="$runs" -seed="$seed" -len_control=0 -max_len="$maxlen" -timeout=120 -rss_limit_mb=6144 \
      -artifact_prefix="$here/fuzz/artifacts/$t/" -print_final_stats=1 >"$log" 2>&1
  code=$?
  end=$(date +%s)
  python3 "$here/tools/merge_fuzz_evidence.py" "$id" "$t" "$runs" "$seed" "$log" "$((end-start))" "$code"
  if [ $code -ne 0 ]; then
    v=$(grep -a "^VIOLATION property=" "$log" | head -1)
    if [ -n "$v" ]; then
      echo "$v"
      status=1
    else
      tail -15 "$log"
      echo "INCONCLUSIVE property=$id libFuzzer target $t ended with code $code without an oracle violation (timeout, memory or a crash outside the oracle; see fuzz/run-$t.log)"
      [ $status -eq 0 ] && status=2
    fi
  else
    echo "$id fuzz $t: $(grep -a -E '^stat::number_of_executed_units' "$log" | awk '{print $2}') runs, $(grep -a -E 'DONE' "$log" | tail -1 | sed 's/.*cov: \([0-9]*\).*/\1/') edges covered, $((end-start)) s, nothing found"
  fi
done
exit $status
