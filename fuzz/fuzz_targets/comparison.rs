#![no_main]
//! cargo-fuzz target: see verif_harness::fuzz_entry::comparison
use libfuzzer_sys::fuzz_target;

#[global_allocator]
static ALLOC: verif_harness::guard::CountingAlloc = verif_harness::guard::CountingAlloc;

fuzz_target!(|data: &[u8]| {
    verif_harness::fuzz_entry::comparison(data);
});
