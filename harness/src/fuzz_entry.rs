//! Entry points for the cargo-fuzz targets in /verif/fuzz: the same checks (generator + oracle)
//! as the `check` binary, driven by libFuzzer.
//!
//! * byte-level targets hand the fuzzer's bytes to the check as they are (a datagram, a TXT RDATA);
//! * structured targets turn the bytes into a case through the property's own proptest strategy,
//!   seeded from the bytes (see `from_bytes` for why not proptest's pass-through RNG): libFuzzer
//!   schedules seeds and keeps those that reach new coverage.
//!
//! A violation whose signature is not a recorded finding is written as an ordinary replay file
//! under replays/<ID>/found-fuzz-*.json (so `./check <ID> --replay <file>` re-runs it) and then
//! panics, which libFuzzer reports as a crash.

use crate::props::*;
use crate::runner::{load_findings, verif_root, CaseCtx};
use proptest::strategy::{BoxedStrategy, Strategy, ValueTree};
use proptest::test_runner::{Config, RngAlgorithm, TestRng, TestRunner};
use serde::Serialize;
use std::sync::OnceLock;

static KNOWN: OnceLock<Vec<(String, String)>> = OnceLock::new();

fn known(prop: &str, sig: &str) -> bool {
    KNOWN
        .get_or_init(|| load_findings().into_iter().filter(|f| f.status == "known").map(|f| (f.property, f.signature)).collect())
        .iter()
        .any(|(p, s)| p == prop && s == sig)
}

pub fn init() {
    static ONCE: OnceLock<()> = OnceLock::new();
    ONCE.get_or_init(|| mdns_sd::verif::install_panic_recorder(true));
}

fn judge<C: Serialize>(prop: &str, part: &str, case: &C, check: &dyn Fn(&C, &mut CaseCtx)) {
    init();
    let mut ctx = CaseCtx::default();
    check(case, &mut ctx);
    let Some(v) = ctx.violations.iter().find(|v| !known(prop, &v.signature) && !v.signature.contains("/harness/")) else {
        return;
    };
    let body = serde_json::json!({
        "property": prop, "part": part, "signature": v.signature, "detail": v.detail.chars().take(4000).collect::<String>(),
        "seed": 0, "case": case, "origin": "libFuzzer",
    });
    let text = serde_json::to_string_pretty(&body).unwrap_or_default();
    let mut h: u64 = 0xcbf29ce484222325;
    for b in text.bytes() {
        h = (h ^ b as u64).wrapping_mul(0x100000001b3);
    }
    let dir = verif_root().join("replays").join(prop);
    let _ = std::fs::create_dir_all(&dir);
    let path = dir.join(format!("found-fuzz-{:016x}.json", h));
    let _ = std::fs::write(&path, text);
    eprintln!("VIOLATION property={prop} replay={}   ({})", path.display(), v.signature);
    panic!("violation of {prop}: {}", v.signature);
}

/// The case the strategy produces when the fuzzer's bytes are its random stream.
fn from_bytes<C: std::fmt::Debug>(strategy: &BoxedStrategy<C>, data: &[u8]) -> Option<C> {
    if data.len() < 8 {
        return None;
    }
    // proptest's pass-through RNG (the fuzzer's bytes as the random stream) cannot be used here: every
    // nested strategy forks the RNG, each fork halves what is left of the stream, and an exhausted
    // stream yields zeros, on which rand's unbiased range sampling never terminates. The bytes are
    // therefore condensed into a ChaCha seed: libFuzzer acts as a scheduler of seeds that keeps the
    // ones reaching new coverage (coarse guidance: a mutated input is a fresh case, not a neighbour).
    let mut seed = [0u8; 32];
    let mut h: u64 = 0xcbf29ce484222325;
    for (i, b) in data.iter().enumerate() {
        h = (h ^ *b as u64).wrapping_mul(0x100000001b3);
        seed[i % 32] ^= (h >> 24) as u8 ^ *b;
    }
    let mut runner = TestRunner::new_with_rng(Config::default(), TestRng::from_seed(RngAlgorithm::ChaCha, &seed));
    strategy.new_tree(&mut runner).ok().map(|t| t.current())
}

macro_rules! structured {
    ($name:ident, $prop:expr, $part:expr, $ty:ty, $strategy:expr, $check:expr) => {
        pub fn $name(data: &[u8]) {
            thread_local! {
                static S: BoxedStrategy<$ty> = $strategy;
            }
            let case = S.with(|s| from_bytes(s, data));
            if let Some(case) = case {
                judge($prop, $part, &case, &$check);
            }
        }
    };
}

/// C01: the bytes are one datagram.
pub fn decode(data: &[u8]) {
    let case = c01::Case { family: "fuzz".into(), bytes: data.to_vec() };
    judge("C01", "datagrams", &case, &c01::check);
}

/// C16: the bytes are one TXT RDATA.
pub fn txt(data: &[u8]) {
    let case = c16::Raw { bytes: data.to_vec() };
    judge("C16", "raw-rdata", &case, &c16::check_raw);
}

structured!(encode, "C02", "messages", c02::Case, c02::strategy(), c02::check);
structured!(txt_lists, "C16", "lists", c16::Case, c16::list_strategy(), c16::check_list);
structured!(daemon_packets, "C15", "packets", c15::Case, c15::packet_strategy(), c15::check);
structured!(api_arguments, "C15", "api-arguments", c15::Case, c15::api_strategy(), c15::check);
structured!(conflicts, "C08", "injected-conflicts", c08::InjCase, c08::inject_strategy(), c08::check_inject);
structured!(comparison, "C08", "comparison", c08::CmpCase, c08::cmp_strategy(), c08::check_cmp);
structured!(arrivals, "C04", "arrivals", crate::props::browser::Case, c04::strategy(), c04::check);
structured!(interfaces, "C18", "interfaces", c18::Case, c18::strategy(), c18::check);
structured!(shutdown_queue, "C14", "queue-positions", c14::Case, c14::queue_strategy(), c14::check_queue);
