#![allow(dead_code)]
//! The verification harness as a library: generators, reference models, the simulation world, the
//! runner and the per-property checks. `src/main.rs` is the `check` binary; the cargo-fuzz targets
//! in /verif/fuzz drive the same checks through [`fuzz_entry`].

pub mod fuzz_entry;
pub mod gen;
pub mod guard;
pub mod props;
pub mod refdns;
pub mod runner;
pub mod sim;
