//! Independent reference DNS wire codec (RFC 1035 §3-4, RFC 6762 §10/18, RFC 6763 §4.3/§6).
//! Written from the RFCs; never calls or copies the crate's codec. Labels are byte strings.

use serde::{Deserialize, Serialize};
use std::collections::HashMap;
use std::net::{Ipv4Addr, Ipv6Addr};

pub const T_A: u16 = 1;
pub const T_CNAME: u16 = 5;
pub const T_PTR: u16 = 12;
pub const T_HINFO: u16 = 13;
pub const T_TXT: u16 = 16;
pub const T_AAAA: u16 = 28;
pub const T_SRV: u16 = 33;
pub const T_NSEC: u16 = 47;
pub const T_ANY: u16 = 255;
pub const FLUSH: u16 = 0x8000;
pub const QR: u16 = 0x8000;
pub const AA: u16 = 0x0400;
pub const TC: u16 = 0x0200;

/// A domain name as a sequence of labels (no root label).
#[derive(Clone, Debug, PartialEq, Eq, Hash, PartialOrd, Ord, Serialize, Deserialize, Default)]
pub struct Name(pub Vec<Vec<u8>>);

impl Name {
    pub fn from_labels<S: AsRef<[u8]>>(labels: &[S]) -> Name {
        Name(labels.iter().map(|l| l.as_ref().to_vec()).collect())
    }

    /// Parses the crate's *escaped* text form ("a\\.b.c.local."): '.' separates labels unless
    /// preceded by a backslash; "\\\\" is a literal backslash; a backslash before anything else
    /// (or at the end) is literal; empty labels are dropped. (RFC 6763 §4.3.)
    pub fn from_escaped(text: &str) -> Name {
        let mut labels = Vec::new();
        let mut cur: Vec<u8> = Vec::new();
        let b = text.as_bytes();
        let mut i = 0;
        while i < b.len() {
            match b[i] {
                b'\\' => {
                    if i + 1 < b.len() && (b[i + 1] == b'.' || b[i + 1] == b'\\') {
                        cur.push(b[i + 1]);
                        i += 2;
                        continue;
                    }
                    cur.push(b'\\');
                }
                b'.' => {
                    if !cur.is_empty() {
                        labels.push(std::mem::take(&mut cur));
                    }
                }
                c => cur.push(c),
            }
            i += 1;
        }
        if !cur.is_empty() {
            labels.push(cur);
        }
        Name(labels)
    }

    /// Simple text: labels separated by '.', *no* escaping (what a decoder that does not
    /// escape produces), with a trailing dot; the root name is "".
    pub fn to_plain(&self) -> String {
        let mut s = String::new();
        for l in &self.0 {
            s.push_str(&String::from_utf8_lossy(l));
            s.push('.');
        }
        s
    }

    /// RFC 6763 §4.3 escaped text with a trailing dot.
    pub fn to_escaped(&self) -> String {
        let mut s = String::new();
        for l in &self.0 {
            for ch in String::from_utf8_lossy(l).chars() {
                if ch == '.' || ch == '\\' {
                    s.push('\\');
                }
                s.push(ch);
            }
            s.push('.');
        }
        s
    }

    pub fn is_utf8(&self) -> bool {
        self.0.iter().all(|l| std::str::from_utf8(l).is_ok())
    }

    pub fn wire_len(&self) -> usize {
        self.0.iter().map(|l| l.len() + 1).sum::<usize>() + 1
    }

    pub fn lower(&self) -> Name {
        Name(
            self.0
                .iter()
                .map(|l| match std::str::from_utf8(l) {
                    Ok(s) => s.to_lowercase().into_bytes(),
                    Err(_) => l.to_ascii_lowercase(),
                })
                .collect(),
        )
    }

    pub fn eq_ignore_case(&self, other: &Name) -> bool {
        self.lower() == other.lower()
    }
}

#[derive(Clone, Debug, PartialEq, Eq, Hash, Serialize, Deserialize)]
pub enum RData {
    A(Ipv4Addr),
    Aaaa(Ipv6Addr),
    Ptr(Name),
    Cname(Name),
    Srv {
        priority: u16,
        weight: u16,
        port: u16,
        target: Name,
    },
    Txt(Vec<u8>),
    /// cpu and os character-strings.
    Hinfo(Vec<u8>, Vec<u8>),
    /// next domain name, then the raw type-bitmap bytes (window, length, bitmap...).
    Nsec(Name, Vec<u8>),
    Other(Vec<u8>),
}

#[derive(Clone, Debug, PartialEq, Eq, Hash, Serialize, Deserialize)]
pub struct Record {
    pub name: Name,
    pub rtype: u16,
    /// Raw class field including the cache-flush bit.
    pub class: u16,
    pub ttl: u32,
    pub rdata: RData,
}

impl Record {
    pub fn flush(&self) -> bool {
        self.class & FLUSH != 0
    }
    pub fn class_only(&self) -> u16 {
        self.class & 0x7FFF
    }
}

#[derive(Clone, Debug, PartialEq, Eq, Hash, Serialize, Deserialize)]
pub struct Question {
    pub name: Name,
    pub qtype: u16,
    pub qclass: u16,
}

#[derive(Clone, Debug, PartialEq, Eq, Default, Serialize, Deserialize)]
pub struct Message {
    pub id: u16,
    pub flags: u16,
    pub questions: Vec<Question>,
    pub answers: Vec<Record>,
    pub authorities: Vec<Record>,
    pub additionals: Vec<Record>,
}

impl Message {
    pub fn is_response(&self) -> bool {
        self.flags & QR != 0
    }
    pub fn all_records(&self) -> impl Iterator<Item = &Record> {
        self.answers
            .iter()
            .chain(self.authorities.iter())
            .chain(self.additionals.iter())
    }
}

/// Extra facts the decoder learned.
#[derive(Clone, Debug, Default)]
pub struct DecodeInfo {
    pub counts: [u16; 4],
    /// Number of bytes consumed by the four sections (may be < datagram length).
    pub consumed: usize,
    /// Number of compression pointers followed.
    pub pointers: usize,
    /// A pointer whose target is not before the start of the name that contains it.
    pub forward_pointer: bool,
    /// A pointer into the 12-byte header.
    pub header_pointer: bool,
    /// Longest decoded name (wire length).
    pub longest_name: usize,
    /// Records whose type is unknown to mDNS-SD (skipped by the crate).
    pub other_records: usize,
    /// End offset of every entry (questions, then records) in wire order.
    pub ends: Vec<usize>,
}

#[derive(Clone, Debug, PartialEq, Eq)]
pub enum DecodeError {
    ShortHeader,
    Truncated(&'static str),
    BadLabel(u8),
    PointerCycle,
    PointerOutOfRange,
    NameTooLong,
    RdataMismatch(u16),
}

struct Rd<'a> {
    d: &'a [u8],
    pos: usize,
    info: DecodeInfo,
    /// if true, names longer than 255 bytes are an error (RFC 1035 §2.3.4).
    strict_name_len: bool,
}

impl<'a> Rd<'a> {
    fn u8(&mut self, what: &'static str) -> Result<u8, DecodeError> {
        let v = *self.d.get(self.pos).ok_or(DecodeError::Truncated(what))?;
        self.pos += 1;
        Ok(v)
    }
    fn u16(&mut self, what: &'static str) -> Result<u16, DecodeError> {
        if self.pos + 2 > self.d.len() {
            return Err(DecodeError::Truncated(what));
        }
        let v = u16::from_be_bytes([self.d[self.pos], self.d[self.pos + 1]]);
        self.pos += 2;
        Ok(v)
    }
    fn u32(&mut self, what: &'static str) -> Result<u32, DecodeError> {
        if self.pos + 4 > self.d.len() {
            return Err(DecodeError::Truncated(what));
        }
        let v = u32::from_be_bytes([
            self.d[self.pos],
            self.d[self.pos + 1],
            self.d[self.pos + 2],
            self.d[self.pos + 3],
        ]);
        self.pos += 4;
        Ok(v)
    }
    fn bytes(&mut self, n: usize, what: &'static str) -> Result<&'a [u8], DecodeError> {
        if self.pos + n > self.d.len() {
            return Err(DecodeError::Truncated(what));
        }
        let v = &self.d[self.pos..self.pos + n];
        self.pos += n;
        Ok(v)
    }

    /// Reads a possibly compressed name at `self.pos`; advances past its in-place encoding.
    fn name(&mut self) -> Result<Name, DecodeError> {
        let start = self.pos;
        let mut labels = Vec::new();
        let mut visited: Vec<usize> = Vec::new();
        let mut p = self.pos;
        let mut after: Option<usize> = None;
        let mut wire = 1usize;
        loop {
            let len = *self.d.get(p).ok_or(DecodeError::Truncated("name"))?;
            match len & 0xC0 {
                0x00 => {
                    if len == 0 {
                        if after.is_none() {
                            after = Some(p + 1);
                        }
                        break;
                    }
                    let end = p + 1 + len as usize;
                    if end > self.d.len() {
                        return Err(DecodeError::Truncated("label"));
                    }
                    labels.push(self.d[p + 1..end].to_vec());
                    wire += 1 + len as usize;
                    if self.strict_name_len && wire > 255 {
                        return Err(DecodeError::NameTooLong);
                    }
                    // A total decoder must bound its output even when not strict: no name
                    // can legitimately hold more label bytes than the datagram has bytes
                    // (or, for short datagrams with overlapping pointer tricks, than the
                    // 255 octets RFC 1035 allows).
                    if wire > self.d.len().max(255) + 1 {
                        return Err(DecodeError::PointerCycle);
                    }
                    p = end;
                }
                0xC0 => {
                    if p + 2 > self.d.len() {
                        return Err(DecodeError::Truncated("pointer"));
                    }
                    let target = (((len & 0x3F) as usize) << 8) | self.d[p + 1] as usize;
                    if after.is_none() {
                        after = Some(p + 2);
                    }
                    if target >= self.d.len() {
                        return Err(DecodeError::PointerOutOfRange);
                    }
                    if visited.contains(&target) {
                        return Err(DecodeError::PointerCycle);
                    }
                    visited.push(target);
                    self.info.pointers += 1;
                    if target >= start {
                        self.info.forward_pointer = true;
                    }
                    if target < 12 {
                        self.info.header_pointer = true;
                    }
                    p = target;
                }
                _ => return Err(DecodeError::BadLabel(len)),
            }
        }
        self.pos = after.unwrap();
        self.info.longest_name = self.info.longest_name.max(wire);
        Ok(Name(labels))
    }

    fn record(&mut self) -> Result<Record, DecodeError> {
        let name = self.name()?;
        let rtype = self.u16("type")?;
        let class = self.u16("class")?;
        let ttl = self.u32("ttl")?;
        let rdlen = self.u16("rdlength")? as usize;
        let rstart = self.pos;
        let rend = rstart + rdlen;
        if rend > self.d.len() {
            return Err(DecodeError::Truncated("rdata"));
        }
        let rdata = match rtype {
            T_A => {
                let b = self.bytes(4, "A")?;
                RData::A(Ipv4Addr::new(b[0], b[1], b[2], b[3]))
            }
            T_AAAA => {
                let b = self.bytes(16, "AAAA")?;
                let mut a = [0u8; 16];
                a.copy_from_slice(b);
                RData::Aaaa(Ipv6Addr::from(a))
            }
            T_PTR => RData::Ptr(self.name()?),
            T_CNAME => RData::Cname(self.name()?),
            T_SRV => {
                let priority = self.u16("srv")?;
                let weight = self.u16("srv")?;
                let port = self.u16("srv")?;
                let target = self.name()?;
                RData::Srv {
                    priority,
                    weight,
                    port,
                    target,
                }
            }
            T_TXT => RData::Txt(self.bytes(rdlen, "txt")?.to_vec()),
            T_HINFO => {
                let l = self.u8("hinfo")? as usize;
                let cpu = self.bytes(l, "hinfo")?.to_vec();
                let l = self.u8("hinfo")? as usize;
                let os = self.bytes(l, "hinfo")?.to_vec();
                RData::Hinfo(cpu, os)
            }
            T_NSEC => {
                let next = self.name()?;
                if self.pos > rend {
                    return Err(DecodeError::RdataMismatch(rtype));
                }
                let rest = self.bytes(rend - self.pos, "nsec")?.to_vec();
                RData::Nsec(next, rest)
            }
            _ => {
                self.info.other_records += 1;
                RData::Other(self.bytes(rdlen, "rdata")?.to_vec())
            }
        };
        if self.pos != rend {
            return Err(DecodeError::RdataMismatch(rtype));
        }
        Ok(Record {
            name,
            rtype,
            class,
            ttl,
            rdata,
        })
    }
}

/// Total decoder: every byte string yields a message or an error; never loops (pointer
/// targets are tracked per name). Pointers may go anywhere inside the datagram as long as the
/// name terminates; RDATA must be consumed exactly.
pub fn decode(d: &[u8]) -> Result<(Message, DecodeInfo), DecodeError> {
    decode_opt(d, false)
}

pub fn decode_opt(d: &[u8], strict_name_len: bool) -> Result<(Message, DecodeInfo), DecodeError> {
    if d.len() < 12 {
        return Err(DecodeError::ShortHeader);
    }
    let mut r = Rd {
        d,
        pos: 0,
        info: DecodeInfo::default(),
        strict_name_len,
    };
    let id = r.u16("hdr")?;
    let flags = r.u16("hdr")?;
    let qd = r.u16("hdr")?;
    let an = r.u16("hdr")?;
    let ns = r.u16("hdr")?;
    let ar = r.u16("hdr")?;
    r.info.counts = [qd, an, ns, ar];
    let mut m = Message {
        id,
        flags,
        ..Default::default()
    };
    for _ in 0..qd {
        let name = r.name()?;
        let qtype = r.u16("qtype")?;
        let qclass = r.u16("qclass")?;
        m.questions.push(Question {
            name,
            qtype,
            qclass,
        });
        let p = r.pos;
        r.info.ends.push(p);
    }
    for _ in 0..an {
        let rec = r.record()?;
        m.answers.push(rec);
        let p = r.pos;
        r.info.ends.push(p);
    }
    for _ in 0..ns {
        let rec = r.record()?;
        m.authorities.push(rec);
        let p = r.pos;
        r.info.ends.push(p);
    }
    for _ in 0..ar {
        let rec = r.record()?;
        m.additionals.push(rec);
        let p = r.pos;
        r.info.ends.push(p);
    }
    r.info.consumed = r.pos;
    Ok((m, r.info))
}

/// How the reference encoder compresses names.
#[derive(Clone, Copy, Debug, PartialEq, Eq, Serialize, Deserialize)]
pub enum Compress {
    None,
    /// RFC 1035 §4.1.4: reuse any earlier suffix (exact label bytes).
    Suffix,
}

pub struct Encoder {
    pub buf: Vec<u8>,
    compress: Compress,
    table: HashMap<Vec<Vec<u8>>, usize>,
}

impl Encoder {
    pub fn new(compress: Compress) -> Self {
        Encoder {
            buf: vec![0; 12],
            compress,
            table: HashMap::new(),
        }
    }

    pub fn name(&mut self, n: &Name) {
        for i in 0..n.0.len() {
            let suffix: Vec<Vec<u8>> = n.0[i..].to_vec();
            if self.compress == Compress::Suffix {
                if let Some(&off) = self.table.get(&suffix) {
                    self.buf.push(0xC0 | ((off >> 8) as u8));
                    self.buf.push(off as u8);
                    return;
                }
                if self.buf.len() < 0x4000 {
                    self.table.insert(suffix, self.buf.len());
                }
            }
            self.buf.push(n.0[i].len() as u8);
            self.buf.extend_from_slice(&n.0[i]);
        }
        self.buf.push(0);
    }

    pub fn question(&mut self, q: &Question) {
        self.name(&q.name);
        self.buf.extend_from_slice(&q.qtype.to_be_bytes());
        self.buf.extend_from_slice(&q.qclass.to_be_bytes());
    }

    pub fn record(&mut self, r: &Record) {
        self.name(&r.name);
        self.buf.extend_from_slice(&r.rtype.to_be_bytes());
        self.buf.extend_from_slice(&r.class.to_be_bytes());
        self.buf.extend_from_slice(&r.ttl.to_be_bytes());
        let lenpos = self.buf.len();
        self.buf.extend_from_slice(&[0, 0]);
        match &r.rdata {
            RData::A(a) => self.buf.extend_from_slice(&a.octets()),
            RData::Aaaa(a) => self.buf.extend_from_slice(&a.octets()),
            RData::Ptr(n) | RData::Cname(n) => self.name(n),
            RData::Srv {
                priority,
                weight,
                port,
                target,
            } => {
                self.buf.extend_from_slice(&priority.to_be_bytes());
                self.buf.extend_from_slice(&weight.to_be_bytes());
                self.buf.extend_from_slice(&port.to_be_bytes());
                self.name(target);
            }
            RData::Txt(t) => self.buf.extend_from_slice(t),
            RData::Hinfo(c, o) => {
                self.buf.push(c.len() as u8);
                self.buf.extend_from_slice(c);
                self.buf.push(o.len() as u8);
                self.buf.extend_from_slice(o);
            }
            RData::Nsec(n, rest) => {
                self.name(n);
                self.buf.extend_from_slice(rest);
            }
            RData::Other(b) => self.buf.extend_from_slice(b),
        }
        let l = (self.buf.len() - lenpos - 2) as u16;
        self.buf[lenpos..lenpos + 2].copy_from_slice(&l.to_be_bytes());
    }

    pub fn finish(mut self, id: u16, flags: u16, counts: [u16; 4]) -> Vec<u8> {
        self.buf[0..2].copy_from_slice(&id.to_be_bytes());
        self.buf[2..4].copy_from_slice(&flags.to_be_bytes());
        for (i, c) in counts.iter().enumerate() {
            self.buf[4 + 2 * i..6 + 2 * i].copy_from_slice(&c.to_be_bytes());
        }
        self.buf
    }
}

pub fn encode(m: &Message, compress: Compress) -> Vec<u8> {
    let mut e = Encoder::new(compress);
    for q in &m.questions {
        e.question(q);
    }
    for r in m.all_records() {
        e.record(r);
    }
    e.finish(
        m.id,
        m.flags,
        [
            m.questions.len() as u16,
            m.answers.len() as u16,
            m.authorities.len() as u16,
            m.additionals.len() as u16,
        ],
    )
}

/// Size of a record on the wire without any compression.
pub fn record_uncompressed_len(r: &Record) -> usize {
    let rd = match &r.rdata {
        RData::A(_) => 4,
        RData::Aaaa(_) => 16,
        RData::Ptr(n) | RData::Cname(n) => n.wire_len(),
        RData::Srv { target, .. } => 6 + target.wire_len(),
        RData::Txt(t) => t.len(),
        RData::Hinfo(c, o) => 2 + c.len() + o.len(),
        RData::Nsec(n, rest) => n.wire_len() + rest.len(),
        RData::Other(b) => b.len(),
    };
    r.name.wire_len() + 10 + rd
}

// ---------------------------------------------------------------------------------------------
// TXT (RFC 6763 §6)
// ---------------------------------------------------------------------------------------------

/// One TXT attribute: key bytes and optional value ("key" vs "key=" vs "key=value").
pub type TxtAttr = (Vec<u8>, Option<Vec<u8>>);

/// Reference TXT decoding: a sequence of <len><bytes> strings; stops at the first string that
/// overruns the record. Zero-length strings are skipped (RFC 6763 §6.1: "MUST be silently
/// ignored"); `stop_at_empty` instead ends decoding there (some decoders do).
pub fn txt_decode(b: &[u8], stop_at_empty: bool) -> Vec<TxtAttr> {
    let mut out = Vec::new();
    let mut i = 0;
    while i < b.len() {
        let l = b[i] as usize;
        i += 1;
        if l == 0 {
            if stop_at_empty {
                break;
            }
            continue;
        }
        if i + l > b.len() {
            break;
        }
        let s = &b[i..i + l];
        i += l;
        match s.iter().position(|&c| c == b'=') {
            Some(p) => out.push((s[..p].to_vec(), Some(s[p + 1..].to_vec()))),
            None => out.push((s.to_vec(), None)),
        }
    }
    out
}

pub fn txt_encode(attrs: &[TxtAttr]) -> Vec<u8> {
    let mut out = Vec::new();
    for (k, v) in attrs {
        let mut s = k.clone();
        if let Some(v) = v {
            s.push(b'=');
            s.extend_from_slice(v);
        }
        out.push(s.len() as u8);
        out.extend_from_slice(&s);
    }
    if out.is_empty() {
        out.push(0);
    }
    out
}

/// First occurrence of each key wins, keys compared ASCII-case-insensitively (RFC 6763 §6.4).
pub fn txt_first_wins(attrs: &[TxtAttr]) -> Vec<TxtAttr> {
    let mut seen: Vec<Vec<u8>> = Vec::new();
    let mut out = Vec::new();
    for (k, v) in attrs {
        let lk = k.to_ascii_lowercase();
        if seen.contains(&lk) {
            continue;
        }
        seen.push(lk);
        out.push((k.clone(), v.clone()));
    }
    out
}

// ---------------------------------------------------------------------------------------------
// Rendering (dig-like) for histories and samples.
// ---------------------------------------------------------------------------------------------

pub fn type_name(t: u16) -> String {
    match t {
        T_A => "A".into(),
        T_CNAME => "CNAME".into(),
        T_PTR => "PTR".into(),
        T_HINFO => "HINFO".into(),
        T_TXT => "TXT".into(),
        T_AAAA => "AAAA".into(),
        T_SRV => "SRV".into(),
        T_NSEC => "NSEC".into(),
        T_ANY => "ANY".into(),
        t => format!("TYPE{t}"),
    }
}

pub fn render_record(r: &Record) -> String {
    let rd = match &r.rdata {
        RData::A(a) => a.to_string(),
        RData::Aaaa(a) => a.to_string(),
        RData::Ptr(n) | RData::Cname(n) => n.to_escaped(),
        RData::Srv {
            priority,
            weight,
            port,
            target,
        } => format!("{priority} {weight} {port} {}", target.to_escaped()),
        RData::Txt(t) => format!("{:?}", String::from_utf8_lossy(t)),
        RData::Hinfo(c, o) => format!(
            "{:?} {:?}",
            String::from_utf8_lossy(c),
            String::from_utf8_lossy(o)
        ),
        RData::Nsec(n, rest) => format!("{} {:02x?}", n.to_escaped(), rest),
        RData::Other(b) => format!("\\# {} bytes", b.len()),
    };
    format!(
        "{} {}{} {} {}",
        r.name.to_escaped(),
        type_name(r.rtype),
        if r.flush() { "/flush" } else { "" },
        r.ttl,
        rd
    )
}

pub fn render_message(m: &Message) -> String {
    let mut s = format!(
        "{} id={} flags={:#06x}",
        if m.is_response() { "RESP" } else { "QUERY" },
        m.id,
        m.flags
    );
    for q in &m.questions {
        s.push_str(&format!(
            " Q[{} {}{}]",
            q.name.to_escaped(),
            type_name(q.qtype),
            if q.qclass & 0x8000 != 0 { "/QU" } else { "" }
        ));
    }
    for r in &m.answers {
        s.push_str(&format!(" AN[{}]", render_record(r)));
    }
    for r in &m.authorities {
        s.push_str(&format!(" NS[{}]", render_record(r)));
    }
    for r in &m.additionals {
        s.push_str(&format!(" AR[{}]", render_record(r)));
    }
    s
}

#[cfg(test)]
mod tests {
    use super::*;

    #[test]
    fn rfc1035_compression_example() {
        // RFC 1035 §4.1.4 example: F.ISI.ARPA, FOO.F.ISI.ARPA, ARPA, root at offsets 20, 40, 64, 92.
        let mut d = vec![0u8; 93];
        d[20..32].copy_from_slice(&[1, b'F', 3, b'I', b'S', b'I', 4, b'A', b'R', b'P', b'A', 0]);
        d[40..46].copy_from_slice(&[3, b'F', b'O', b'O', 0xC0, 20]);
        d[64..66].copy_from_slice(&[0xC0, 26]);
        d[92] = 0;
        let mut r = Rd {
            d: &d,
            pos: 40,
            info: DecodeInfo::default(),
            strict_name_len: true,
        };
        assert_eq!(r.name().unwrap().to_plain(), "FOO.F.ISI.ARPA.");
        assert_eq!(r.pos, 46);
        r.pos = 64;
        assert_eq!(r.name().unwrap().to_plain(), "ARPA.");
        r.pos = 92;
        assert_eq!(r.name().unwrap().to_plain(), "");
    }

    #[test]
    fn cycle_detected() {
        let mut d = vec![0u8; 12];
        d[0] = 0xC0;
        d[1] = 0x00;
        d[5] = 1;
        d.extend_from_slice(&[0xC0, 0x00, 0, 1, 0, 1]);
        assert_eq!(decode(&d).unwrap_err(), DecodeError::PointerCycle);
    }

    #[test]
    fn roundtrip() {
        let n = Name::from_escaped("My\\.Svc._http._tcp.local.");
        assert_eq!(n.0.len(), 4);
        assert_eq!(n.0[0], b"My.Svc");
        assert_eq!(n.to_escaped(), "My\\.Svc._http._tcp.local.");
        let m = Message {
            id: 7,
            flags: QR | AA,
            questions: vec![],
            answers: vec![Record {
                name: Name::from_escaped("_http._tcp.local."),
                rtype: T_PTR,
                class: 1,
                ttl: 4500,
                rdata: RData::Ptr(n.clone()),
            }],
            authorities: vec![],
            additionals: vec![Record {
                name: n,
                rtype: T_SRV,
                class: 0x8001,
                ttl: 120,
                rdata: RData::Srv {
                    priority: 0,
                    weight: 0,
                    port: 80,
                    target: Name::from_escaped("h.local."),
                },
            }],
        };
        for c in [Compress::None, Compress::Suffix] {
            let b = encode(&m, c);
            let (m2, info) = decode(&b).unwrap();
            assert_eq!(m, m2);
            assert_eq!(info.consumed, b.len());
        }
    }

    #[test]
    fn txt() {
        let a = vec![
            (b"a".to_vec(), Some(b"1".to_vec())),
            (b"b".to_vec(), None),
            (b"c".to_vec(), Some(vec![])),
            (b"A".to_vec(), Some(b"2".to_vec())),
        ];
        let e = txt_encode(&a);
        assert_eq!(txt_decode(&e, false), a);
        assert_eq!(txt_first_wins(&a).len(), 3);
        assert_eq!(txt_encode(&[]), vec![0]);
        assert_eq!(txt_decode(&[0], false), vec![]);
    }
}
