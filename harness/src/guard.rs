//! Watchdogs for code under test that may panic, spin or allocate without bound:
//! a counting global allocator with a per-thread cap, and a helper thread whose CPU time is
//! observed from outside. Verdicts depend on deterministic quantities (thread CPU seconds,
//! bytes allocated), never on a wall-clock race.

use std::alloc::{GlobalAlloc, Layout, System};
use std::cell::{Cell, RefCell};
use std::sync::atomic::{AtomicBool, AtomicUsize, Ordering};
use std::time::Duration;

pub struct CountingAlloc;

const SLOTS: usize = 4096;
#[allow(clippy::declare_interior_mutable_const)]
const FALSE: AtomicBool = AtomicBool::new(false);
static OVER: [AtomicBool; SLOTS] = [FALSE; SLOTS];
static NEXT_SLOT: AtomicUsize = AtomicUsize::new(0);

thread_local! {
    static BUDGET: Cell<isize> = const { Cell::new(isize::MAX) };
    static PEAK_LOW: Cell<isize> = const { Cell::new(isize::MAX) };
    static SLOT: Cell<usize> = const { Cell::new(usize::MAX) };
}

#[inline]
fn charge(n: isize) {
    let _ = BUDGET.try_with(|b| {
        let v = b.get().saturating_sub(n);
        b.set(v);
        let _ = PEAK_LOW.try_with(|p| {
            if v < p.get() {
                p.set(v)
            }
        });
        if v < 0 {
            if let Ok(slot) = SLOT.try_with(|s| s.get()) {
                if slot < SLOTS {
                    OVER[slot].store(true, Ordering::SeqCst);
                    // Park this thread for good: the harness reports the case and abandons us.
                    loop {
                        unsafe {
                            libc::pause();
                        }
                    }
                }
            }
        }
    });
}

unsafe impl GlobalAlloc for CountingAlloc {
    unsafe fn alloc(&self, layout: Layout) -> *mut u8 {
        charge(layout.size() as isize);
        System.alloc(layout)
    }
    unsafe fn dealloc(&self, ptr: *mut u8, layout: Layout) {
        charge(-(layout.size() as isize));
        System.dealloc(ptr, layout)
    }
    unsafe fn alloc_zeroed(&self, layout: Layout) -> *mut u8 {
        charge(layout.size() as isize);
        System.alloc_zeroed(layout)
    }
    unsafe fn realloc(&self, ptr: *mut u8, layout: Layout, new_size: usize) -> *mut u8 {
        charge(new_size as isize - layout.size() as isize);
        System.realloc(ptr, layout, new_size)
    }
}

/// Starts accounting on the current thread with `cap` bytes of head-room.
pub fn arm(cap: usize) {
    BUDGET.with(|b| b.set(cap as isize));
    PEAK_LOW.with(|p| p.set(cap as isize));
}

/// Stops accounting; returns the peak number of bytes that were live above the level at `arm`.
pub fn disarm(cap: usize) -> usize {
    let low = PEAK_LOW.with(|p| p.get());
    BUDGET.with(|b| b.set(isize::MAX));
    PEAK_LOW.with(|p| p.set(isize::MAX));
    (cap as isize - low).max(0) as usize
}

#[derive(Debug, Clone)]
pub enum Outcome<T> {
    Done { value: T, peak_alloc: usize },
    Panic(String),
    /// The helper used more than the CPU limit on this one input.
    Hang { cpu_s: f64 },
    /// The helper allocated more than the cap on this one input.
    OverAlloc { cap: usize },
}

type Job<I, O> = Box<dyn Fn(I) -> O + Send + 'static>;

struct Helper<I, O> {
    tx: flume::Sender<I>,
    rx: flume::Receiver<Result<(O, usize), String>>,
    clock: libc::clockid_t,
    slot: usize,
}

fn thread_cpu(clock: libc::clockid_t) -> f64 {
    let mut ts = libc::timespec {
        tv_sec: 0,
        tv_nsec: 0,
    };
    unsafe {
        libc::clock_gettime(clock, &mut ts);
    }
    ts.tv_sec as f64 + ts.tv_nsec as f64 * 1e-9
}

/// Runs a function on a watched helper thread, one input at a time.
pub struct Guarded<I: Send + 'static, O: Send + 'static> {
    make: Box<dyn Fn() -> Job<I, O>>,
    helper: RefCell<Option<Helper<I, O>>>,
    pub cap: usize,
    pub cpu_limit_s: f64,
    pub abandoned: Cell<usize>,
}

impl<I: Send + 'static, O: Send + 'static> Guarded<I, O> {
    pub fn new(make: Box<dyn Fn() -> Job<I, O>>, cap: usize, cpu_limit_s: f64) -> Self {
        Guarded {
            make,
            helper: RefCell::new(None),
            cap,
            cpu_limit_s,
            abandoned: Cell::new(0),
        }
    }

    fn spawn(&self) -> Helper<I, O> {
        let (tx, job_rx) = flume::bounded::<I>(1);
        let (res_tx, rx) = flume::bounded::<Result<(O, usize), String>>(1);
        let (id_tx, id_rx) = flume::bounded::<libc::clockid_t>(1);
        let slot = NEXT_SLOT.fetch_add(1, Ordering::SeqCst) % SLOTS;
        OVER[slot].store(false, Ordering::SeqCst);
        let job = (self.make)();
        let cap = self.cap;
        std::thread::Builder::new()
            .name("guarded".into())
            .spawn(move || {
                let mut clock: libc::clockid_t = 0;
                unsafe {
                    libc::pthread_getcpuclockid(libc::pthread_self(), &mut clock);
                }
                let _ = id_tx.send(clock);
                SLOT.with(|s| s.set(slot));
                while let Ok(input) = job_rx.recv() {
                    arm(cap);
                    let r = std::panic::catch_unwind(std::panic::AssertUnwindSafe(|| job(input)));
                    let peak = disarm(cap);
                    let msg = match r {
                        Ok(v) => Ok((v, peak)),
                        Err(_) => Err(mdns_sd::verif::take_last_panic()
                            .unwrap_or_else(|| "<panic>".to_string())),
                    };
                    if res_tx.send(msg).is_err() {
                        break;
                    }
                }
            })
            .expect("spawn guarded helper");
        let clock = id_rx.recv().expect("helper clock id");
        Helper {
            tx,
            rx,
            clock,
            slot,
        }
    }

    pub fn call(&self, input: I) -> Outcome<O> {
        let mut guard = self.helper.borrow_mut();
        if guard.is_none() {
            *guard = Some(self.spawn());
        }
        let h = guard.as_ref().unwrap();
        let cpu0 = thread_cpu(h.clock);
        h.tx.send(input).expect("guarded helper gone");
        let mut wait = Duration::from_millis(50);
        loop {
            match h.rx.recv_timeout(wait) {
                Ok(Ok((value, peak_alloc))) => return Outcome::Done { value, peak_alloc },
                Ok(Err(msg)) => return Outcome::Panic(msg),
                Err(flume::RecvTimeoutError::Timeout) => {
                    if OVER[h.slot].load(Ordering::SeqCst) {
                        let cap = self.cap;
                        *guard = None; // abandon the parked thread
                        self.abandoned.set(self.abandoned.get() + 1);
                        return Outcome::OverAlloc { cap };
                    }
                    let used = thread_cpu(h.clock) - cpu0;
                    if used > self.cpu_limit_s {
                        *guard = None; // abandon the spinning thread
                        self.abandoned.set(self.abandoned.get() + 1);
                        return Outcome::Hang { cpu_s: used };
                    }
                    wait = Duration::from_millis(200);
                }
                Err(flume::RecvTimeoutError::Disconnected) => {
                    *guard = None;
                    return Outcome::Panic("guarded helper thread ended".into());
                }
            }
        }
    }
}
