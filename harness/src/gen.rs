//! Shared generator pieces for the simulation properties: interface tables, names, addresses.

use crate::refdns::Name;
use mdns_sd::verif::SimIf;
use proptest::prelude::*;
use serde::{Deserialize, Serialize};
use std::net::{IpAddr, Ipv4Addr, Ipv6Addr};

pub const IF_NAMES: [&str; 3] = ["eth0", "eth1", "wlan0"];

/// One simulated interface: which address families it carries.
#[derive(Clone, Copy, Debug, Serialize, Deserialize, PartialEq, Eq)]
pub struct IfSpec {
    pub v4: bool,
    pub v6: bool,
}

pub fn if_index(k: usize) -> u32 {
    k as u32 + 2
}

pub fn if_name(k: usize) -> &'static str {
    IF_NAMES[k % 3]
}

/// The daemon's own address on interface k.
pub fn own_v4(k: usize) -> Ipv4Addr {
    Ipv4Addr::new(192, 168, 10 + k as u8, 1)
}

pub fn own_v6(k: usize) -> Ipv6Addr {
    Ipv6Addr::new(0xfd00, k as u16 + 1, 0, 0, 0, 0, 0, 1)
}

/// An address in the subnet of interface k with host part `h`.
pub fn subnet_v4(k: usize, h: u8) -> Ipv4Addr {
    Ipv4Addr::new(192, 168, 10 + k as u8, h)
}

pub fn subnet_v6(k: usize, h: u16) -> Ipv6Addr {
    Ipv6Addr::new(0xfd00, k as u16 + 1, 0, 0, 0, 0, 0, h)
}

/// Which interface (by position) an address belongs to, by subnet.
pub fn subnet_of(ip: &IpAddr) -> Option<usize> {
    match ip {
        IpAddr::V4(a) => {
            let o = a.octets();
            if o[0] == 192 && o[1] == 168 && (10..20).contains(&o[2]) {
                Some((o[2] - 10) as usize)
            } else {
                None
            }
        }
        IpAddr::V6(a) => {
            let s = a.segments();
            if s[0] == 0xfd00 && s[1] >= 1 {
                Some(s[1] as usize - 1)
            } else {
                None
            }
        }
    }
}

pub fn sim_ifs(spec: &[IfSpec]) -> Vec<SimIf> {
    let mut v = Vec::new();
    for (k, s) in spec.iter().enumerate() {
        if s.v4 {
            v.push(SimIf::new(if_name(k), if_index(k), IpAddr::V4(own_v4(k)), 24));
        }
        if s.v6 {
            v.push(SimIf::new(if_name(k), if_index(k), IpAddr::V6(own_v6(k)), 64));
        }
    }
    v
}

pub fn ifspec() -> BoxedStrategy<IfSpec> {
    prop_oneof![
        4 => Just(IfSpec { v4: true, v6: false }),
        2 => Just(IfSpec { v4: true, v6: true }),
        1 => Just(IfSpec { v4: false, v6: true }),
    ]
    .boxed()
}

pub fn iftable(max: usize) -> BoxedStrategy<Vec<IfSpec>> {
    proptest::collection::vec(ifspec(), 1..=max).boxed()
}

pub const TYPES: [&str; 4] = ["_http._tcp.local.", "_ipp._tcp.local.", "_osc._udp.local.", "_a-b1._udp.local."];
pub const HOSTS: [&str; 4] = ["hosta.local.", "HostB.local.", "printer-7.local.", "x.local."];

fn clip(s: String, max: usize) -> String {
    let mut b = s.into_bytes();
    b.truncate(max);
    while std::str::from_utf8(&b).is_err() {
        b.pop();
    }
    if b.is_empty() {
        b.push(b'x');
    }
    String::from_utf8(b).unwrap()
}

/// Instance labels (unescaped): plain, mixed case, spaces, dots, backslashes, non-ASCII, long.
pub fn instance_label() -> BoxedStrategy<String> {
    prop_oneof![
        6 => "[a-z][a-z0-9-]{0,8}",
        3 => "[A-Z][a-z]{1,5} [A-Z][a-z]{1,5}",
        2 => "[a-z]{1,4}\\.[a-z]{1,4}",
        1 => "[a-z]{1,4}\\\\[a-z]{0,4}",
        1 => "[a-zé中]{1,8}".prop_map(|s| clip(s, 63)),
        1 => "[a-z]{1,6} \\([0-9]\\)",
        1 => "[a-z]{55,63}",
    ]
    .boxed()
}

pub fn simple_label() -> BoxedStrategy<String> {
    "[a-z][a-z0-9-]{0,8}".boxed()
}

/// Escapes an instance label for use inside a crate-side fullname.
pub fn esc_label(l: &str) -> String {
    Name(vec![l.as_bytes().to_vec()]).to_escaped().trim_end_matches('.').to_string()
}

/// Case variant of a string: 0 = as is, 1 = upper, 2 = lower, 3 = alternating.
pub fn case_variant(s: &str, v: u8) -> String {
    match v % 4 {
        0 => s.to_string(),
        1 => s.to_ascii_uppercase(),
        2 => s.to_ascii_lowercase(),
        _ => s
            .chars()
            .enumerate()
            .map(|(i, c)| if i % 2 == 0 { c.to_ascii_uppercase() } else { c.to_ascii_lowercase() })
            .collect(),
    }
}
