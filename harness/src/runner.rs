//! Common machinery: seeds, parallel proptest runner, classification counters, shrinking,
//! replay files, known findings, evidence, exit codes.

use proptest::strategy::{BoxedStrategy, Strategy, ValueTree};
use proptest::test_runner::{Config, RngAlgorithm, TestCaseError, TestError, TestRng, TestRunner};
use serde::{de::DeserializeOwned, Deserialize, Serialize};
use serde_json::{json, Value};
use std::cell::RefCell;
use std::collections::{BTreeMap, HashSet};
use std::fmt::Debug;
use std::hash::{Hash, Hasher};
use std::path::PathBuf;
use std::sync::Mutex;
use std::time::Instant;

pub const WORKERS: usize = 16;

#[derive(Clone, Copy, Debug, PartialEq, Eq)]
pub enum Tier {
    Quick,
    Thorough,
}

impl Tier {
    pub fn name(self) -> &'static str {
        match self {
            Tier::Quick => "quick",
            Tier::Thorough => "thorough",
        }
    }
    pub fn pick<T>(self, quick: T, thorough: T) -> T {
        match self {
            Tier::Quick => quick,
            Tier::Thorough => thorough,
        }
    }
}

pub fn verif_root() -> PathBuf {
    std::env::var("VERIF_ROOT")
        .map(PathBuf::from)
        .unwrap_or_else(|_| PathBuf::from("/verif"))
}

pub fn verif_seed() -> u64 {
    std::env::var("VERIF_SEED")
        .ok()
        .and_then(|s| s.trim().parse::<i128>().ok())
        .map(|v| v as u64)
        .unwrap_or(20260925)
}

pub fn hash_str(s: &str) -> u64 {
    let mut h = std::collections::hash_map::DefaultHasher::new();
    s.hash(&mut h);
    h.finish()
}

fn mix(seed: u64, prop: &str, part: &str, worker: usize) -> [u8; 32] {
    // splitmix64 chain over the inputs; a pure function of (seed, prop, part, worker).
    let mut x = seed ^ 0x9E37_79B9_7F4A_7C15;
    let mut out = [0u8; 32];
    let feed = |v: u64, x: &mut u64| {
        *x = x.wrapping_add(v).wrapping_add(0x9E37_79B9_7F4A_7C15);
        let mut z = *x;
        z = (z ^ (z >> 30)).wrapping_mul(0xBF58_476D_1CE4_E5B9);
        z = (z ^ (z >> 27)).wrapping_mul(0x94D0_49BB_1331_11EB);
        *x = z ^ (z >> 31);
    };
    for b in prop.bytes().chain([0u8]).chain(part.bytes()) {
        feed(b as u64, &mut x);
    }
    feed(worker as u64, &mut x);
    for i in 0..4 {
        feed(i as u64, &mut x);
        out[i * 8..i * 8 + 8].copy_from_slice(&x.to_le_bytes());
    }
    out
}

/// One oracle failure.
#[derive(Clone, Debug, Serialize, Deserialize)]
pub struct Violation {
    /// `clause / trigger / observable` - specific enough that a different failure of the same
    /// property has a different signature.
    pub signature: String,
    pub detail: String,
}

/// What a check reports about one case.
#[derive(Default)]
pub struct CaseCtx {
    pub violations: Vec<Violation>,
    pub classes: Vec<String>,
    /// Shape signature when the case is non-trivial by the part's rule.
    pub nontrivial: Option<String>,
    /// Rendered form for evidence samples (only computed when `want_sample`).
    pub sample: Option<Value>,
    pub want_sample: bool,
    /// True in `--replay`: known findings are not tolerated silently, they are reported.
    pub strict: bool,
    /// Counters a check wants summed into the evidence (steps simulated, ...).
    pub counters: Vec<(String, u64)>,
    /// The violation left a spinning or parked thread behind (hang, runaway allocation):
    /// do not re-execute for shrinking, and wind the whole run down.
    pub fatal: bool,
}

/// Set once a fatal violation was seen: remaining cases are skipped, the run ends early.
pub static STOP: std::sync::atomic::AtomicBool = std::sync::atomic::AtomicBool::new(false);

pub fn stopped() -> bool {
    STOP.load(std::sync::atomic::Ordering::SeqCst)
}

impl CaseCtx {
    pub fn class(&mut self, name: &str) {
        self.classes.push(name.to_string());
    }
    pub fn class_if(&mut self, cond: bool, name: &str) {
        if cond {
            self.class(name);
        }
    }
    pub fn nontrivial(&mut self, sig: impl Into<String>) {
        self.nontrivial = Some(sig.into());
    }
    pub fn violation(&mut self, signature: impl Into<String>, detail: impl Into<String>) {
        self.violations.push(Violation {
            signature: signature.into(),
            detail: detail.into(),
        });
    }
    pub fn count(&mut self, name: &str, n: u64) {
        self.counters.push((name.to_string(), n));
    }
}

#[derive(Clone, Debug, Deserialize)]
pub struct Finding {
    pub property: String,
    pub signature: String,
    pub what: String,
    pub status: String,
    #[serde(default)]
    pub commit: Option<String>,
}

pub fn load_findings() -> Vec<Finding> {
    let p = verif_root().join("known_findings.json");
    match std::fs::read_to_string(&p) {
        Ok(s) => serde_json::from_str(&s).unwrap_or_else(|e| {
            eprintln!("harness error: cannot parse {}: {e}", p.display());
            std::process::exit(2);
        }),
        Err(_) => Vec::new(),
    }
}

/// Aggregated result of one property run (all parts).
pub struct Agg {
    pub prop: String,
    pub tier: Tier,
    pub seed: u64,
    pub started: Instant,
    pub evaluations: u64,
    pub nontrivial: HashSet<u64>,
    pub classes: BTreeMap<String, u64>,
    pub counters: BTreeMap<String, u64>,
    pub samples: Vec<Value>,
    pub parts: Vec<Value>,
    pub rules: Vec<String>,
    pub assumptions: Vec<String>,
    pub new_violations: Vec<(String, PathBuf)>,
    pub known_hits: BTreeMap<String, u64>,
    pub known: Vec<Finding>,
    pub health_failures: Vec<String>,
    pub exhaustive_parts: Vec<String>,
}

impl Agg {
    pub fn new(prop: &str, tier: Tier) -> Self {
        let known = load_findings()
            .into_iter()
            .filter(|f| f.property == prop && f.status == "known")
            .collect();
        Agg {
            prop: prop.to_string(),
            tier,
            seed: verif_seed(),
            started: Instant::now(),
            evaluations: 0,
            nontrivial: HashSet::new(),
            classes: BTreeMap::new(),
            counters: BTreeMap::new(),
            samples: Vec::new(),
            parts: Vec::new(),
            rules: Vec::new(),
            assumptions: Vec::new(),
            new_violations: Vec::new(),
            known_hits: BTreeMap::new(),
            known,
            health_failures: Vec::new(),
            exhaustive_parts: Vec::new(),
        }
    }

    pub fn is_known(&self, sig: &str) -> bool {
        self.known.iter().any(|f| f.signature == sig)
    }

    /// Generator health floor: a class that stops being produced makes the run inconclusive.
    pub fn require_class(&mut self, name: &str, min: u64) {
        let n = self.classes.get(name).copied().unwrap_or(0);
        if n < min {
            self.health_failures
                .push(format!("class '{name}' seen {n} times, floor {min}"));
        }
    }

    pub fn assume(&mut self, s: &str) {
        if !self.assumptions.iter().any(|a| a == s) {
            self.assumptions.push(s.to_string());
        }
    }

    /// Writes the evidence file, prints the verdict lines and returns the exit code.
    pub fn finish(mut self) -> i32 {
        let wall = self.started.elapsed().as_secs_f64();
        for (sig, n) in self.known_hits.iter() {
            let what = self
                .known
                .iter()
                .find(|f| &f.signature == sig)
                .map(|f| f.what.clone())
                .unwrap_or_default();
            println!(
                "KNOWN-FINDING: property={} {} [signature: {}; hit {} times, excluded from the search]",
                self.prop, what, sig, n
            );
        }
        for (sig, path) in self.new_violations.iter() {
            println!(
                "VIOLATION property={} replay={}   ({})",
                self.prop,
                path.display(),
                sig
            );
        }
        if self.samples.is_empty() {
            self.samples.push(json!("(no sample recorded)"));
        }
        let evidence = json!({
            "property_id": self.prop,
            "tier": self.tier.name(),
            "seed": self.seed as i64,
            "level": "exploration",
            "coverage": {
                "evaluations": self.evaluations,
                "distinct_nontrivial": self.nontrivial.len(),
                "rule": self.rules.join(" || "),
                "samples": self.samples,
                "classes": self.classes,
                "counters": self.counters,
                "parts": self.parts,
                "exhaustive": false,
                "exhaustive_subspaces": self.exhaustive_parts,
                "known_findings_hit": self.known_hits,
                "generator_health_failures": self.health_failures,
            },
            "assumptions": self.assumptions,
            "wall_s": wall,
            "violations": self.new_violations.len(),
        });
        let dir = verif_root().join("evidence");
        let _ = std::fs::create_dir_all(&dir);
        let path = dir.join(format!("{}.json", self.prop));
        if let Err(e) = std::fs::write(&path, serde_json::to_string_pretty(&evidence).unwrap()) {
            eprintln!("harness error: cannot write {}: {e}", path.display());
            return 2;
        }
        println!(
            "{} {}: {} cases, {} distinct non-trivial, {} new violation(s), {} known finding(s) hit, {:.1}s",
            self.prop,
            self.tier.name(),
            self.evaluations,
            self.nontrivial.len(),
            self.new_violations.len(),
            self.known_hits.len(),
            wall
        );
        if !self.new_violations.is_empty() {
            return 1;
        }
        if !self.health_failures.is_empty() {
            for h in &self.health_failures {
                eprintln!("INCONCLUSIVE property={} generator health: {h}", self.prop);
            }
            return 2;
        }
        0
    }
}

/// One generated part of a property.
pub struct Part<'a, C> {
    pub name: &'a str,
    pub rule: &'a str,
    pub cases: u64,
    pub max_shrink_iters: u32,
    pub strategy: &'a (dyn Fn() -> BoxedStrategy<C> + Sync),
    pub check: &'a (dyn Fn(&C, &mut CaseCtx) + Sync),
}

#[derive(Default)]
struct WorkerOut {
    evaluations: u64,
    nontrivial: HashSet<u64>,
    classes: BTreeMap<String, u64>,
    counters: BTreeMap<String, u64>,
    samples: Vec<Value>,
    known_hits: BTreeMap<String, u64>,
    /// (signature, detail, shrunk case as JSON)
    failure: Option<(String, String, Value)>,
}

fn absorb(out: &mut WorkerOut, ctx: &CaseCtx, known: &dyn Fn(&str) -> bool) -> Option<Violation> {
    out.evaluations += 1;
    for c in &ctx.classes {
        *out.classes.entry(c.clone()).or_insert(0) += 1;
    }
    for (k, n) in &ctx.counters {
        *out.counters.entry(k.clone()).or_insert(0) += n;
    }
    if let Some(sig) = &ctx.nontrivial {
        out.nontrivial.insert(hash_str(sig));
    }
    if let Some(s) = &ctx.sample {
        if out.samples.len() < 2 {
            out.samples.push(s.clone());
        }
    }
    let mut first_new = None;
    for v in &ctx.violations {
        if known(&v.signature) {
            *out.known_hits.entry(v.signature.clone()).or_insert(0) += 1;
        } else if first_new.is_none() {
            first_new = Some(v.clone());
        }
    }
    first_new
}

fn write_replay<C: Serialize>(
    prop: &str,
    part: &str,
    seed: u64,
    sig: &str,
    detail: &str,
    case: &C,
) -> PathBuf {
    let dir = verif_root().join("replays").join(prop);
    let _ = std::fs::create_dir_all(&dir);
    let slug: String = sig
        .chars()
        .map(|c| if c.is_ascii_alphanumeric() { c } else { '-' })
        .collect::<String>()
        .trim_matches('-')
        .chars()
        .take(60)
        .collect();
    let path = dir.join(format!("found-{}-{:08x}-{}.json", slug, hash_str(sig) as u32, seed));
    let v = json!({
        "property": prop,
        "part": part,
        "signature": sig,
        "detail": detail,
        "seed": seed as i64,
        "case": case,
    });
    let _ = std::fs::write(&path, serde_json::to_string_pretty(&v).unwrap());
    path
}

/// Runs one generated part on all workers; merges into `agg`.
pub fn run_part<C>(agg: &mut Agg, part: &Part<'_, C>)
where
    C: Debug + Clone + Serialize + DeserializeOwned + Send + 'static,
{
    let t0 = Instant::now();
    let known_sigs: Vec<String> = agg.known.iter().map(|f| f.signature.clone()).collect();
    let known = |s: &str| known_sigs.iter().any(|k| k == s);
    let per_worker = part.cases.div_ceil(WORKERS as u64).max(1);
    let results: Mutex<Vec<WorkerOut>> = Mutex::new(Vec::new());
    let prop = agg.prop.clone();
    let seed = agg.seed;

    std::thread::scope(|scope| {
        for w in 0..WORKERS {
            let results = &results;
            let known = &known;
            let prop = &prop;
            scope.spawn(move || {
                let cfg = Config {
                    cases: per_worker.min(u32::MAX as u64) as u32,
                    failure_persistence: None,
                    max_shrink_iters: part.max_shrink_iters,
                    max_global_rejects: 1 << 20,
                    max_local_rejects: 1 << 20,
                    ..Config::default()
                };
                let rng = TestRng::from_seed(RngAlgorithm::ChaCha, &mix(seed, prop, part.name, w));
                let mut runner = TestRunner::new_with_rng(cfg, rng);
                let out = RefCell::new(WorkerOut::default());
                let failed = RefCell::new(None::<Violation>);
                let strategy = (part.strategy)();
                let no_shrink = std::cell::Cell::new(false);
                let res = runner.run(&strategy, |case| {
                    let mut ctx = CaseCtx::default();
                    let shrinking = failed.borrow().is_some();
                    if (shrinking && no_shrink.get()) || (!shrinking && stopped()) {
                        return Ok(());
                    }
                    {
                        let o = out.borrow();
                        ctx.want_sample = !shrinking && o.samples.len() < 2 && o.evaluations % 97 == 3;
                    }
                    guarded(prop, part.check, &case, &mut ctx);
                    if shrinking {
                        // Re-execution during shrinking: only the verdict matters; keep
                        // shrinking towards the *same* signature.
                        let target = failed.borrow().as_ref().unwrap().signature.clone();
                        if let Some(v) = ctx.violations.iter().find(|v| v.signature == target) {
                            *failed.borrow_mut() = Some(v.clone());
                            return Err(TestCaseError::fail(v.signature.clone()));
                        }
                        return Ok(());
                    }
                    let mut o = out.borrow_mut();
                    match absorb(&mut o, &ctx, known) {
                        Some(v) => {
                            if ctx.fatal {
                                no_shrink.set(true);
                                STOP.store(true, std::sync::atomic::Ordering::SeqCst);
                            }
                            *failed.borrow_mut() = Some(v.clone());
                            Err(TestCaseError::fail(v.signature))
                        }
                        None => Ok(()),
                    }
                });
                let mut o = out.into_inner();
                match res {
                    Ok(()) => {}
                    Err(TestError::Fail(_, shrunk)) => {
                        let v = failed.into_inner().unwrap();
                        o.failure = Some((
                            v.signature,
                            v.detail,
                            serde_json::to_value(&shrunk).unwrap_or(Value::Null),
                        ));
                    }
                    Err(TestError::Abort(reason)) => {
                        o.failure = Some((
                            "harness/abort".into(),
                            format!("proptest aborted: {reason}"),
                            Value::Null,
                        ));
                    }
                }
                results.lock().unwrap().push(o);
            });
        }
    });

    let mut evals = 0;
    let mut part_nontrivial: HashSet<u64> = HashSet::new();
    for o in results.into_inner().unwrap() {
        evals += o.evaluations;
        for h in o.nontrivial {
            part_nontrivial.insert(h ^ hash_str(part.name));
        }
        for (k, n) in o.classes {
            *agg.classes.entry(format!("{}:{}", part.name, k)).or_insert(0) += n;
        }
        for (k, n) in o.counters {
            *agg.counters.entry(format!("{}:{}", part.name, k)).or_insert(0) += n;
        }
        for (k, n) in o.known_hits {
            *agg.known_hits.entry(k).or_insert(0) += n;
        }
        for s in o.samples {
            if agg.samples.len() < 6 {
                agg.samples.push(json!({"part": part.name, "case": s}));
            }
        }
        if let Some((sig, detail, case)) = o.failure {
            if sig == "harness/abort" {
                agg.health_failures.push(format!("{}: {}", part.name, detail));
                continue;
            }
            if sig.starts_with("HARNESS/") {
                let path = write_replay(&agg.prop, part.name, agg.seed, &sig, &detail, &case);
                agg.health_failures.push(format!("{}: {} ({}) case saved to {}", part.name, sig, detail, path.display()));
                continue;
            }
            if agg.new_violations.iter().any(|(s, _)| s == &sig) {
                continue;
            }
            let path = write_replay(&agg.prop, part.name, agg.seed, &sig, &detail, &case);
            eprintln!("--- {} {} violation: {}\n{}\n", agg.prop, part.name, sig, detail);
            agg.new_violations.push((sig, path));
        }
    }
    agg.evaluations += evals;
    let nt = part_nontrivial.len();
    agg.nontrivial.extend(part_nontrivial);
    agg.rules.push(format!("[{}] {}", part.name, part.rule));
    agg.parts.push(json!({
        "part": part.name, "evaluations": evals, "distinct_nontrivial": nt,
        "wall_s": t0.elapsed().as_secs_f64(),
    }));
}

/// Runs an explicitly enumerated (exhaustive) part: `n` cases produced by `make(i)`.
pub fn run_enumerated<C>(
    agg: &mut Agg,
    name: &str,
    rule: &str,
    n: u64,
    make: &(dyn Fn(u64) -> C + Sync),
    check: &(dyn Fn(&C, &mut CaseCtx) + Sync),
) where
    C: Debug + Clone + Serialize + Send + 'static,
{
    let t0 = Instant::now();
    let known_sigs: Vec<String> = agg.known.iter().map(|f| f.signature.clone()).collect();
    let known = |s: &str| known_sigs.iter().any(|k| k == s);
    let results: Mutex<Vec<WorkerOut>> = Mutex::new(Vec::new());
    let prop = agg.prop.clone();
    std::thread::scope(|scope| {
        for w in 0..WORKERS as u64 {
            let results = &results;
            let known = &known;
            let prop = &prop;
            scope.spawn(move || {
                let mut o = WorkerOut::default();
                let mut i = w;
                while i < n && !stopped() {
                    let case = make(i);
                    let mut ctx = CaseCtx {
                        want_sample: o.samples.is_empty() && i % 1013 == 7,
                        ..Default::default()
                    };
                    guarded(prop, check, &case, &mut ctx);
                    if let Some(v) = absorb(&mut o, &ctx, known) {
                        if ctx.fatal {
                            STOP.store(true, std::sync::atomic::Ordering::SeqCst);
                        }
                        if o.failure.is_none() {
                            o.failure = Some((
                                v.signature,
                                v.detail,
                                serde_json::to_value(&case).unwrap_or(Value::Null),
                            ));
                        }
                    }
                    i += WORKERS as u64;
                }
                results.lock().unwrap().push(o);
            });
        }
    });
    let mut evals = 0;
    let mut part_nontrivial: HashSet<u64> = HashSet::new();
    for o in results.into_inner().unwrap() {
        evals += o.evaluations;
        for h in o.nontrivial {
            part_nontrivial.insert(h ^ hash_str(name));
        }
        for (k, c) in o.classes {
            *agg.classes.entry(format!("{name}:{k}")).or_insert(0) += c;
        }
        for (k, c) in o.counters {
            *agg.counters.entry(format!("{name}:{k}")).or_insert(0) += c;
        }
        for (k, c) in o.known_hits {
            *agg.known_hits.entry(k).or_insert(0) += c;
        }
        for s in o.samples {
            if agg.samples.len() < 6 {
                agg.samples.push(json!({"part": name, "case": s}));
            }
        }
        if let Some((sig, detail, case)) = o.failure {
            if sig.starts_with("HARNESS/") {
                let path = write_replay(&agg.prop, name, agg.seed, &sig, &detail, &case);
                agg.health_failures.push(format!("{}: {} ({}) case saved to {}", name, sig, detail, path.display()));
                continue;
            }
            if agg.new_violations.iter().any(|(s, _)| s == &sig) {
                continue;
            }
            let path = write_replay(&agg.prop, name, agg.seed, &sig, &detail, &case);
            eprintln!("--- {} {} violation: {}\n{}\n", agg.prop, name, sig, detail);
            agg.new_violations.push((sig, path));
        }
    }
    agg.evaluations += evals;
    let nt = part_nontrivial.len();
    agg.nontrivial.extend(part_nontrivial);
    agg.rules.push(format!("[{name}] {rule}"));
    agg.exhaustive_parts
        .push(format!("{name}: {n} cases enumerated completely"));
    agg.parts.push(json!({
        "part": name, "evaluations": evals, "distinct_nontrivial": nt, "exhaustive": true,
        "wall_s": t0.elapsed().as_secs_f64(),
    }));
}

/// Runs one check; a panic does not take the process down. A panic raised by the crate's own code
/// (called in-process through the facade) is a violation of the property being decided: the code
/// gave no answer where the statement demands one. Any other panic is a failure of the harness.
pub fn guarded<C>(prop: &str, check: &(dyn Fn(&C, &mut CaseCtx) + Sync), case: &C, ctx: &mut CaseCtx) {
    if std::panic::catch_unwind(std::panic::AssertUnwindSafe(|| check(case, ctx))).is_err() {
        let msg = mdns_sd::verif::take_last_panic().unwrap_or_default();
        let loc = msg.split(": ").next().unwrap_or("").to_string();
        ctx.violations.clear();
        if loc.starts_with("/repo/src/") && !loc.starts_with("/repo/src/verif") {
            ctx.violation(format!("{prop}/crate-code-panicked/{loc}"), format!("code of the crate, called in-process, panicked: {msg}"));
        } else {
            ctx.violation(format!("HARNESS/check-panicked/{loc}"), format!("the check itself panicked: {msg}"));
        }
    }
}

/// Runs committed regression inputs of a part (files `replays/<prop>/*.json` with that part).
pub fn run_regressions<C>(agg: &mut Agg, part_name: &str, check: &(dyn Fn(&C, &mut CaseCtx) + Sync))
where
    C: Debug + Clone + Serialize + DeserializeOwned,
{
    let dir = verif_root().join("replays").join(&agg.prop);
    let Ok(rd) = std::fs::read_dir(&dir) else {
        return;
    };
    let mut files: Vec<PathBuf> = rd.filter_map(|e| e.ok().map(|e| e.path())).collect();
    files.sort();
    for f in files {
        let name = f.file_name().unwrap().to_string_lossy().to_string();
        if !name.ends_with(".json") || name.starts_with("found-") {
            continue; // found-* are outputs of earlier runs, not committed regressions
        }
        let Ok(s) = std::fs::read_to_string(&f) else {
            continue;
        };
        let Ok(v) = serde_json::from_str::<Value>(&s) else {
            continue;
        };
        if v.get("part").and_then(|p| p.as_str()) != Some(part_name) {
            continue;
        }
        let Ok(case) = serde_json::from_value::<C>(v["case"].clone()) else {
            agg.health_failures
                .push(format!("regression file {} does not deserialize", f.display()));
            continue;
        };
        let mut ctx = CaseCtx::default();
        guarded(&agg.prop.clone(), check, &case, &mut ctx);
        agg.evaluations += 1;
        *agg.classes.entry(format!("{part_name}:regression-file")).or_insert(0) += 1;
        if let Some(sig) = &ctx.nontrivial {
            agg.nontrivial.insert(hash_str(sig) ^ hash_str(part_name));
        }
        for viol in ctx.violations {
            if viol.signature.starts_with("HARNESS/") {
                agg.health_failures.push(format!("regression file {}: {} ({})", f.display(), viol.signature, viol.detail));
            } else if agg.is_known(&viol.signature) {
                *agg.known_hits.entry(viol.signature).or_insert(0) += 1;
            } else if !agg.new_violations.iter().any(|(s, _)| s == &viol.signature) {
                eprintln!(
                    "--- {} regression {} violation: {}\n{}\n",
                    agg.prop,
                    f.display(),
                    viol.signature,
                    viol.detail
                );
                agg.new_violations.push((viol.signature, f.clone()));
            }
        }
    }
}

/// `--replay FILE` for one part: returns Some(exit code) if the file belongs to this part.
pub fn replay_part<C>(
    prop: &str,
    part_name: &str,
    file: &std::path::Path,
    repeats: u32,
    check: &(dyn Fn(&C, &mut CaseCtx) + Sync),
) -> Option<i32>
where
    C: Debug + Clone + Serialize + DeserializeOwned,
{
    let s = std::fs::read_to_string(file).ok()?;
    let v: Value = serde_json::from_str(&s).ok()?;
    if v.get("part").and_then(|p| p.as_str()) != Some(part_name) {
        return None;
    }
    let case: C = match serde_json::from_value(v["case"].clone()) {
        Ok(c) => c,
        Err(e) => {
            eprintln!("harness error: replay file does not deserialize: {e}");
            return Some(2);
        }
    };
    let known: Vec<Finding> = load_findings()
        .into_iter()
        .filter(|f| f.property == prop && f.status == "known")
        .collect();
    let mut reproduced = 0;
    let mut last: Vec<Violation> = Vec::new();
    for _ in 0..repeats.max(1) {
        let mut ctx = CaseCtx {
            strict: true,
            want_sample: true,
            ..Default::default()
        };
        guarded(prop, check, &case, &mut ctx);
        if !ctx.violations.is_empty() {
            reproduced += 1;
            last = ctx.violations;
        }
    }
    println!(
        "replay {}: {} of {} executions violated",
        file.display(),
        reproduced,
        repeats.max(1)
    );
    let mut code = 0;
    for viol in &last {
        println!("  {}: {}", viol.signature, viol.detail);
        if let Some(f) = known.iter().find(|f| f.signature == viol.signature) {
            println!("KNOWN-FINDING: property={} {}", prop, f.what);
        } else {
            println!("VIOLATION property={} replay={}", prop, file.display());
            code = 1;
        }
    }
    Some(code)
}

/// Draws one value from a strategy with a fixed seed (for smoke tests / samples).
pub fn sample_one<C: Debug>(strategy: &BoxedStrategy<C>, seed: u64) -> C {
    let rng = TestRng::from_seed(RngAlgorithm::ChaCha, &mix(seed, "sample", "", 0));
    let mut runner = TestRunner::new_with_rng(Config::default(), rng);
    strategy.new_tree(&mut runner).unwrap().current()
}

/// Debug aid: VERIF_SCALE=0.01 scales generated case counts (never used by registered commands).
pub fn scale(n: u64) -> u64 {
    match std::env::var("VERIF_SCALE").ok().and_then(|s| s.parse::<f64>().ok()) {
        Some(f) => ((n as f64 * f) as u64).max(16),
        None => n,
    }
}
