#![allow(dead_code)]
//! `check <ID> <quick|thorough>` | `check <ID> --replay <file>`
//! Exit 0 = held on everything explored; 1 = VIOLATION printed; 2 = inconclusive / harness error.

use verif_harness::{guard, props, runner};

use runner::Tier;

#[global_allocator]
static ALLOC: guard::CountingAlloc = guard::CountingAlloc;

fn usage() -> ! {
    eprintln!("usage: check <C01..C20> <quick|thorough> | check <ID> --replay <file>");
    std::process::exit(2);
}

fn main() {
    let args: Vec<String> = std::env::args().collect();
    if args.len() < 3 {
        usage();
    }
    let id = args[1].to_uppercase();
    mdns_sd::verif::install_panic_recorder(std::env::var("VERIF_LOUD").is_err());
    let code = if args[2] == "--replay" {
        if args.len() < 4 {
            usage();
        }
        props::replay(&id, std::path::Path::new(&args[3]))
    } else {
        let tier = match std::env::var("VERIF_TIER").ok().as_deref().unwrap_or(args[2].as_str()) {
            "quick" => Tier::Quick,
            "thorough" => Tier::Thorough,
            _ => match args[2].as_str() {
                "quick" => Tier::Quick,
                "thorough" => Tier::Thorough,
                _ => usage(),
            },
        };
        props::run(&id, tier)
    };
    // Abandoned watchdog threads may still be spinning: leave without joining anything.
    std::process::exit(code);
}
