//! C10 - known answers suppress exactly what they should, on both sides (E2 + E3).

use crate::gen::*;
use crate::props::responder as rsp;
use crate::refdns::*;
use crate::runner::*;
use crate::sim::wire;
use crate::sim::{peer, *};
use mdns_sd::verif::codec::{RDataSpec, RecordSpec};
use mdns_sd::verif::component::Rec;
use proptest::prelude::*;
use serde::{Deserialize, Serialize};
use serde_json::json;
use std::net::{IpAddr, SocketAddr};

// ---------------------------------------------------------------------------------------------
// (a) E2: the suppression predicate on a boundary grid
// ---------------------------------------------------------------------------------------------

#[derive(Clone, Debug, Serialize, Deserialize)]
pub struct GridCase {
    pub kind: u8,
    pub ttl_r: u32,
    pub ttl_k: u32,
    /// 0 same, 1 other name, 2 other rdata, 3 other type, 4 other class
    pub diff: u8,
}

const TTL_R: [u32; 12] = [1, 2, 3, 10, 119, 120, 121, 4499, 4500, 4501, 1 << 31, u32::MAX];

fn ttl_k_values(r: u32) -> Vec<u32> {
    let h = r / 2;
    let mut v = vec![0, 1, h.saturating_sub(1), h, h.saturating_add(1), r.saturating_sub(1), r, r.saturating_add(1), u32::MAX];
    v.sort();
    v.dedup();
    v
}

fn grid() -> Vec<GridCase> {
    let mut v = Vec::new();
    for kind in 0..5u8 {
        for r in TTL_R {
            for k in ttl_k_values(r) {
                for diff in 0..5u8 {
                    v.push(GridCase {
                        kind,
                        ttl_r: r,
                        ttl_k: k,
                        diff,
                    });
                }
            }
        }
    }
    v
}

fn grid_record(kind: u8, ttl: u32, diff: u8) -> RecordSpec {
    let other_name = diff == 1;
    let other_rdata = diff == 2;
    let inst = if other_name { "other._http._tcp.local." } else { "inst._http._tcp.local." };
    let class = if diff == 4 { 3 } else { 1 };
    let (name, rdata) = match kind {
        0 => (
            if other_name { "_ipp._tcp.local." } else { "_http._tcp.local." }.to_string(),
            RDataSpec::Ptr(if other_rdata { "x._http._tcp.local." } else { "inst._http._tcp.local." }.to_string()),
        ),
        1 => (
            inst.to_string(),
            RDataSpec::Srv {
                priority: 0,
                weight: 0,
                port: if other_rdata { 81 } else { 80 },
                host: "h.local.".to_string(),
            },
        ),
        2 => (inst.to_string(), RDataSpec::Txt(if other_rdata { b"\x03a=2".to_vec() } else { b"\x03a=1".to_vec() })),
        3 => (
            if other_name { "g.local." } else { "h.local." }.to_string(),
            RDataSpec::A(if other_rdata { [10, 0, 0, 2] } else { [10, 0, 0, 1] }.into()),
        ),
        _ => (
            if other_name { "g.local." } else { "h.local." }.to_string(),
            RDataSpec::Aaaa(if other_rdata { [2u8; 16] } else { [1u8; 16] }.into()),
        ),
    };
    let mut spec = RecordSpec {
        name,
        class,
        ttl,
        rdata,
        now: 0,
    };
    if diff == 3 {
        // another type under the same owner
        spec.rdata = match kind {
            2 => RDataSpec::Srv {
                priority: 0,
                weight: 0,
                port: 80,
                host: "h.local.".to_string(),
            },
            _ => RDataSpec::Txt(b"\x03a=1".to_vec()),
        };
    }
    spec
}

fn check_grid(c: &GridCase, ctx: &mut CaseCtx) {
    mdns_sd::verif::set_thread_clock(Some(T0));
    let ours = Rec::new(&grid_record(c.kind, c.ttl_r, 0));
    let known = Rec::new(&grid_record(c.kind, c.ttl_k, c.diff));
    let got = ours.suppressed_by_answer(&known);
    mdns_sd::verif::set_thread_clock(None);
    let same = c.diff == 0;
    let k2 = c.ttl_k as u64 * 2;
    let r = c.ttl_r as u64;
    let expect: Option<bool> = if !same {
        Some(false)
    } else if k2 > r {
        Some(true)
    } else if k2 < r {
        Some(false)
    } else {
        None
    };
    let kinds = ["PTR", "SRV", "TXT", "A", "AAAA"];
    if let Some(e) = expect {
        if e != got {
            ctx.violation(
                format!(
                    "C10/responder/predicate/{}/{}",
                    kinds[c.kind as usize],
                    if e { "not-suppressed-above-half" } else if same { "suppressed-below-half" } else { "suppressed-by-different-record" }
                ),
                format!("{c:?}: suppressed_by_answer = {got}, the statement requires {e}"),
            );
        }
    }
    let boundary = same && (k2 as i128 - r as i128).abs() <= 2;
    ctx.class_if(boundary, "ttl-within-1-of-half");
    ctx.class_if(!same, "different-record");
    if boundary || !same {
        ctx.nontrivial(format!("{c:?}"));
    }
    if ctx.want_sample {
        ctx.sample = Some(json!({"case": format!("{c:?}"), "suppressed": got}));
    }
}

// ---------------------------------------------------------------------------------------------
// (b) E3 responder side: reuse the C06 scenario with boundary known answers
// ---------------------------------------------------------------------------------------------

fn check_responder(case: &rsp::Case, ctx: &mut CaseCtx) {
    let run = match rsp::execute(case, 10) {
        Ok(r) => r,
        Err(e) => {
            ctx.violation("C10/harness/spawn", e);
            return;
        }
    };
    ctx.count("sim_steps", run.world.total_steps);
    if let Some(st) = rsp::judge("C10", case, &run, ctx) {
        ctx.class_if(st.suppressed > 0, "answer-suppressed");
        ctx.class_if(st.boundary > 0, "known-ttl-within-1-of-half");
        ctx.class_if(st.queries_matching > 0, "query-matches-announced-service");
        if st.boundary > 0 || st.suppressed > 0 {
            ctx.nontrivial(format!(
                "ifs{} n{} supp{} bnd{} match{} kas{:?}",
                case.ifs.len(),
                case.svcs.len(),
                st.suppressed.min(4),
                st.boundary.min(4),
                st.queries_matching.min(4),
                case.ops
                    .iter()
                    .filter_map(|o| match o {
                        rsp::Op::Query(q) => Some(q.known.iter().map(|k| (k.rec, k.ttl, k.mutate)).collect::<Vec<_>>()),
                        _ => None,
                    })
                    .flatten()
                    .take(4)
                    .collect::<Vec<_>>()
            ));
        }
        if ctx.want_sample {
            ctx.sample = Some(rsp::sample(case, &run));
        }
    }
    run.world.finish();
}

// ---------------------------------------------------------------------------------------------
// (c) E3 querier side
// ---------------------------------------------------------------------------------------------

#[derive(Clone, Debug, Serialize, Deserialize)]
pub struct Delivery {
    pub at_ms: u64,
    pub inst: usize,
    pub ttl: u32,
    pub flush: bool,
    pub k: usize,
    /// also deliver SRV/TXT/A (unique records) for the instance
    pub full: bool,
}

#[derive(Clone, Debug, Serialize, Deserialize)]
pub struct QCase {
    pub ifs: Vec<IfSpec>,
    pub deliveries: Vec<Delivery>,
    pub horizon_ms: u64,
    /// re-issue browse at this time
    pub rebrowse_ms: Option<u64>,
}

const QTY: &str = "_http._tcp.local.";

fn qsvc(i: usize) -> peer::Svc {
    peer::Svc {
        ty: Name::from_escaped(QTY),
        sub: None,
        inst: format!("inst{i}").into_bytes(),
        host: Name::from_escaped(&format!("qhost{i}.local.")),
        port: 80 + i as u16,
        txt: vec![0],
        addrs: vec![IpAddr::V4(subnet_v4(0, 100 + i as u8))],
    }
}

fn check_querier(case: &QCase, ctx: &mut CaseCtx) {
    let nifs = case.ifs.len();
    let mut d = match SimDaemon::new("Q", sim_ifs(&case.ifs), T0, 10) {
        Ok(d) => d,
        Err(e) => {
            ctx.violation("C10/harness/spawn", e);
            return;
        }
    };
    let _ = d.d.set_ip_check_interval(1_000_000);
    d.dirty = true;
    if d.browse(QTY).is_err() {
        return;
    }
    let mut w = World::new(T0);
    let di = w.add(d);
    let mut dl = case.deliveries.clone();
    dl.sort_by_key(|x| x.at_ms);
    // (received at, inst, ttl, flush, log position of the delivery)
    let mut received: Vec<(u64, usize, u32, bool, usize)> = Vec::new();
    let mut rebrowsed = false;
    for x in &dl {
        if let Some(rb) = case.rebrowse_ms {
            if !rebrowsed && rb <= x.at_ms {
                w.run_until(T0 + rb);
                let now = w.now;
                w.daemons[di].set_now(now);
                let _ = w.daemons[di].browse(QTY);
                rebrowsed = true;
            }
        }
        if x.at_ms > case.horizon_ms {
            break;
        }
        w.run_until(T0 + x.at_ms);
        w.settle();
        let k = x.k % nifs;
        let s = qsvc(x.inst);
        let mut ptr = s.ptr(x.ttl);
        if x.flush {
            ptr.class |= FLUSH;
        }
        let mut answers = vec![ptr];
        if x.full {
            answers.push(s.srv(120, true));
            answers.push(s.txt_rec(4500, true));
            answers.extend(s.addr_recs(120, true));
        }
        let src: SocketAddr = if case.ifs[k].v4 {
            SocketAddr::new(IpAddr::V4(subnet_v4(k, 100 + x.inst as u8)), MDNS_PORT)
        } else {
            SocketAddr::new(IpAddr::V6(subnet_v6(k, 100 + x.inst as u16)), MDNS_PORT)
        };
        let now = w.now;
        w.daemons[di].set_now(now);
        let pos = w.daemons[di].log.len();
        w.daemons[di].inject(if_index(k), src, peer::response(answers, vec![]));
        w.settle();
        received.push((w.now, x.inst, x.ttl, x.flush, pos));
    }
    w.run_until(T0 + case.horizon_ms);
    ctx.count("sim_steps", w.total_steps);
    let d = &w.daemons[di];
    macro_rules! fail {
        ($sig:expr, $($arg:tt)*) => {{
            ctx.violation($sig.to_string(), format!("{}\n--- history ---\n{}", format!($($arg)*), render_log(&d.log, true, 50)));
            w.finish();
            return;
        }};
    }
    if let Some(m) = &d.dead {
        fail!(format!("C10/daemon-died/{}", m.split(": ").next().unwrap_or("")), "daemon died: {m}");
    }
    let sent = match wire::index(&d.log) {
        Ok(s) => s,
        Err(pos) => fail!("C10/wire/unparsable-packet", "packet at log position {pos} is rejected by the reference decoder"),
    };
    let ty = Name::from_escaped(QTY);
    let mut queries_with_ka = 0u64;
    let mut near_half = 0u64;
    let mut listed_total = 0u64;
    // group queries for the browsed type by iteration
    let mut iters: Vec<u64> = sent.iter().filter(|p| !p.m.is_response() && p.m.questions.iter().any(|q| q.qtype == T_PTR && q.name.eq_ignore_case(&ty))).map(|p| p.iter).collect();
    iters.dedup();
    for it in iters {
        let group: Vec<&wire::Sent> = sent.iter().filter(|p| p.iter == it && !p.m.is_response() && p.m.questions.iter().any(|q| q.qtype == T_PTR && q.name.eq_ignore_case(&ty))).collect();
        let tau = group[0].t;
        // on every enabled interface (and family)
        for k in 0..nifs {
            for v4 in [true, false] {
                let has = if v4 { case.ifs[k].v4 } else { case.ifs[k].v6 };
                let there = group.iter().any(|p| p.if_index == Some(if_index(k)) && p.v4 == v4);
                if has && !there {
                    fail!("C10/querier/query-not-on-every-interface", "browse query at +{} ms did not leave on {} ({})", tau - T0, if_name(k), if v4 { "IPv4" } else { "IPv6" });
                }
            }
        }
        for p in &group {
            if !p.m.answers.is_empty() {
                queries_with_ka += 1;
            }
            for ka in &p.m.answers {
                listed_total += 1;
                if ka.flush() {
                    fail!("C10/querier/listed-unique-record", "query at +{} ms lists {} which carries the cache-flush bit", tau - T0, render_record(ka));
                }
                if ka.rtype != T_PTR {
                    continue;
                }
                let Some(target) = wire::ptr_target(ka) else { continue };
                // the last delivery of this PTR before the query
                let inst = (0..4).find(|i| target.eq_ignore_case(&qsvc(*i).fullname()));
                let Some(inst) = inst else {
                    fail!("C10/querier/listed-record-never-received", "query at +{} ms lists {}", tau - T0, render_record(ka));
                };
                // the last delivery of this PTR as a shared record before the query left
                let last = received.iter().filter(|r| r.1 == inst && !r.3 && r.4 < p.pos).next_back();
                let Some((r_at, _, ttl, _, r_pos)) = last else {
                    fail!("C10/querier/listed-record-never-received", "query at +{} ms lists {} which was not received as a shared record before", tau - T0, render_record(ka));
                };
                // a later copy with the cache-flush bit shortens the shared copy's life: then
                // only the half-life rule is judged, against the record's own TTL
                let flushed_since = received.iter().any(|r| r.1 == inst && r.3 && r.4 > *r_pos && r.4 < p.pos);
                let ttl_eff = if *ttl == 0 { 1 } else { *ttl } as u64;
                let age = tau - r_at;
                if age > ttl_eff * 1000 {
                    fail!("C10/querier/listed-expired-record", "query at +{} ms lists {} received {} ms earlier with TTL {}", tau - T0, render_record(ka), age, ttl);
                }
                // "never one with less than half of its lifetime left": age > half is a violation
                // (exactly half: either)
                if age * 2 > ttl_eff * 1000 {
                    fail!("C10/querier/listed-record-past-half-life", "query at +{} ms lists {} received {} ms earlier with TTL {} s (more than half of its life gone)", tau - T0, render_record(ka), age, ttl);
                }
                if (age as i64 * 2 - ttl_eff as i64 * 1000).abs() <= 2000 {
                    near_half += 1;
                }
                // remaining TTL, floor or ceiling of the true remaining lifetime
                let remaining_ms = ttl_eff * 1000 - age;
                let lo = remaining_ms / 1000;
                let hi = remaining_ms.div_ceil(1000);
                if !flushed_since && ((ka.ttl as u64) < lo.saturating_sub(1) || (ka.ttl as u64) > hi + 1) {
                    fail!("C10/querier/wrong-remaining-ttl", "query at +{} ms lists {} but {} ms of its life remain", tau - T0, render_record(ka), remaining_ms);
                }
            }
        }
    }
    ctx.class_if(queries_with_ka > 0, "query-with-known-answers");
    ctx.class_if(near_half > 0, "listed-record-within-1s-of-half-life");
    ctx.class_if(nifs >= 2, ">=2-interfaces");
    ctx.count("known_answers_listed", listed_total);
    // records past half life at the time of some query (the hazard was present)
    let hazard = sent.iter().filter(|p| !p.m.is_response()).any(|p| received.iter().any(|r| r.4 < p.pos && (p.t - r.0) * 2 > (r.2.max(1) as u64) * 1000 && (p.t - r.0) < (r.2.max(1) as u64) * 1000));
    ctx.class_if(hazard, "query-sent-while-holding-record-past-half-life");
    if queries_with_ka > 0 && (hazard || near_half > 0) {
        ctx.nontrivial(format!(
            "ifs{} n{} ka{} near{} hazard{} rb{} ttls{:?}",
            nifs,
            case.deliveries.len().min(8),
            queries_with_ka.min(8),
            near_half.min(3),
            hazard,
            case.rebrowse_ms.is_some(),
            case.deliveries.iter().map(|d| d.ttl).take(5).collect::<Vec<_>>()
        ));
    }
    if ctx.want_sample {
        ctx.sample = Some(json!({
            "deliveries": case.deliveries.iter().map(|d| format!("{d:?}")).collect::<Vec<_>>(),
            "history_tail": render_log(&d.log, true, 10).lines().map(|l| l.chars().take(220).collect::<String>()).collect::<Vec<_>>(),
        }));
    }
    w.finish();
}

fn querier_strategy() -> BoxedStrategy<QCase> {
    let delivery = (
        prop_oneof![3 => 0u64..4000, 3 => 0u64..40_000, 1 => 0u64..300_000],
        0usize..4,
        prop_oneof![2 => Just(2u32), 2 => Just(4), 3 => 2u32..30, 2 => 30u32..300, 1 => Just(4500), 1 => Just(0), 1 => Just(1)],
        proptest::bool::weighted(0.1),
        0usize..2,
        proptest::bool::weighted(0.5),
    )
        .prop_map(|(at_ms, inst, ttl, flush, k, full)| Delivery {
            at_ms,
            inst,
            ttl,
            flush,
            k,
            full,
        });
    let usual = (
        iftable(2),
        proptest::collection::vec(delivery, 1..10),
        prop_oneof![Just(20_000u64), Just(70_000), Just(300_000), 1000u64..600_000],
        proptest::option::weighted(0.2, 0u64..60_000),
    )
        .prop_map(|(ifs, deliveries, horizon_ms, rebrowse_ms)| QCase {
            ifs,
            deliveries,
            horizon_ms,
            rebrowse_ms,
        });
    // records that live for months to decades, watched for two to four months (the hourly query
    // lists them with what is left of their life)
    let long_lived = (
        iftable(1),
        0u64..4000,
        0usize..4,
        prop_oneof![Just(10_000_000u32), Just(1u32 << 31), Just(u32::MAX), 8_600_000u32..=u32::MAX],
        proptest::bool::weighted(0.5),
        4_300_000_000u64..10_000_000_000,
    )
        .prop_map(|(ifs, at_ms, inst, ttl, full, horizon_ms)| QCase {
            ifs,
            deliveries: vec![Delivery { at_ms, inst, ttl, flush: false, k: 0, full }],
            horizon_ms,
            rebrowse_ms: None,
        });
    prop_oneof![24 => usual, 1 => long_lived].boxed()
}

pub fn run(tier: Tier) -> i32 {
    let mut agg = Agg::new("C10", tier);
    agg.assume("exactly half of the TTL is left open on both sides; remaining TTL may be floor or ceiling (+-1 s)");
    agg.assume("a known answer whose owner or RDATA name differs from the responder's record only in letter case, and questions in another letter case than the record, leave suppression open");
    agg.assume("simulation: silent network except scripted traffic, exact wake-ups, clients drain their channels");
    let g = grid();
    let n = g.len() as u64;
    run_enumerated(
        &mut agg,
        "responder-predicate-grid",
        "every (record kind PTR/SRV/TXT/A/AAAA) x responder TTL in {1,2,3,10,119,120,121,4499,4500,4501,2^31,u32::MAX} x known TTL in {0,1,h-1,h,h+1,r-1,r,r+1,max} x {same, other name, other rdata, other type, other class}; non-trivial = known TTL within 1 of half, or a differing record",
        n,
        &|i| g[i as usize].clone(),
        &check_grid,
    );
    run_regressions::<rsp::Case>(&mut agg, "responder", &check_responder);
    run_part(
        &mut agg,
        &Part {
            name: "responder",
            rule: "the C06 scenario (register/re-register/conflict histories, 1-3 interfaces) with queries carrying up to 4 known answers drawn from the responder's own records with TTL in {0,1,h-1,h,h+1,full,max} and mutations {same, other name, other rdata, other type, other class, other case}; expectation = C06's minus suppressed answers and their additionals; \
                   non-trivial = a query where an answer was suppressed or a known TTL lies within 1 of half",
            cases: scale(tier.pick(20_000, 500_000)),
            max_shrink_iters: 800,
            strategy: &|| rsp::case_strategy(0.95, true, 4),
            check: &check_responder,
        },
    );
    run_regressions::<QCase>(&mut agg, "querier", &check_querier);
    run_part(
        &mut agg,
        &Part {
            name: "querier",
            rule: "a browsing daemon on 1-2 interfaces receiving PTR records (TTL 0..4500 s, with/without cache-flush bit, with/without the instance's unique records) at generated times; every browse query (initial, retransmitted, refresh, re-issued) is inspected: known answers only for held shared records with at most half their life gone, remaining TTL within 1 s, query on every interface; \
                   non-trivial = a query listing known answers sent while some held record was past (or within 1 s of) half life",
            cases: scale(tier.pick(12_000, 300_000)),
            max_shrink_iters: 600,
            strategy: &querier_strategy,
            check: &check_querier,
        },
    );
    agg.require_class("responder:answer-suppressed", 500);
    agg.require_class("responder:known-ttl-within-1-of-half", 1000);
    agg.require_class("querier:query-with-known-answers", 2000);
    agg.require_class("querier:query-sent-while-holding-record-past-half-life", 1000);
    agg.finish()
}

pub fn replay(file: &std::path::Path) -> i32 {
    if let Some(c) = replay_part::<GridCase>("C10", "responder-predicate-grid", file, 1, &check_grid) {
        return c;
    }
    if let Some(c) = replay_part::<rsp::Case>("C10", "responder", file, 5, &check_responder) {
        return c;
    }
    if let Some(c) = replay_part::<QCase>("C10", "querier", file, 5, &check_querier) {
        return c;
    }
    eprintln!("harness error: replay file does not belong to C10");
    2
}
