//! C01 - decoding any datagram is safe, terminating and bounded (engine E1).

use crate::guard::{Guarded, Outcome};
use crate::refdns::{self, *};
use crate::runner::*;
use mdns_sd::verif::codec::{self, MsgView, RDataView, RecordView};
use proptest::prelude::*;
use serde::{Deserialize, Serialize};
use serde_json::json;

const CAP: usize = 64 << 20;
const CPU_LIMIT_S: f64 = 2.0;

#[derive(Clone, Debug, Serialize, Deserialize)]
pub struct Case {
    /// Generator family that produced the bytes.
    pub family: String,
    #[serde(with = "hex_bytes")]
    pub bytes: Vec<u8>,
}

pub mod hex_bytes {
    use serde::{Deserialize, Deserializer, Serializer};
    pub fn serialize<S: Serializer>(b: &[u8], s: S) -> Result<S::Ok, S::Error> {
        let mut h = String::with_capacity(b.len() * 2);
        for x in b {
            h.push_str(&format!("{x:02x}"));
        }
        s.serialize_str(&h)
    }
    pub fn deserialize<'de, D: Deserializer<'de>>(d: D) -> Result<Vec<u8>, D::Error> {
        let s = String::deserialize(d)?;
        let s = s.as_bytes();
        let mut v = Vec::with_capacity(s.len() / 2);
        let hv = |c: u8| -> u8 {
            match c {
                b'0'..=b'9' => c - b'0',
                b'a'..=b'f' => c - b'a' + 10,
                b'A'..=b'F' => c - b'A' + 10,
                _ => 0,
            }
        };
        for p in s.chunks(2) {
            if p.len() == 2 {
                v.push(hv(p[0]) << 4 | hv(p[1]));
            }
        }
        Ok(v)
    }
}

thread_local! {
    static DEC: Guarded<Vec<u8>, Result<MsgView, String>> = Guarded::new(
        Box::new(|| Box::new(|b: Vec<u8>| codec::decode(&b, "eth0", 2))),
        CAP,
        CPU_LIMIT_S,
    );
}

pub fn guarded_decode(bytes: &[u8]) -> Outcome<Result<MsgView, String>> {
    DEC.with(|d| d.call(bytes.to_vec()))
}

const KNOWN_TYPES: [u16; 8] = [T_A, T_CNAME, T_PTR, T_HINFO, T_TXT, T_AAAA, T_SRV, T_NSEC];

fn rdata_equal(c: &RDataView, r: &RData) -> bool {
    match (c, r) {
        (RDataView::A(a), RData::A(b)) => a == b,
        (RDataView::Aaaa(a), RData::Aaaa(b)) => a == b,
        (RDataView::Ptr(a), RData::Ptr(b)) | (RDataView::Ptr(a), RData::Cname(b)) => {
            b.is_utf8() && *a == b.to_plain()
        }
        (
            RDataView::Srv {
                priority,
                weight,
                port,
                host,
            },
            RData::Srv {
                priority: p2,
                weight: w2,
                port: po2,
                target,
            },
        ) => priority == p2 && weight == w2 && port == po2 && target.is_utf8() && *host == target.to_plain(),
        (RDataView::Txt(a), RData::Txt(b)) => a == b,
        (RDataView::Hinfo { cpu, os }, RData::Hinfo(c2, o2)) => {
            cpu.as_bytes() == &c2[..] && os.as_bytes() == &o2[..]
        }
        (RDataView::Nsec { next, bitmap }, RData::Nsec(n2, rest)) => {
            n2.is_utf8()
                && *next == n2.to_plain()
                && rest.len() == bitmap.len() + 2
                && rest[0] == 0
                && rest[1] as usize == bitmap.len()
                && rest[2..] == bitmap[..]
        }
        _ => false,
    }
}

pub fn compare_section(
    what: &str,
    crate_recs: &[RecordView],
    ref_recs: &[Record],
    response: bool,
    dlen: usize,
    ctx: &mut CaseCtx,
) {
    let expected: Vec<&Record> = ref_recs
        .iter()
        .filter(|r| KNOWN_TYPES.contains(&r.rtype))
        .collect();
    if expected.len() != crate_recs.len() {
        ctx.violation(
            format!("C01/differential/{what}-count"),
            format!(
                "crate decoded {} records in {what}, reference decoder {} of known types",
                crate_recs.len(),
                expected.len()
            ),
        );
        return;
    }
    for (c, r) in crate_recs.iter().zip(expected) {
        let ttl = if r.ttl == 0 && response { 1 } else { r.ttl };
        let ok = r.name.is_utf8()
            && c.name == r.name.to_plain()
            && c.rtype == r.rtype
            && c.class == r.class_only()
            && c.cache_flush == r.flush()
            && c.ttl == ttl
            && rdata_equal(&c.rdata, &r.rdata);
        if !ok {
            ctx.violation(
                format!("C01/differential/{what}-record/{}", refdns::type_name(r.rtype)),
                format!("crate: {c:?}\nreference: {}", refdns::render_record(r)),
            );
            return;
        }
        if c.name.len() > dlen.max(255) + 1 {
            ctx.violation(
                "C01/bounded/name-longer-than-datagram",
                format!("name of {} bytes from a {dlen}-byte datagram", c.name.len()),
            );
        }
    }
}

pub fn check(case: &Case, ctx: &mut CaseCtx) {
    let bytes = &case.bytes;
    let reference = refdns::decode(bytes);
    ctx.class(&format!("family:{}", case.family));
    let outcome = guarded_decode(bytes);
    let shape = match &reference {
        Ok((m, info)) => {
            let types: std::collections::BTreeSet<u16> = m.all_records().map(|r| r.rtype).collect();
            format!(
                "ok q{} an{} ns{} ar{} t{:?} ptr{} fwd{} hdr{}",
                m.questions.len().min(3),
                m.answers.len().min(3),
                m.authorities.len().min(3),
                m.additionals.len().min(3),
                types,
                info.pointers.min(4),
                info.forward_pointer,
                info.header_pointer
            )
        }
        Err(e) => format!("err {e:?}"),
    };
    let has_pointer = bytes.len() > 12 && bytes[12..].iter().any(|b| b & 0xC0 == 0xC0);
    let reaches_records = match &reference {
        Ok((m, _)) => !m.questions.is_empty() || m.all_records().next().is_some(),
        Err(e) => *e != DecodeError::ShortHeader && bytes.len() > 12,
    };
    match &outcome {
        Outcome::Panic(msg) => {
            let loc = msg.split(": ").next().unwrap_or("").to_string();
            ctx.violation(
                format!("C01/panic/{loc}"),
                format!("decoder panicked: {msg} on {} bytes", bytes.len()),
            );
            ctx.class("crate:panic");
        }
        Outcome::Hang { cpu_s } => {
            ctx.violation(
                "C01/terminates/cpu-limit",
                format!(
                    "decoder used {cpu_s:.1} s of CPU on a {}-byte datagram without returning",
                    bytes.len()
                ),
            );
            ctx.class("crate:hang");
            ctx.fatal = true;
        }
        Outcome::OverAlloc { cap } => {
            ctx.violation(
                "C01/bounded/allocation-cap",
                format!(
                    "decoder allocated more than {} MiB for a {}-byte datagram",
                    cap >> 20,
                    bytes.len()
                ),
            );
            ctx.class("crate:overalloc");
            ctx.fatal = true;
        }
        Outcome::Done { value, peak_alloc } => {
            ctx.count("peak_alloc_bytes_sum", *peak_alloc as u64);
            // Proportional memory: generous linear bound (Debug-formatted error text of the
            // whole datagram is the largest legitimate consumer, ~6 bytes of text per byte).
            if *peak_alloc > 1_000_000 + 2000 * bytes.len() {
                ctx.violation(
                    "C01/bounded/allocation-proportional",
                    format!("peak {} bytes allocated for {} bytes", peak_alloc, bytes.len()),
                );
            }
            match value {
                Err(_) => {
                    ctx.class("crate:err");
                    ctx.class_if(reference.is_ok(), "crate:err,ref:ok");
                }
                Ok(view) => {
                    ctx.class("crate:ok");
                    match &reference {
                        Err(e) => {
                            ctx.violation(
                                format!("C01/differential/accepted-but-reference-rejects/{e:?}"),
                                format!(
                                    "crate returned a message, the reference decoder says {e:?}: \
                                     the message cannot have been read from inside the datagram"
                                ),
                            );
                        }
                        Ok((m, info)) => {
                            let counts = [
                                view.num_questions,
                                view.num_answers,
                                view.num_authorities,
                                view.num_additionals,
                            ];
                            if counts != info.counts || view.id != m.id || view.flags != m.flags {
                                ctx.violation("C01/differential/header", format!("{counts:?} vs {:?}", info.counts));
                            }
                            if view.questions.len() != m.questions.len() {
                                ctx.violation("C01/differential/question-count", String::new());
                            } else {
                                for (c, r) in view.questions.iter().zip(&m.questions) {
                                    let ok = r.name.is_utf8()
                                        && c.name == r.name.to_plain()
                                        && c.qtype == r.qtype
                                        && c.class == r.qclass & 0x7FFF
                                        && c.top_bit == (r.qclass & 0x8000 != 0);
                                    if !ok {
                                        ctx.violation(
                                            "C01/differential/question",
                                            format!("crate {c:?} reference {r:?}"),
                                        );
                                        break;
                                    }
                                    if c.name.len() > bytes.len().max(255) + 1 {
                                        ctx.violation("C01/bounded/name-longer-than-datagram", String::new());
                                    }
                                }
                            }
                            let resp = m.is_response();
                            compare_section("answers", &view.answers, &m.answers, resp, bytes.len(), ctx);
                            compare_section("authorities", &view.authorities, &m.authorities, resp, bytes.len(), ctx);
                            compare_section("additionals", &view.additionals, &m.additionals, resp, bytes.len(), ctx);
                        }
                    }
                }
            }
        }
    }
    if reaches_records || has_pointer {
        ctx.nontrivial(format!("{} {}", case.family, shape));
    }
    // pointer-looking byte pairs that lead to further pointer-looking pairs (multi-hop chains),
    // and chains that end in a pair pointing at itself or forward (hidden cycles)
    if bytes.len() <= 2048 {
        let tgt = |i: usize| -> Option<usize> {
            if i + 1 < bytes.len() && bytes[i] & 0xC0 == 0xC0 {
                let t = ((bytes[i] as usize & 0x3F) << 8) | bytes[i + 1] as usize;
                (t + 1 < bytes.len() && bytes[t] & 0xC0 == 0xC0).then_some(t)
            } else {
                None
            }
        };
        let mut two_hop = false;
        let mut hidden_cycle = false;
        for i in 12..bytes.len() {
            if let Some(t1) = tgt(i) {
                if t1 < i {
                    if let Some(t2) = tgt(t1) {
                        two_hop = true;
                        if t2 < t1 && tgt(t2).is_some_and(|t3| t3 >= t2) {
                            hidden_cycle = true;
                        }
                    }
                }
            }
        }
        ctx.class_if(two_hop, "pointer-chain:two-hops-or-more");
        ctx.class_if(hidden_cycle, "pointer-chain:decreasing-then-cycle");
    }
    if ctx.want_sample {
        ctx.sample = Some(json!({
            "family": case.family, "len": bytes.len(),
            "bytes_prefix_hex": bytes.iter().take(48).map(|b| format!("{b:02x}")).collect::<String>(),
            "reference": match &reference { Ok((m,_)) => refdns::render_message(m).chars().take(300).collect::<String>(), Err(e) => format!("{e:?}") },
            "crate": match &outcome { Outcome::Done{value: Ok(_),..} => "Ok".to_string(), Outcome::Done{value: Err(e),..} => format!("Err({})", e.chars().take(80).collect::<String>()), o => format!("{o:?}").chars().take(80).collect() },
        }));
    }
}

// ---------------------------------------------------------------------------------------------
// Generators
// ---------------------------------------------------------------------------------------------

fn label_bytes() -> BoxedStrategy<Vec<u8>> {
    prop_oneof![
        6 => "[a-z_][a-z0-9-]{0,9}".prop_map(|s| s.into_bytes()),
        2 => "[A-Za-z .\\\\()0-9é中-]{1,20}".prop_map(|s| { let mut b = s.into_bytes(); b.truncate(63); while std::str::from_utf8(&b).is_err() { b.pop(); } if b.is_empty() { b.push(b'x'); } b }),
        1 => proptest::collection::vec(any::<u8>(), 1..=63),
        1 => Just(vec![b'a'; 63]),
    ]
    .boxed()
}

pub fn name_strategy() -> BoxedStrategy<Name> {
    let suffix = prop_oneof![
        4 => Just(vec![b"_http".to_vec(), b"_tcp".to_vec(), b"local".to_vec()]),
        2 => Just(vec![b"local".to_vec()]),
        1 => Just(vec![b"_svc".to_vec(), b"_udp".to_vec(), b"local".to_vec()]),
        1 => Just(vec![]),
    ];
    (proptest::collection::vec(label_bytes(), 0..3), suffix)
        .prop_map(|(mut l, s)| {
            l.extend(s);
            Name(l)
        })
        .boxed()
}

fn rdata_strategy() -> BoxedStrategy<(u16, RData)> {
    prop_oneof![
        any::<[u8; 4]>().prop_map(|b| (T_A, RData::A(b.into()))),
        any::<[u8; 16]>().prop_map(|b| (T_AAAA, RData::Aaaa(b.into()))),
        name_strategy().prop_map(|n| (T_PTR, RData::Ptr(n))),
        name_strategy().prop_map(|n| (T_CNAME, RData::Cname(n))),
        (any::<u16>(), any::<u16>(), any::<u16>(), name_strategy()).prop_map(|(p, w, po, t)| (
            T_SRV,
            RData::Srv {
                priority: p,
                weight: w,
                port: po,
                target: t
            }
        )),
        proptest::collection::vec(any::<u8>(), 0..80).prop_map(|b| (T_TXT, RData::Txt(b))),
        ("[a-zA-Z0-9 ]{0,12}", "[a-zA-Z0-9 ]{0,12}")
            .prop_map(|(c, o)| (T_HINFO, RData::Hinfo(c.into_bytes(), o.into_bytes()))),
        (name_strategy(), proptest::collection::vec(any::<u8>(), 1..=32)).prop_map(|(n, bm)| {
            let mut rest = vec![0u8, bm.len() as u8];
            rest.extend(bm);
            (T_NSEC, RData::Nsec(n, rest))
        }),
        (
            prop_oneof![Just(2u16), Just(6), Just(41), Just(255), Just(65535), any::<u16>()],
            proptest::collection::vec(any::<u8>(), 0..40)
        )
            .prop_map(|(t, b)| {
                if KNOWN_TYPES.contains(&t) {
                    (T_TXT, RData::Txt(b))
                } else {
                    (t, RData::Other(b))
                }
            }),
    ]
    .boxed()
}

pub fn record_strategy() -> BoxedStrategy<Record> {
    (
        name_strategy(),
        rdata_strategy(),
        prop_oneof![Just(1u16), Just(0x8001), any::<u16>()],
        prop_oneof![Just(0u32), Just(1), Just(120), Just(4500), any::<u32>()],
    )
        .prop_map(|(name, (rtype, rdata), class, ttl)| Record {
            name,
            rtype,
            class,
            ttl,
            rdata,
        })
        .boxed()
}

pub fn message_strategy(max_records: usize) -> BoxedStrategy<Message> {
    let q = (
        name_strategy(),
        prop_oneof![
            Just(T_PTR),
            Just(T_ANY),
            Just(T_A),
            Just(T_SRV),
            Just(T_TXT),
            Just(T_AAAA),
            any::<u16>()
        ],
        prop_oneof![Just(1u16), Just(0x8001), any::<u16>()],
    )
        .prop_map(|(name, qtype, qclass)| Question {
            name,
            qtype,
            qclass,
        });
    (
        any::<u16>(),
        prop_oneof![Just(0u16), Just(0x8400), Just(0x8000), any::<u16>()],
        proptest::collection::vec(q, 0..4),
        proptest::collection::vec(record_strategy(), 0..max_records),
        proptest::collection::vec(record_strategy(), 0..3),
        proptest::collection::vec(record_strategy(), 0..max_records),
    )
        .prop_map(|(id, flags, questions, answers, authorities, additionals)| Message {
            id,
            flags,
            questions,
            answers,
            authorities,
            additionals,
        })
        .boxed()
}

#[derive(Clone, Debug)]
pub enum Mutation {
    FlipBit(usize, u8),
    SetByte(usize, u8),
    SetU16(usize, u16),
    Truncate(usize),
    Insert(usize, Vec<u8>),
    Delete(usize, usize),
    HeaderCount(usize, u16),
}

pub fn mutation_strategy() -> BoxedStrategy<Mutation> {
    let interesting16 = prop_oneof![
        Just(0u16),
        Just(1),
        Just(2),
        Just(0xFFFF),
        Just(0xC000),
        Just(0xC00C),
        Just(0x00FF),
        any::<u16>()
    ];
    let interesting8 = prop_oneof![
        Just(0u8),
        Just(1),
        Just(0x3F),
        Just(0x40),
        Just(0x80),
        Just(0xC0),
        Just(0xFF),
        any::<u8>()
    ];
    prop_oneof![
        (any::<usize>(), 0u8..8).prop_map(|(p, b)| Mutation::FlipBit(p, b)),
        (any::<usize>(), interesting8).prop_map(|(p, b)| Mutation::SetByte(p, b)),
        (any::<usize>(), interesting16.clone()).prop_map(|(p, b)| Mutation::SetU16(p, b)),
        any::<usize>().prop_map(Mutation::Truncate),
        (any::<usize>(), proptest::collection::vec(any::<u8>(), 1..6)).prop_map(|(p, b)| Mutation::Insert(p, b)),
        (any::<usize>(), 1usize..6).prop_map(|(p, n)| Mutation::Delete(p, n)),
        (0usize..4, interesting16).prop_map(|(i, v)| Mutation::HeaderCount(i, v)),
    ]
    .boxed()
}

pub fn apply(mut b: Vec<u8>, m: &Mutation) -> Vec<u8> {
    let n = b.len();
    match m {
        Mutation::FlipBit(p, bit) if n > 0 => b[p % n] ^= 1 << bit,
        Mutation::SetByte(p, v) if n > 0 => b[p % n] = *v,
        Mutation::SetU16(p, v) if n > 1 => {
            let i = p % (n - 1);
            b[i..i + 2].copy_from_slice(&v.to_be_bytes());
        }
        Mutation::Truncate(p) if n > 0 => b.truncate(p % (n + 1)),
        Mutation::Insert(p, v) => {
            let i = p % (n + 1);
            b.splice(i..i, v.iter().copied());
        }
        Mutation::Delete(p, k) if n > 0 => {
            let i = p % n;
            let e = (i + k).min(n);
            b.drain(i..e);
        }
        Mutation::HeaderCount(i, v) if n >= 12 => {
            b[4 + 2 * i..6 + 2 * i].copy_from_slice(&v.to_be_bytes());
        }
        _ => {}
    }
    b.truncate(9000);
    b
}

fn fam_random() -> BoxedStrategy<Case> {
    prop_oneof![
        3 => proptest::collection::vec(any::<u8>(), 0..64),
        3 => proptest::collection::vec(any::<u8>(), 0..600),
        1 => proptest::collection::vec(any::<u8>(), 0..=9000),
        // random body behind a plausible header
        3 => (0u16..4, 0u16..4, 0u16..3, 0u16..4, any::<bool>(), proptest::collection::vec(any::<u8>(), 0..200)).prop_map(|(q, a, n, r, resp, body)| {
            let mut b = vec![0u8; 12];
            if resp { b[2] = 0x84; }
            b[5] = q as u8; b[7] = a as u8; b[9] = n as u8; b[11] = r as u8;
            b.extend(body);
            b
        }),
    ]
    .prop_map(|bytes| Case {
        family: "random".into(),
        bytes,
    })
    .boxed()
}

fn fam_valid_mutated() -> BoxedStrategy<Case> {
    (
        message_strategy(8),
        any::<bool>(),
        proptest::collection::vec(mutation_strategy(), 0..4),
        proptest::option::weighted(0.15, message_strategy(4)),
    )
        .prop_map(|(m, compress, muts, splice)| {
            let mut b = refdns::encode(
                &m,
                if compress {
                    Compress::Suffix
                } else {
                    Compress::None
                },
            );
            if let Some(m2) = splice {
                let b2 = refdns::encode(&m2, Compress::Suffix);
                let cut = b.len() / 2;
                b.truncate(cut);
                b.extend_from_slice(&b2[b2.len() / 3..]);
            }
            let family = if muts.is_empty() { "valid" } else { "mutated" };
            for mu in &muts {
                b = apply(b, mu);
            }
            b.truncate(9000);
            Case {
                family: family.into(),
                bytes: b,
            }
        })
        .boxed()
}

/// Valid packets produced by the crate's own encoder, then mutated.
fn fam_crate_encoded() -> BoxedStrategy<Case> {
    use mdns_sd::verif::codec::{MsgSpec, RDataSpec, RecordSpec};
    let name = prop_oneof![
        Just("_http._tcp.local.".to_string()),
        Just("host.local.".to_string()),
        "[a-z]{1,8}".prop_map(|s| format!("{s}._http._tcp.local.")),
        "[A-Za-z ]{1,12}".prop_map(|s| format!("{s}._svc._udp.local.")),
    ];
    let rd = prop_oneof![
        any::<[u8; 4]>().prop_map(|b| RDataSpec::A(b.into())),
        any::<[u8; 16]>().prop_map(|b| RDataSpec::Aaaa(b.into())),
        name.clone().prop_map(RDataSpec::Ptr),
        (any::<u16>(), name.clone()).prop_map(|(port, host)| RDataSpec::Srv {
            priority: 0,
            weight: 0,
            port,
            host
        }),
        proptest::collection::vec(any::<u8>(), 0..60).prop_map(RDataSpec::Txt),
    ];
    let rec = (name.clone(), rd, prop_oneof![Just(1u16), Just(0x8001)], any::<u32>()).prop_map(
        |(name, rdata, class, ttl)| RecordSpec {
            name,
            class,
            ttl,
            rdata,
            now: 0,
        },
    );
    (
        prop_oneof![Just(0u16), Just(0x8400)],
        proptest::collection::vec((name, prop_oneof![Just(12u16), Just(255), Just(1), Just(33)]), 0..3),
        proptest::collection::vec(rec.clone(), 0..6),
        proptest::collection::vec(rec.clone(), 0..3),
        proptest::collection::vec(rec, 0..6),
        proptest::collection::vec(mutation_strategy(), 0..3),
    )
        .prop_map(|(flags, questions, answers, authorities, additionals, muts)| {
            let spec = MsgSpec {
                flags,
                id: 0,
                questions,
                answers,
                authorities,
                additionals,
            };
            let mut b = codec::encode(&spec)
                .map(|o| o.packets.into_iter().next().unwrap_or_default())
                .unwrap_or_default();
            for mu in &muts {
                b = apply(b, mu);
            }
            Case {
                family: "crate-encoded".into(),
                bytes: b,
            }
        })
        .boxed()
}

/// Pieces of a hostile name.
#[derive(Clone, Debug)]
enum NamePiece {
    Label(Vec<u8>),
    /// Label length byte with reserved prefix bits.
    BadLen(u8),
    /// Pointer to: an absolute offset class.
    PtrHeader(u8),
    PtrSelf,
    PtrBack(u16),
    PtrForward(u16),
    PtrAbs(u16),
    /// Pointer to the start of an earlier name (index).
    PtrName(usize),
    /// Pointer into earlier RDATA made of raw pointer bytes (index); see `HostileEntry::bait`.
    PtrBait(usize),
    End,
    /// Length byte promising more than is there.
    Overlong(u8),
}

fn name_pieces() -> BoxedStrategy<Vec<NamePiece>> {
    let piece = prop_oneof![
        6 => label_bytes().prop_map(NamePiece::Label),
        1 => prop_oneof![Just(0x40u8), Just(0x80), Just(0x7F), Just(0xBF)].prop_map(NamePiece::BadLen),
        2 => (0u8..12).prop_map(NamePiece::PtrHeader),
        2 => Just(NamePiece::PtrSelf),
        2 => (1u16..40).prop_map(NamePiece::PtrBack),
        1 => (1u16..40).prop_map(NamePiece::PtrForward),
        1 => (0u16..0x3FFF).prop_map(NamePiece::PtrAbs),
        3 => (0usize..8).prop_map(NamePiece::PtrName),
        2 => (0usize..4).prop_map(NamePiece::PtrBait),
        4 => Just(NamePiece::End),
        1 => (1u8..64).prop_map(NamePiece::Overlong),
    ];
    proptest::collection::vec(piece, 1..5).boxed()
}

#[derive(Clone, Debug)]
struct HostileEntry {
    name: Vec<NamePiece>,
    rtype: u16,
    class: u16,
    ttl: u32,
    /// RDATA: 0 = well-formed for type, 1 = random bytes, 2 = name pieces, 3 = empty,
    /// 4 = "bait": raw compression pointers hidden in bytes that are not parsed as a name
    rdata_kind: u8,
    /// bait pointers: (kind, arg) with kind 0 = to offset 0, 1 = to itself, 2 = into the header,
    /// 3 = to the previous bait, 4 = to the next two bytes, 5 = to an earlier name start
    bait: Vec<(u8, u8)>,
    rdata_name: Vec<NamePiece>,
    rdata_raw: Vec<u8>,
    /// RDLENGTH adjustment: None = correct; Some(v) = declared value delta.
    rdlen_delta: Option<i32>,
    is_question: bool,
}

fn hostile_entry() -> BoxedStrategy<HostileEntry> {
    (
        name_pieces(),
        prop_oneof![
            Just(T_A), Just(T_AAAA), Just(T_PTR), Just(T_CNAME), Just(T_SRV), Just(T_TXT),
            Just(T_HINFO), Just(T_NSEC), Just(T_ANY), Just(2u16), any::<u16>()
        ],
        prop_oneof![Just(1u16), Just(0x8001), any::<u16>()],
        prop_oneof![Just(0u32), Just(1), Just(120), any::<u32>()],
        (0u8..5, proptest::collection::vec((0u8..6, any::<u8>()), 1..4)),
        name_pieces(),
        proptest::collection::vec(any::<u8>(), 0..40),
        prop_oneof![
            5 => Just(None),
            1 => Just(Some(-1)), 1 => Just(Some(1)), 1 => Just(Some(-1000)), 1 => Just(Some(60000)),
            1 => (-20i32..20).prop_map(Some),
        ],
        proptest::bool::weighted(0.2),
    )
        .prop_map(
            |(name, rtype, class, ttl, (rdata_kind, bait), rdata_name, rdata_raw, rdlen_delta, is_question)| HostileEntry {
                name,
                rtype,
                class,
                ttl,
                rdata_kind,
                bait,
                rdata_name,
                rdata_raw,
                rdlen_delta,
                is_question,
            },
        )
        .boxed()
}

fn write_pieces(b: &mut Vec<u8>, pieces: &[NamePiece], name_starts: &[usize], bait_starts: &[usize]) {
    let start = b.len();
    let ptr = |b: &mut Vec<u8>, off: usize| {
        let off = off & 0x3FFF;
        b.push(0xC0 | (off >> 8) as u8);
        b.push(off as u8);
    };
    let mut terminated = false;
    for p in pieces {
        match p {
            NamePiece::Label(l) => {
                b.push(l.len() as u8);
                b.extend_from_slice(l);
            }
            NamePiece::BadLen(v) => {
                b.push(*v);
                b.extend_from_slice(b"xy");
            }
            NamePiece::PtrHeader(o) => {
                ptr(b, *o as usize);
                terminated = true;
            }
            NamePiece::PtrSelf => {
                let here = b.len();
                ptr(b, here);
                terminated = true;
            }
            NamePiece::PtrBack(d) => {
                let here = b.len();
                ptr(b, here.saturating_sub(*d as usize));
                terminated = true;
            }
            NamePiece::PtrForward(d) => {
                let here = b.len();
                ptr(b, here + *d as usize);
                terminated = true;
            }
            NamePiece::PtrAbs(o) => {
                ptr(b, *o as usize);
                terminated = true;
            }
            NamePiece::PtrName(i) => {
                let target = if name_starts.is_empty() {
                    start
                } else {
                    name_starts[i % name_starts.len()]
                };
                ptr(b, target);
                terminated = true;
            }
            NamePiece::PtrBait(i) => {
                let target = if bait_starts.is_empty() { 0 } else { bait_starts[i % bait_starts.len()] };
                ptr(b, target);
                terminated = true;
            }
            NamePiece::End => {
                b.push(0);
                terminated = true;
            }
            NamePiece::Overlong(l) => {
                b.push(*l);
                b.push(b'z');
                terminated = true;
            }
        }
        if terminated {
            break;
        }
    }
    if !terminated {
        b.push(0);
    }
}

fn fam_hostile() -> BoxedStrategy<Case> {
    (
        // the first header bytes sometimes are compression pointers themselves (a cycle hidden in the ID / flags)
        prop_oneof![
            4 => any::<[u8; 4]>(),
            1 => Just([0xC0u8, 0x00, 0x84, 0x00]),
            1 => Just([0xC0u8, 0x02, 0xC0, 0x00]),
            1 => Just([0xC0u8, 0x01, 0x00, 0x00]),
        ],
        proptest::collection::vec(hostile_entry(), 0..8),
        // counts: None = truthful
        proptest::option::weighted(0.3, (0u16..6, 0u16..6, 0u16..4, 0u16..6)),
        proptest::option::weighted(0.1, any::<usize>()),
    )
        .prop_map(|(hdr, entries, counts, truncate)| {
            let mut b = vec![0u8; 12];
            b[0..4].copy_from_slice(&hdr);
            // make header bytes sometimes look like name bytes so header pointers matter
            let mut name_starts: Vec<usize> = Vec::new();
            let mut bait_starts: Vec<usize> = Vec::new();
            let mut qn = 0u16;
            let mut an = 0u16;
            // questions first (wire order), then records
            let (qs, rs): (Vec<&HostileEntry>, Vec<&HostileEntry>) = entries.iter().partition(|e| e.is_question);
            for e in qs {
                name_starts.push(b.len());
                write_pieces(&mut b, &e.name, &name_starts.clone(), &bait_starts);
                b.extend_from_slice(&e.rtype.to_be_bytes());
                b.extend_from_slice(&e.class.to_be_bytes());
                qn += 1;
            }
            for e in rs {
                name_starts.push(b.len());
                write_pieces(&mut b, &e.name, &name_starts.clone(), &bait_starts);
                b.extend_from_slice(&e.rtype.to_be_bytes());
                b.extend_from_slice(&e.class.to_be_bytes());
                b.extend_from_slice(&e.ttl.to_be_bytes());
                let lenpos = b.len();
                b.extend_from_slice(&[0, 0]);
                match e.rdata_kind {
                    0 => match e.rtype {
                        T_A => b.extend_from_slice(&e.rdata_raw.iter().chain([0u8; 4].iter()).take(4).copied().collect::<Vec<_>>()),
                        T_AAAA => b.extend_from_slice(&e.rdata_raw.iter().chain([0u8; 16].iter()).take(16).copied().collect::<Vec<_>>()),
                        T_PTR | T_CNAME => {
                            name_starts.push(b.len());
                            write_pieces(&mut b, &e.rdata_name, &name_starts.clone(), &bait_starts)
                        }
                        T_SRV => {
                            b.extend_from_slice(&[0, 0, 0, 0, 0, 80]);
                            name_starts.push(b.len());
                            write_pieces(&mut b, &e.rdata_name, &name_starts.clone(), &bait_starts)
                        }
                        T_HINFO => {
                            let k = e.rdata_raw.len().min(10);
                            b.push(k as u8);
                            b.extend(e.rdata_raw[..k].iter().map(|c| b'a' + c % 26));
                            b.push(2);
                            b.extend_from_slice(b"os");
                        }
                        T_NSEC => {
                            name_starts.push(b.len());
                            write_pieces(&mut b, &e.rdata_name, &name_starts.clone(), &bait_starts);
                            let k = (e.rdata_raw.len() % 33).max(1);
                            b.push(0);
                            b.push(k as u8);
                            b.extend(std::iter::repeat(0x40).take(k));
                        }
                        _ => b.extend_from_slice(&e.rdata_raw),
                    },
                    1 => b.extend_from_slice(&e.rdata_raw),
                    2 => {
                        name_starts.push(b.len());
                        write_pieces(&mut b, &e.rdata_name, &name_starts.clone(), &bait_starts)
                    }
                    4 => {
                        for (kind, arg) in &e.bait {
                            let here = b.len();
                            let target = match kind {
                                0 => 0,
                                1 => here,
                                2 => (*arg % 12) as usize,
                                3 => bait_starts.last().copied().unwrap_or(0),
                                4 => here + 2,
                                _ => name_starts.get(*arg as usize % name_starts.len().max(1)).copied().unwrap_or(0),
                            } & 0x3FFF;
                            bait_starts.push(here);
                            b.push(0xC0 | (target >> 8) as u8);
                            b.push(target as u8);
                        }
                    }
                    _ => {}
                }
                let real = (b.len() - lenpos - 2) as i32;
                let declared = match e.rdlen_delta {
                    None => real,
                    Some(d) => (real + d).clamp(0, 65535),
                } as u16;
                b[lenpos..lenpos + 2].copy_from_slice(&declared.to_be_bytes());
                an += 1;
            }
            let (q, a, n, r) = counts.unwrap_or((qn, an, 0, 0));
            let (a, n, r) = if counts.is_none() {
                // spread records over the three sections
                (an - an / 3 - an / 4, an / 4, an / 3)
            } else {
                (a, n, r)
            };
            b[4..6].copy_from_slice(&q.to_be_bytes());
            b[6..8].copy_from_slice(&a.to_be_bytes());
            b[8..10].copy_from_slice(&n.to_be_bytes());
            b[10..12].copy_from_slice(&r.to_be_bytes());
            if let Some(t) = truncate {
                let l = b.len();
                b.truncate(12 + t % (l - 11));
            }
            b.truncate(9000);
            Case {
                family: "hostile".into(),
                bytes: b,
            }
        })
        .boxed()
}

/// Large datagrams: many entries, long label chains and pointer fan-in (time/memory bound).
fn fam_large() -> BoxedStrategy<Case> {
    (prop_oneof![3 => 1usize..4, 1 => 1usize..60], 1usize..1400, any::<bool>(), 0u8..3)
        .prop_map(|(chain, entries, resp, kind)| {
            let mut b = vec![0u8; 12];
            if resp {
                b[2] = 0x84;
            }
            // first entry: a long name
            let first = b.len();
            for i in 0..chain {
                b.push(63);
                b.extend(std::iter::repeat(b'a' + (i % 26) as u8).take(63));
            }
            b.push(0);
            let mut count = 1u16;
            match kind {
                0 => {
                    b.extend_from_slice(&[0, 12, 0, 1]);
                    while b.len() + 6 <= 9000 && (count as usize) < entries {
                        b.push(0xC0);
                        b.push(first as u8);
                        b.extend_from_slice(&[0, 12, 0, 1]);
                        count += 1;
                    }
                    b[4..6].copy_from_slice(&count.to_be_bytes());
                }
                _ => {
                    b.extend_from_slice(&[0, 16, 0, 1, 0, 0, 0, 120, 0, 1, 0]);
                    while b.len() + 14 <= 9000 && (count as usize) < entries {
                        b.push(0xC0);
                        b.push(first as u8);
                        if kind == 1 {
                            b.extend_from_slice(&[0, 12, 0, 1, 0, 0, 0, 120, 0, 2, 0xC0, first as u8]);
                        } else {
                            b.extend_from_slice(&[0, 16, 0, 1, 0, 0, 0, 120, 0, 2, 1, b'x']);
                        }
                        count += 1;
                    }
                    b[6..8].copy_from_slice(&count.to_be_bytes());
                }
            }
            Case {
                family: "large".into(),
                bytes: b,
            }
        })
        .boxed()
}

pub fn strategy() -> BoxedStrategy<Case> {
    prop_oneof![
        3 => fam_random(),
        5 => fam_valid_mutated(),
        2 => fam_crate_encoded(),
        6 => fam_hostile(),
    ]
    .boxed()
}

const ALPHABET: [u8; 7] = [0x00, 0x01, b'a', 0x3F, 0xC0, 0x0C, 0x0D];

/// Exhaustive family: every string over ALPHABET of length 0..=L placed in one of several frames.
fn exhaustive_count(l: u32) -> u64 {
    (0..=l).map(|k| 7u64.pow(k)).sum()
}

const FRAMES: usize = 8;

fn exhaustive_case(l: u32, idx: u64) -> Case {
    let per_frame = exhaustive_count(l);
    let frame = (idx / per_frame) as usize;
    let mut i = idx % per_frame;
    let mut len = 0u32;
    loop {
        let n = 7u64.pow(len);
        if i < n {
            break;
        }
        i -= n;
        len += 1;
    }
    let mut s = Vec::new();
    for _ in 0..len {
        s.push(ALPHABET[(i % 7) as usize]);
        i /= 7;
    }
    let mut b = vec![0u8; 12];
    match frame {
        // the string is the question name (header id bytes make a header pointer meaningful)
        0 => {
            b[5] = 1;
            b.extend_from_slice(&s);
            b.extend_from_slice(&[0, 12, 0, 1]);
        }
        // header whose first bytes are a self-pointing pointer / label; string is the question name
        1 => {
            b[0] = 0xC0;
            b[1] = 0x00;
            b[5] = 1;
            b.extend_from_slice(&s);
            b.extend_from_slice(&[0, 12, 0, 1]);
        }
        2 => {
            b[0] = 0x01;
            b[1] = b'h';
            b[2] = 0xC0;
            b[3] = 0x00;
            b[5] = 1;
            b.extend_from_slice(&s);
            b.extend_from_slice(&[0, 255, 0, 1]);
        }
        // answer: name "a", type X, string as RDATA with truthful RDLENGTH
        3..=7 => {
            let t = [T_PTR, T_SRV, T_HINFO, T_NSEC, T_TXT][frame - 3];
            b[2] = 0x84;
            b[7] = 1;
            b.extend_from_slice(&[1, b'a', 0]);
            b.extend_from_slice(&t.to_be_bytes());
            b.extend_from_slice(&[0, 1, 0, 0, 0, 120]);
            let mut rd = Vec::new();
            if t == T_SRV {
                rd.extend_from_slice(&[0, 0, 0, 0, 0, 80]);
            }
            rd.extend_from_slice(&s);
            b.extend_from_slice(&(rd.len() as u16).to_be_bytes());
            b.extend_from_slice(&rd);
        }
        _ => unreachable!(),
    }
    Case {
        family: format!("exhaustive-frame{frame}"),
        bytes: b,
    }
}


// ---------------------------------------------------------------------------------------------
// Receive path (E3): what the daemon makes of a datagram is what is inside the datagram
// ---------------------------------------------------------------------------------------------

/// A well-formed answer (PTR, SRV, TXT, A for a browsed type and a searched host name), damaged in a
/// generated way, delivered through the daemon's own receive path.
#[derive(Clone, Debug, Serialize, Deserialize)]
pub struct RxCase {
    /// bytes cut off the end (0: none)
    pub cut: u16,
    /// 0 nothing, 1 ANCOUNT raised by one, 2 ARCOUNT raised by three, 3 RDLENGTH of the last record raised by two
    pub lie: u8,
    /// bytes appended after the message
    pub tail: Vec<u8>,
    pub v6: bool,
    /// an intact copy follows (the damaged one must not have left anything behind that changes it)
    pub then_intact: bool,
}

const RX_TY: &str = "_http._tcp.local.";
const RX_HOST: &str = "rxhost.local.";

pub fn check_rx(case: &RxCase, ctx: &mut CaseCtx) {
    use crate::sim::*;
    use mdns_sd::{HostnameResolutionEvent, ServiceEvent};
    use std::net::{IpAddr, Ipv4Addr, Ipv6Addr, SocketAddr};
    let ifs = if case.v6 {
        vec![mdns_sd::verif::SimIf::new("eth0", 2, IpAddr::V6(Ipv6Addr::new(0xfd00, 1, 0, 0, 0, 0, 0, 1)), 64)]
    } else {
        vec![mdns_sd::verif::SimIf::new("eth0", 2, IpAddr::V4(Ipv4Addr::new(192, 168, 10, 1)), 24)]
    };
    let mut d = match SimDaemon::new("D", ifs, T0, 1) {
        Ok(d) => d,
        Err(e) => {
            ctx.violation("C01/harness/spawn", e);
            return;
        }
    };
    let _ = d.d.set_ip_check_interval(1_000_000);
    let mut w = World::new(T0);
    let di = w.add(d);
    let _ = w.daemons[di].browse(RX_TY);
    let _ = w.daemons[di].resolve_hostname(RX_HOST, None);
    w.settle();
    // the answer
    let addr: IpAddr = if case.v6 { IpAddr::V6(Ipv6Addr::new(0xfd00, 1, 0, 0, 0, 0, 0x4d4d, 0x4d4d)) } else { IpAddr::V4(Ipv4Addr::new(192, 168, 77, 77)) };
    let sv = peer::Svc {
        ty: Name::from_escaped(RX_TY),
        sub: None,
        inst: b"rx".to_vec(),
        host: Name::from_escaped(RX_HOST),
        port: 0x4d4d,
        txt: b"\x05k=MMM".to_vec(),
        addrs: vec![addr],
    };
    let intact = peer::response(sv.announcement(120, 4500), vec![]);
    let mut bytes = intact.clone();
    match case.lie % 4 {
        1 => bytes[7] = bytes[7].wrapping_add(1),
        2 => bytes[11] = bytes[11].wrapping_add(3),
        3 => {
            // the last record is the address: RDLENGTH sits before its RDATA
            let rdlen = if case.v6 { 16 } else { 4 };
            let pos = bytes.len() - rdlen - 1;
            bytes[pos] = bytes[pos].wrapping_add(2);
        }
        _ => {}
    }
    let cut = (case.cut as usize).min(bytes.len().saturating_sub(12));
    bytes.truncate(bytes.len() - cut);
    bytes.extend_from_slice(&case.tail);
    let src: SocketAddr = if case.v6 { SocketAddr::new(IpAddr::V6(Ipv6Addr::new(0xfd00, 1, 0, 0, 0, 0, 0, 0x77)), MDNS_PORT) } else { SocketAddr::new(IpAddr::V4(Ipv4Addr::new(192, 168, 10, 77)), MDNS_PORT) };
    // the verdict of the crate's own decoder on exactly these bytes (judged against the reference in
    // the other parts of this check)
    let verdict = mdns_sd::verif::codec::decode(&bytes, "eth0", 2);
    let pos0 = w.daemons[di].log.len();
    {
        let now = w.now;
        let dm = &mut w.daemons[di];
        dm.set_now(now);
        dm.inject(2, src, bytes.clone());
    }
    w.settle();
    let m_after = w.daemons[di].metrics();
    let detail = |w: &World| format!("datagram ({} bytes, intact {}): {}\n--- history ---\n{}", bytes.len(), intact.len(), hex(&bytes), render_log(&w.daemons[di].log, true, 30));
    if let Some(why) = &w.daemons[di].dead {
        ctx.violation(panic_signature_rx(why), format!("the daemon thread died: {why}\n{}", detail(&w)));
        w.finish();
        return;
    }
    // addresses the daemon reported since the datagram
    let mut reported: Vec<IpAddr> = Vec::new();
    let mut events = 0;
    for e in &w.daemons[di].log[pos0..] {
        match &e.ev {
            Ev::Svc { ev: ServiceEvent::ServiceResolved(r), .. } => {
                events += 1;
                reported.extend(r.get_addresses().iter().map(|a| a.to_ip_addr()));
            }
            Ev::Svc { ev: ServiceEvent::ServiceFound(..), .. } | Ev::Svc { ev: ServiceEvent::ServiceRemoved(..), .. } => events += 1,
            Ev::Host { ev: HostnameResolutionEvent::AddressesFound(_, a), .. } => {
                events += 1;
                reported.extend(a.iter().map(|x| x.to_ip_addr()));
            }
            Ev::Host { ev: HostnameResolutionEvent::AddressesRemoved(..), .. } => events += 1,
            _ => {}
        }
    }
    let cached: i64 = m_after.as_ref().map(|m| ["cached-ptr", "cached-srv", "cached-txt", "cached-addr", "cached-nsec", "cached-subtype"].iter().map(|k| m.get(*k).copied().unwrap_or(0)).sum()).unwrap_or(0);
    match &verdict {
        Err(_) => {
            ctx.class("datagram-rejected-by-the-decoder");
            if events > 0 || cached > 0 {
                ctx.violation(
                    "C01/receive-path/rejected-datagram-has-effects",
                    format!("the decoder rejects these bytes, yet the daemon reported {events} event(s) (addresses {reported:?}) and caches {cached} record(s) after receiving them\n{}", detail(&w)),
                );
                w.finish();
                return;
            }
        }
        Ok(v) => {
            ctx.class("datagram-accepted-by-the-decoder");
            let inside: Vec<IpAddr> = v.answers.iter().chain(v.authorities.iter()).chain(v.additionals.iter()).filter_map(|r| match &r.rdata {
                    RDataView::A(a) => Some(IpAddr::V4(*a)),
                    RDataView::Aaaa(a) => Some(IpAddr::V6(*a)),
                    _ => None,
                })
                .collect();
            if let Some(bad) = reported.iter().find(|a| !inside.contains(a)) {
                ctx.violation("C01/receive-path/address-not-in-the-datagram", format!("the daemon reports {bad}, the datagram's records hold {inside:?}\n{}", detail(&w)));
                w.finish();
                return;
            }
            if cut == 0 && case.lie % 4 == 0 && !reported.contains(&addr) {
                ctx.violation("C01/receive-path/intact-datagram-not-used", format!("the intact answer was not reported (events {events})\n{}", detail(&w)));
                w.finish();
                return;
            }
        }
    }
    // (a damaged datagram that still decodes is another answer, with whatever it then says)
    if case.then_intact && verdict.is_err() {
        let pos1 = w.daemons[di].log.len();
        {
            let now = w.now;
            let dm = &mut w.daemons[di];
            dm.set_now(now);
            dm.inject(2, src, intact.clone());
        }
        w.settle();
        let mut got: Vec<IpAddr> = Vec::new();
        for e in &w.daemons[di].log[pos0..] {
            if let Ev::Svc { ev: ServiceEvent::ServiceResolved(r), .. } = &e.ev {
                got.extend(r.get_addresses().iter().map(|a| a.to_ip_addr()));
            }
        }
        let _ = pos1;
        if !got.contains(&addr) || got.iter().any(|a| *a != addr) {
            ctx.violation("C01/receive-path/intact-copy-after-damaged-one", format!("after the damaged datagram and an intact copy the instance resolves to {got:?}, sent was {addr}\n{}", detail(&w)));
            w.finish();
            return;
        }
    }
    ctx.class_if(cut > 0, "cut-short");
    ctx.class_if(case.lie % 4 != 0, "lying-header-or-length");
    ctx.nontrivial(format!("rx cut{} lie{} tail{} v6{} ok{}", cut.min(40), case.lie % 4, case.tail.len().min(4), case.v6, verdict.is_ok()));
    w.finish();
}

fn panic_signature_rx(why: &str) -> String {
    format!("C01/receive-path/daemon-died/{}", why.split(": ").next().unwrap_or(""))
}

fn hex(b: &[u8]) -> String {
    b.iter().map(|x| format!("{x:02x}")).collect()
}

pub fn rx_strategy() -> BoxedStrategy<RxCase> {
    (
        prop_oneof![3 => Just(0u16), 4 => 1u16..=8, 4 => 1u16..200],
        prop_oneof![5 => Just(0u8), 3 => 1u8..4],
        prop_oneof![6 => Just(Vec::new()), 2 => proptest::collection::vec(any::<u8>(), 1..6), 1 => proptest::collection::vec(Just(0u8), 1..40)],
        any::<bool>(),
        proptest::bool::weighted(0.4),
    )
        .prop_map(|(cut, lie, tail, v6, then_intact)| RxCase { cut, lie, tail, v6, then_intact })
        .boxed()
}

pub fn run(tier: Tier) -> i32 {
    let mut agg = Agg::new("C01", tier);
    agg.assume("reference decoder refdns (harness/src/refdns.rs) is a correct, total RFC 1035 decoder accepting a superset of sane encodings");
    agg.assume("hang = more than 2 s of CPU time of the decoding thread on one datagram (normal: microseconds); allocation cap 64 MiB per datagram");
    agg.assume("built with debug assertions and overflow checks on");
    run_regressions::<Case>(&mut agg, "datagrams", &check);
    let rule = "byte strings 0..=9000 from families random / valid / mutated / crate-encoded / hostile-grammar / large; \
                non-trivial = reference decoder got past the header into >=1 entry, or the datagram contains a compression pointer; \
                distinct = distinct (family, section shape, record types, pointer classes, reference outcome)";
    run_part(
        &mut agg,
        &Part {
            name: "datagrams",
            rule,
            cases: scale(tier.pick(1_500_000, 30_000_000)),
            max_shrink_iters: 400,
            strategy: &strategy,
            check: &check,
        },
    );
    run_part(
        &mut agg,
        &Part {
            name: "datagrams-large",
            rule: "datagrams up to 9000 bytes with long label chains and up to 1400 entries pointing at them (time/memory bound)",
            cases: scale(tier.pick(3_000, 60_000)),
            max_shrink_iters: 100,
            strategy: &fam_large,
            check: &|c: &Case, ctx: &mut CaseCtx| {
                let mut c2 = c.clone();
                c2.family = "large".into();
                check(&c2, ctx)
            },
        },
    );
    run_regressions::<RxCase>(&mut agg, "receive-path", &check_rx);
    run_part(
        &mut agg,
        &Part {
            name: "receive-path",
            rule: "a well-formed answer (PTR, SRV, TXT, A/AAAA) for a browsed type and a searched host name, cut short by 0..200 bytes and/or with a raised ANCOUNT / ARCOUNT / RDLENGTH and/or trailing bytes, delivered through the daemon's receive path (simulation), optionally followed by an intact copy; judged against the decoder's verdict on exactly those bytes: rejected = no event, nothing cached; accepted = every reported address is in the datagram; non-trivial = every case (distinct by damage)",
            cases: scale(tier.pick(6_000, 100_000)),
            max_shrink_iters: 200,
            strategy: &rx_strategy,
            check: &check_rx,
        },
    );
    agg.require_class("receive-path:datagram-rejected-by-the-decoder", 1000);
    agg.require_class("receive-path:datagram-accepted-by-the-decoder", 500);
    let l = tier.pick(5, 7);
    let n = exhaustive_count(l) * FRAMES as u64;
    run_enumerated(
        &mut agg,
        "datagrams-exhaustive",
        &format!("every string of length 0..={l} over the alphabet {{00,01,'a',3F,C0,0C,0D}} as question name (3 header variants) and as RDATA of PTR/SRV/HINFO/NSEC/TXT"),
        n,
        &|i| exhaustive_case(l, i),
        &check,
    );
    for f in ["random", "valid", "mutated", "hostile", "crate-encoded"] {
        agg.require_class(&format!("datagrams:family:{f}"), 1000);
    }
    agg.require_class("datagrams:crate:ok", 10_000);
    agg.require_class("datagrams:crate:err", 10_000);
    agg.require_class("datagrams:pointer-chain:two-hops-or-more", 20_000);
    agg.require_class("datagrams:pointer-chain:decreasing-then-cycle", 2_000);
    agg.finish()
}

pub fn replay(file: &std::path::Path) -> i32 {
    for part in ["datagrams", "datagrams-large", "datagrams-exhaustive"] {
        if let Some(code) = replay_part::<Case>("C01", part, file, 1, &check) {
            return code;
        }
    }
    if let Some(code) = replay_part::<RxCase>("C01", "receive-path", file, 3, &check_rx) {
        return code;
    }
    eprintln!("harness error: replay file does not belong to C01");
    2
}
