//! C14 - shutdown is clean, final and safe under concurrent use (E3 queue positions + E4 real threads).

use crate::gen::*;
use crate::refdns::*;
use crate::runner::*;
use crate::sim::*;
use mdns_sd::{DaemonEvent, DaemonStatus, Error, HostnameResolutionEvent, Receiver, ServiceDaemon, ServiceEvent, ServiceInfo, UnregisterStatus};
use proptest::prelude::*;
use serde::{Deserialize, Serialize};
use serde_json::json;
use std::net::{IpAddr, SocketAddr};
use std::sync::atomic::{AtomicBool, AtomicUsize, Ordering};
use std::sync::Arc;
use std::time::{Duration, Instant};

const C14_TYPES: [&str; 3] = ["_http._tcp.local.", "_ipp._tcp.local.", "_osc._udp.local."];
const C14_HOSTS: [&str; 2] = ["printer-7.local.", "HostB.local."];
const SVC_TY: &str = "_c14._udp.local.";

#[derive(Clone, Debug, Serialize, Deserialize, PartialEq, Eq)]
pub enum Cmd {
    Browse(u8),
    BrowseCache(u8),
    StopBrowse(u8),
    Resolve(u8, Option<u64>),
    StopResolve(u8),
    Register(u8),
    Unregister(u8),
    Verify(u8),
    Monitor,
    Metrics,
    Status,
    SetOpt(u8),
    Shutdown,
    /// get_ip_check_interval(): waits for the daemon's answer in the calling thread (real-thread part only)
    GetOpt,
}

const N_KINDS: u64 = 12;
fn kind(i: u64) -> Cmd {
    match i % N_KINDS {
        0 => Cmd::Browse(0),
        1 => Cmd::BrowseCache(1),
        2 => Cmd::StopBrowse(0),
        3 => Cmd::Resolve(0, None),
        4 => Cmd::StopResolve(0),
        5 => Cmd::Register(1),
        6 => Cmd::Unregister(0),
        7 => Cmd::Verify(0),
        8 => Cmd::Monitor,
        9 => Cmd::Metrics,
        10 => Cmd::Status,
        _ => Cmd::SetOpt(0),
    }
}

#[derive(Clone, Debug, Serialize, Deserialize)]
pub struct Case {
    pub ifs: Vec<IfSpec>,
    /// (command, a loop iteration runs after it, which handle clone issues it)
    pub cmds: Vec<(Cmd, bool, u8)>,
    /// calls made after the Shutdown status has been received
    pub late: Vec<Cmd>,
    /// the browse opened at the start belongs to a slow client: its channel is filled to capacity
    /// before the batch and is read only when the daemon has been waiting for it for a while
    #[serde(default)]
    pub slow_client: bool,
}

/// Reads one event from a channel only after it has been full for 25 ms of real time - the client a
/// daemon blocked in `send` is waiting for. What it takes is kept, in order.
struct SlowReader {
    stop: std::sync::Arc<std::sync::atomic::AtomicBool>,
    taken: std::sync::Arc<std::sync::Mutex<Vec<ServiceEvent>>>,
    thread: Option<std::thread::JoinHandle<()>>,
}

impl SlowReader {
    fn start(rx: Receiver<ServiceEvent>) -> Self {
        let stop = std::sync::Arc::new(std::sync::atomic::AtomicBool::new(false));
        let taken = std::sync::Arc::new(std::sync::Mutex::new(Vec::new()));
        let (stop2, taken2) = (stop.clone(), taken.clone());
        let thread = std::thread::spawn(move || {
            let mut full_since: Option<std::time::Instant> = None;
            while !stop2.load(std::sync::atomic::Ordering::SeqCst) {
                if rx.is_full() {
                    match full_since {
                        None => full_since = Some(std::time::Instant::now()),
                        Some(t) if t.elapsed() > Duration::from_millis(25) => {
                            if let Ok(e) = rx.try_recv() {
                                taken2.lock().unwrap().push(e);
                            }
                            full_since = None;
                        }
                        _ => {}
                    }
                } else {
                    full_since = None;
                }
                std::thread::sleep(Duration::from_millis(1));
            }
        });
        SlowReader { stop, taken, thread: Some(thread) }
    }
    fn finish(&mut self) -> Vec<ServiceEvent> {
        self.stop.store(true, std::sync::atomic::Ordering::SeqCst);
        if let Some(t) = self.thread.take() {
            let _ = t.join();
        }
        std::mem::take(&mut *self.taken.lock().unwrap())
    }
}

impl Drop for SlowReader {
    fn drop(&mut self) {
        self.stop.store(true, std::sync::atomic::Ordering::SeqCst);
    }
}

enum Reply {
    Unit,
    Browse(u8, bool, Receiver<ServiceEvent>),
    Host(u8, Receiver<HostnameResolutionEvent>),
    Unreg(Receiver<UnregisterStatus>),
    Mon(Receiver<DaemonEvent>),
    Metrics(Receiver<mdns_sd::Metrics>),
    Status(Receiver<DaemonStatus>),
    Shutdown(Receiver<DaemonStatus>),
}

fn svc_info(inst: u8, v4: bool) -> Option<ServiceInfo> {
    let ip: IpAddr = if v4 { IpAddr::V4(subnet_v4(0, 60 + inst)) } else { IpAddr::V6(subnet_v6(0, 60 + inst as u16)) };
    ServiceInfo::new(SVC_TY, &format!("svc{inst}"), &format!("c14host{inst}.local."), ip, 5000 + inst as u16, &[("a", "b")][..]).ok()
}

fn svc_fullname(inst: u8) -> String {
    format!("svc{inst}.{SVC_TY}")
}

fn issue(d: &ServiceDaemon, c: &Cmd, v4: bool) -> Result<Reply, Error> {
    Ok(match c {
        Cmd::Browse(t) => Reply::Browse(*t, false, d.browse(C14_TYPES[*t as usize % 3])?),
        Cmd::BrowseCache(t) => Reply::Browse(*t, true, d.browse_cache(C14_TYPES[*t as usize % 3])?),
        Cmd::StopBrowse(t) => {
            d.stop_browse(C14_TYPES[*t as usize % 3])?;
            Reply::Unit
        }
        Cmd::Resolve(h, tmo) => Reply::Host(*h, d.resolve_hostname(C14_HOSTS[*h as usize % 2], *tmo)?),
        Cmd::StopResolve(h) => {
            d.stop_resolve_hostname(C14_HOSTS[*h as usize % 2])?;
            Reply::Unit
        }
        Cmd::Register(i) => {
            match svc_info(*i, v4) {
                Some(info) => d.register(info)?,
                None => return Err(Error::Msg("harness: no service info".into())),
            }
            Reply::Unit
        }
        Cmd::Unregister(i) => Reply::Unreg(d.unregister(&svc_fullname(*i))?),
        Cmd::Verify(i) => {
            d.verify(svc_fullname(*i), Duration::from_millis(500))?;
            Reply::Unit
        }
        Cmd::Monitor => Reply::Mon(d.monitor()?),
        Cmd::Metrics => Reply::Metrics(d.get_metrics()?),
        Cmd::Status => Reply::Status(d.status()?),
        Cmd::SetOpt(k) => {
            match k % 3 {
                0 => d.set_service_name_len_max(30)?,
                1 => d.set_ip_check_interval(7)?,
                _ => d.accept_unsolicited(true)?,
            }
            Reply::Unit
        }
        Cmd::Shutdown => Reply::Shutdown(d.shutdown()?),
        Cmd::GetOpt => {
            // the error of a call that could not be answered is a message, not DaemonShutdown
            match d.get_ip_check_interval() {
                Ok(_) | Err(Error::Msg(_)) => {}
                Err(e) => return Err(e),
            }
            Reply::Unit
        }
    })
}

/// What a reply channel held in the end: the values in order, and whether it is closed.
fn drain<T>(rx: &Receiver<T>) -> (Vec<T>, bool) {
    let mut v = Vec::new();
    loop {
        match rx.try_recv() {
            Ok(x) => v.push(x),
            Err(flume::TryRecvError::Disconnected) => return (v, true),
            Err(flume::TryRecvError::Empty) => return (v, false),
        }
    }
}

pub fn check_queue(case: &Case, ctx: &mut CaseCtx) {
    let v4 = case.ifs[0].v4;
    let mut d = match SimDaemon::new("D", sim_ifs(&case.ifs), T0, 14) {
        Ok(d) => d,
        Err(e) => {
            ctx.violation("C14/harness/spawn", e);
            return;
        }
    };
    let _ = d.d.set_ip_check_interval(1_000_000);
    d.h.set_jitter_default(Some(0));
    let handles = [d.d.clone(), d.d.clone(), d.d.clone()];
    let mut w = World::new(T0);
    let di = w.add(d);
    // ---- a busy daemon: an announced service, an open browse, an open host name search
    let setup_browse: Receiver<ServiceEvent>;
    let setup_host: Receiver<HostnameResolutionEvent>;
    {
        let dm = &mut w.daemons[di];
        let Some(info) = svc_info(0, v4) else {
            ctx.violation("C14/harness/serviceinfo", "no service info");
            w.finish();
            return;
        };
        dm.api("register(svc0)".into());
        let _ = dm.d.register(info);
        dm.api("browse(_osc._udp.local.) [setup]".into());
        setup_browse = match dm.d.browse(C14_TYPES[2]) {
            Ok(r) => r,
            Err(e) => {
                ctx.violation("C14/harness/setup", e.to_string());
                w.finish();
                return;
            }
        };
        dm.api("resolve_hostname(HostB.local.) [setup]".into());
        setup_host = match dm.d.resolve_hostname(C14_HOSTS[1], None) {
            Ok(r) => r,
            Err(e) => {
                ctx.violation("C14/harness/setup", e.to_string());
                w.finish();
                return;
            }
        };
    }
    w.advance(3000);
    // ---- a slow client: answers for the browsed type fill its channel to capacity
    let mut slow = SlowReader::start(setup_browse.clone());
    let mut full_before_batch = false;
    if case.slow_client {
        let room = 10usize.saturating_sub(setup_browse.len());
        let ty = Name::from_escaped(C14_TYPES[2]);
        let mut recs = Vec::new();
        for k in 0..(room / 2 + room % 2) {
            let sv = peer::Svc {
                ty: ty.clone(),
                sub: None,
                inst: format!("filler{k}").into_bytes(),
                host: Name::from_escaped(&format!("fillerhost{k}.local.")),
                port: 700 + k as u16,
                txt: vec![0],
                addrs: vec![if v4 { IpAddr::V4(subnet_v4(0, 120 + k as u8)) } else { IpAddr::V6(subnet_v6(0, 120 + k as u16)) }],
            };
            if k < room / 2 {
                recs.extend(sv.announcement(120, 4500));
            } else {
                // one event only: the instance is found, not resolved
                recs.push(sv.ptr(4500));
            }
        }
        let src = if v4 { SocketAddr::new(IpAddr::V4(subnet_v4(0, 120)), MDNS_PORT) } else { SocketAddr::new(IpAddr::V6(subnet_v6(0, 120)), MDNS_PORT) };
        let now = w.now;
        let dm = &mut w.daemons[di];
        dm.set_now(now);
        dm.inject(if_index(0), src, peer::response(recs, vec![]));
        w.settle();
        full_before_batch = setup_browse.is_full();
    }
    // ---- the batch: commands enter the queue in order; loop iterations only where asked for
    let mut replies: Vec<(usize, Cmd, Result<Reply, Error>)> = Vec::new();
    let mut t_first_shutdown_sent = None;
    for (i, (c, step_after, h)) in case.cmds.iter().enumerate() {
        if *c == Cmd::GetOpt {
            continue;
        }
        let dm = &mut w.daemons[di];
        dm.api(format!("[handle {}] {c:?}", h % 3));
        if *c == Cmd::Shutdown && t_first_shutdown_sent.is_none() {
            t_first_shutdown_sent = Some(dm.log.len());
        }
        let r = issue(&handles[*h as usize % 3], c, v4);
        replies.push((i, c.clone(), r));
        if *step_after {
            dm.dirty = true;
            let _ = dm.step();
        }
    }
    w.daemons[di].dirty = true;
    w.advance(1500);
    let taken_by_slow_client = slow.finish();
    ctx.class_if(case.slow_client && full_before_batch, "slow-client-channel-full-before-the-batch");
    ctx.class_if(case.slow_client && full_before_batch && taken_by_slow_client.len() <= 1, "slow-client-read-at-most-one-event");
    let detail = |w: &World| format!("cmds: {:?}\n--- history (tail) ---\n{}", case.cmds, render_log(&w.daemons[di].log, true, 40));
    macro_rules! fail {
        ($sig:expr, $($arg:tt)*) => {{
            ctx.violation($sig, format!("{}\n{}", format!($($arg)*), detail(&w)));
            w.finish();
            return;
        }};
    }
    let dm = &w.daemons[di];
    if let Some(why) = &dm.dead {
        fail!("C14/daemon-panicked", "the daemon thread panicked: {why}");
    }
    if dm.stuck {
        ctx.fatal = true;
        fail!("C14/daemon-hung", "the daemon neither parked nor ended");
    }
    let has_shutdown = case.cmds.iter().any(|c| c.0 == Cmd::Shutdown);
    if has_shutdown && !dm.exited {
        fail!("C14/daemon-did-not-exit", "shutdown was requested but the daemon thread is still running 1.5 s later");
    }
    if !has_shutdown {
        // (generator always includes one; a shrunk case may not)
        w.finish();
        return;
    }
    // position of the first shutdown in the queue
    let p = case.cmds.iter().position(|c| c.0 == Cmd::Shutdown).unwrap_or(0);
    // ---- the reply of every call
    let mut shutdown_reported = 0;
    let mut behind_exit = 0u32;
    for (i, c, r) in &replies {
        let before = *i < p;
        match r {
            Err(Error::DaemonShutdown) => {
                // only possible once the daemon has left its loop: a loop iteration must have run after the shutdown call
                let exit_ran = case.cmds[p..*i].iter().any(|x| x.1);
                if !exit_ran {
                    fail!("C14/call-refused-before-shutdown-ran", "call #{i} {c:?} was refused with DaemonShutdown although the daemon had not run since the shutdown call");
                }
            }
            Err(Error::Again) => {}
            Err(e) => fail!("C14/call-failed", "call #{i} {c:?} failed with {e:?}"),
            Ok(reply) => {
                let (state, closed, n): (String, bool, usize) = match reply {
                    Reply::Unit => continue,
                    Reply::Browse(_, cache_only, rx) => {
                        let (v, closed) = drain(rx);
                        let stopped = v.iter().filter(|e| matches!(e, ServiceEvent::SearchStopped(_))).count();
                        // (a cache-only browse gets its own SearchStopped at once and keeps listening)
                        if stopped > 1 + *cache_only as usize {
                            fail!("C14/SearchStopped-more-than-once", "call #{i} {c:?}: {stopped} SearchStopped events");
                        }
                        if stopped == 1 && !*cache_only && !matches!(v.last(), Some(ServiceEvent::SearchStopped(_))) {
                            fail!("C14/event-after-SearchStopped", "call #{i} {c:?}: events {:?}", v.iter().map(crate::sim::render_service_event).collect::<Vec<_>>());
                        }
                        (format!("{} events", v.len()), closed, v.len())
                    }
                    Reply::Host(_, rx) => {
                        let (v, closed) = drain(rx);
                        let stopped = v.iter().filter(|e| matches!(e, HostnameResolutionEvent::SearchStopped(_))).count();
                        if stopped > 1 {
                            fail!("C14/SearchStopped-more-than-once", "call #{i} {c:?}: {stopped} SearchStopped events");
                        }
                        (format!("{} events", v.len()), closed, v.len())
                    }
                    Reply::Unreg(rx) => {
                        let (v, closed) = drain(rx);
                        (format!("{v:?}"), closed, v.len())
                    }
                    Reply::Mon(rx) => {
                        let (v, closed) = drain(rx);
                        (format!("{} events", v.len()), closed, v.len())
                    }
                    Reply::Metrics(rx) => {
                        let (v, closed) = drain(rx);
                        (format!("{} snapshots", v.len()), closed, v.len())
                    }
                    Reply::Status(rx) => {
                        let (v, closed) = drain(rx);
                        if before && v != vec![DaemonStatus::Running] {
                            fail!("C14/status-before-shutdown", "call #{i} status() queued before the shutdown yields {v:?}");
                        }
                        (format!("{v:?}"), closed, v.len())
                    }
                    Reply::Shutdown(rx) => {
                        let (v, closed) = drain(rx);
                        if v.iter().any(|s| *s != DaemonStatus::Shutdown) || v.len() > 1 {
                            fail!("C14/shutdown-reply", "call #{i} shutdown() yields {v:?}");
                        }
                        shutdown_reported += v.len();
                        if *i == p && v.len() != 1 {
                            fail!("C14/shutdown-not-reported", "the first shutdown() call (#{i}) yields {v:?} (closed: {closed})");
                        }
                        (format!("{v:?}"), closed, v.len())
                    }
                };
                if !before && *i != p {
                    behind_exit += 1;
                }
                // every reply channel yields a value or is closed - while the handles are still alive
                if n == 0 && !closed {
                    fail!(
                        if before { "C14/reply-channel-neither-yields-nor-closes/before-shutdown" } else { "C14/reply-channel-neither-yields-nor-closes/queued-behind-shutdown" },
                        "call #{i} {c:?} returned Ok, but its reply channel holds nothing ({state}) and is not closed: a blocking recv() on it never returns"
                    );
                }
                // queries and searches that were set up before the shutdown end with SearchStopped
                if before {
                    match reply {
                        Reply::Browse(t, cache_only, rx) if !*cache_only => {
                            let _ = (t, rx);
                        }
                        _ => {}
                    }
                }
            }
        }
    }
    if shutdown_reported != 1 {
        fail!("C14/shutdown-reported-not-exactly-once", "{shutdown_reported} shutdown() calls were answered with Shutdown");
    }
    // ---- what the shutdown does for what was open: SearchStopped once, last
    let stopped_in_batch_browse = case.cmds[..p].iter().any(|c| c.0 == Cmd::StopBrowse(2) || c.0 == Cmd::Browse(2) || c.0 == Cmd::BrowseCache(2));
    {
        let (rest, _closed) = drain(&setup_browse);
        let mut v = taken_by_slow_client;
        v.extend(rest);
        let stopped = v.iter().filter(|e| matches!(e, ServiceEvent::SearchStopped(_))).count();
        if !stopped_in_batch_browse && (stopped != 1 || !matches!(v.last(), Some(ServiceEvent::SearchStopped(_)))) {
            fail!("C14/open-browse-not-stopped-by-shutdown", "the browse opened at the start received {stopped} SearchStopped; events: {:?}", v.iter().map(crate::sim::render_service_event).collect::<Vec<_>>());
        }
    }
    let stopped_in_batch_host = case.cmds[..p].iter().any(|c| matches!(c.0, Cmd::StopResolve(1) | Cmd::Resolve(1, _)));
    {
        let (v, _closed) = drain(&setup_host);
        let stopped = v.iter().filter(|e| matches!(e, HostnameResolutionEvent::SearchStopped(_))).count();
        if !stopped_in_batch_host && (stopped != 1 || !matches!(v.last(), Some(HostnameResolutionEvent::SearchStopped(_)))) {
            fail!("C14/open-hostname-search-not-stopped-by-shutdown", "the host name search opened at the start received {stopped} SearchStopped; {} events", v.len());
        }
    }
    // the batch's own browses and searches issued before the shutdown
    for (i, c, r) in &replies {
        if *i >= p {
            continue;
        }
        let later_same = |f: &dyn Fn(&Cmd) -> bool| case.cmds[*i + 1..p].iter().any(|x| f(&x.0));
        match (c, r) {
            (Cmd::Browse(t), Ok(Reply::Browse(_, _, rx))) | (Cmd::BrowseCache(t), Ok(Reply::Browse(_, _, rx))) => {
                if later_same(&|x| matches!(x, Cmd::Browse(t2) | Cmd::BrowseCache(t2) | Cmd::StopBrowse(t2) if t2 % 3 == t % 3)) || matches!(c, Cmd::BrowseCache(_)) {
                    continue;
                }
                // (drained above: look at what was seen then) - re-drain yields nothing; judged through the closed flag instead
                let _ = rx;
            }
            _ => {}
        }
    }
    // ---- goodbye for the announced service (unless it was unregistered before the shutdown)
    let unregistered = case.cmds[..p].iter().any(|c| c.0 == Cmd::Unregister(0));
    let shut_pos = t_first_shutdown_sent.unwrap_or(0);
    let svc_name = Name::from_escaped(&svc_fullname(0));
    let goodbyes = dm.log[shut_pos..]
        .iter()
        .filter(|e| matches!(&e.ev, Ev::Tx(tx) if tx.msg.as_ref().is_some_and(|m| m.is_response() && m.answers.iter().any(|r| r.ttl == 0 && r.rtype == T_PTR && matches!(&r.rdata, RData::Ptr(t) if t.eq_ignore_case(&svc_name))))))
        .count();
    if !unregistered && goodbyes == 0 {
        fail!("C14/no-goodbye-at-shutdown", "the announced service {} was not withdrawn with a goodbye", svc_fullname(0));
    }
    let n_links = case.ifs.iter().map(|i| i.v4 as usize + i.v6 as usize).sum::<usize>();
    if !unregistered && goodbyes > 2 * n_links {
        fail!("C14/goodbye-more-than-once", "{goodbyes} goodbye packets for one service on {n_links} interface/family pairs");
    }
    // nothing is sent after the daemon ended
    if let Some(pos) = dm.log.iter().position(|e| matches!(e.ev, Ev::Exited)) {
        if dm.log[pos..].iter().any(|e| matches!(e.ev, Ev::Tx(_))) {
            fail!("C14/packet-after-exit", "a packet left after the daemon thread ended");
        }
    }
    // ---- final: after Shutdown was received every call on every clone fails, status() says Shutdown
    for (k, c) in case.late.iter().enumerate() {
        let h = &handles[k % 3];
        match (c, issue(h, c, v4)) {
            (Cmd::Status, Ok(Reply::Status(rx))) => {
                let (v, _) = drain(&rx);
                if v != vec![DaemonStatus::Shutdown] {
                    fail!("C14/status-after-shutdown", "status() after the Shutdown status was received yields {v:?}");
                }
            }
            (_, Err(Error::DaemonShutdown)) => {}
            (_, Ok(_)) => fail!("C14/call-accepted-after-shutdown", "{c:?} on clone {} returned Ok after the Shutdown status had been received", k % 3),
            (_, Err(e)) => fail!("C14/wrong-error-after-shutdown", "{c:?} after shutdown fails with {e:?} instead of DaemonShutdown"),
        }
    }
    ctx.class(&format!("shutdown-at-queue-position:{}", p.min(8)));
    ctx.class_if(behind_exit > 0, "calls-queued-behind-shutdown");
    ctx.class_if(case.cmds.iter().filter(|c| c.0 == Cmd::Shutdown).count() > 1, "shutdown-twice");
    ctx.class_if(case.cmds[..p].iter().any(|c| c.1), "loop-iteration-inside-the-batch");
    ctx.class_if(!unregistered, "goodbye-checked");
    ctx.nontrivial(format!("p{} n{} b{} s{}", p.min(8), case.cmds.len().min(10), behind_exit.min(4), case.cmds[..p].iter().filter(|c| c.1).count().min(3)));
    if ctx.want_sample {
        ctx.sample = Some(json!({"cmds": format!("{:?}", case.cmds), "late": format!("{:?}", case.late), "goodbye_packets": goodbyes}));
    }
    w.finish();
}

fn cmd_strategy() -> BoxedStrategy<Cmd> {
    prop_oneof![
        3 => (0u8..3).prop_map(Cmd::Browse),
        1 => (0u8..3).prop_map(Cmd::BrowseCache),
        2 => (0u8..3).prop_map(Cmd::StopBrowse),
        2 => (0u8..2, prop::option::weighted(0.5, prop_oneof![Just(0u64), Just(100), Just(5000)])).prop_map(|(h, t)| Cmd::Resolve(h, t)),
        1 => (0u8..2).prop_map(Cmd::StopResolve),
        2 => (0u8..3).prop_map(Cmd::Register),
        2 => (0u8..3).prop_map(Cmd::Unregister),
        1 => (0u8..2).prop_map(Cmd::Verify),
        1 => Just(Cmd::Monitor),
        2 => Just(Cmd::Metrics),
        2 => Just(Cmd::Status),
        1 => (0u8..3).prop_map(Cmd::SetOpt),
        1 => Just(Cmd::Shutdown),
    ]
    .boxed()
}

pub fn queue_strategy() -> BoxedStrategy<Case> {
    (
        iftable(2),
        prop::collection::vec((cmd_strategy(), prop::bool::weighted(0.25), 0u8..3), 0..10),
        any::<prop::sample::Index>(),
        prop::bool::weighted(0.3),
        0u8..3,
        (prop::collection::vec(cmd_strategy(), 1..5), prop::bool::weighted(0.25)),
    )
        .prop_map(|(ifs, mut cmds, at, step, h, (late, slow_client))| {
            let p = at.index(cmds.len() + 1);
            cmds.insert(p, (Cmd::Shutdown, step, h));
            Case { ifs, cmds, late, slow_client }
        })
        .boxed()
}

/// Exhaustive: the shutdown at every position among 0..=2 other commands of every kind, with a
/// loop iteration after any subset of them.
fn queue_enumerated_count() -> u64 {
    // n = 0: 1 * 2 ; n = 1: 12 * 2 positions * 4 step patterns ; n = 2: 144 * 3 positions * 8
    2 + N_KINDS * 2 * 4 + N_KINDS * N_KINDS * 3 * 8
}

fn queue_enumerated(mut i: u64) -> Case {
    let ifs = vec![IfSpec { v4: true, v6: false }];
    let late = vec![Cmd::Status, Cmd::Browse(0), Cmd::Metrics, Cmd::Shutdown];
    let mk = |others: Vec<Cmd>, p: usize, steps: u64| {
        let mut cmds: Vec<(Cmd, bool, u8)> = others.into_iter().enumerate().map(|(k, c)| (c, false, k as u8 % 3)).collect();
        cmds.insert(p, (Cmd::Shutdown, false, 2));
        for (k, c) in cmds.iter_mut().enumerate() {
            c.1 = steps >> k & 1 == 1;
        }
        Case { ifs: ifs.clone(), cmds, late: late.clone(), slow_client: false }
    };
    if i < 2 {
        return mk(vec![], 0, i);
    }
    i -= 2;
    if i < N_KINDS * 2 * 4 {
        let (k, r) = (i % N_KINDS, i / N_KINDS);
        return mk(vec![kind(k)], (r % 2) as usize, r / 2);
    }
    i -= N_KINDS * 2 * 4;
    let (k1, r) = (i % N_KINDS, i / N_KINDS);
    let (k2, r) = (r % N_KINDS, r / N_KINDS);
    mk(vec![kind(k1), kind(k2)], (r % 3) as usize, r / 3)
}

// ---------------------------------------------------------------------------------------------
// E4: real threads on a real daemon
// ---------------------------------------------------------------------------------------------

#[derive(Clone, Debug, Serialize, Deserialize)]
pub struct ThreadsCase {
    /// per client thread: its calls and a pause (in units of 50 us) before each
    pub clients: Vec<Vec<(Cmd, u8)>>,
    /// when the shutdown is issued, us after the clients started
    pub shutdown_after_us: u32,
    pub second_shutdown: bool,
}

static PORT_SEQ: AtomicUsize = AtomicUsize::new(0);

enum Seen {
    Refused,
    Again,
    OtherError(String),
    Unit,
    Channel { yielded: bool, closed: bool, started_after_shutdown_seen: bool, what: String },
}

pub fn check_threads(case: &ThreadsCase, ctx: &mut CaseCtx) {
    let port = 21000 + (PORT_SEQ.fetch_add(1, Ordering::SeqCst) % 20000) as u16;
    let d = match ServiceDaemon::new_with_port(port) {
        Ok(d) => d,
        Err(e) => {
            ctx.violation("C14/harness/new", e.to_string());
            return;
        }
    };
    let _ = d.set_ip_check_interval(1_000_000);
    if let Some(info) = svc_info(0, true) {
        let _ = d.register(info.enable_addr_auto());
    }
    let setup_browse = d.browse(C14_TYPES[2]);
    std::thread::sleep(Duration::from_millis(5));
    let shutdown_seen = Arc::new(AtomicBool::new(false));
    let done = Arc::new(AtomicUsize::new(0));
    let n_threads = case.clients.len() + 1;
    let t_start = Instant::now();
    let mut joins = Vec::new();
    for (ci, calls) in case.clients.iter().enumerate() {
        let d = d.clone();
        let calls = calls.clone();
        let seen_flag = shutdown_seen.clone();
        let done = done.clone();
        joins.push(std::thread::spawn(move || {
            let mut out: Vec<(Cmd, bool, Result<Reply, Error>)> = Vec::new();
            for (c, pause) in calls {
                let until = Instant::now() + Duration::from_micros(pause as u64 * 50);
                while Instant::now() < until {
                    std::hint::spin_loop();
                }
                if c == Cmd::Shutdown {
                    continue;
                }
                let after = seen_flag.load(Ordering::SeqCst);
                let r = issue(&d, &c, true);
                out.push((c, after, r));
            }
            let _ = ci;
            done.fetch_add(1, Ordering::SeqCst);
            out
        }));
    }
    let shut = {
        let d = d.clone();
        let seen_flag = shutdown_seen.clone();
        let done = done.clone();
        let after = case.shutdown_after_us;
        let second = case.second_shutdown;
        std::thread::spawn(move || {
            let until = Instant::now() + Duration::from_micros(after as u64);
            while Instant::now() < until {
                std::hint::spin_loop();
            }
            let r1 = d.shutdown();
            let r2 = if second { Some(d.shutdown()) } else { None };
            let status = match &r1 {
                Ok(rx) => rx.recv_timeout(Duration::from_secs(8)).ok(),
                Err(_) => None,
            };
            if status == Some(DaemonStatus::Shutdown) {
                seen_flag.store(true, Ordering::SeqCst);
            }
            done.fetch_add(1, Ordering::SeqCst);
            (r1.is_ok(), status, r2)
        })
    };
    // watchdog: no call blocks forever
    let deadline = t_start + Duration::from_secs(25);
    while done.load(Ordering::SeqCst) < n_threads && Instant::now() < deadline {
        std::thread::sleep(Duration::from_millis(2));
    }
    if done.load(Ordering::SeqCst) < n_threads {
        ctx.fatal = true;
        ctx.violation("C14/threads/call-blocked", format!("{} of {} threads had not finished their calls 25 s after the start: a call blocks", n_threads - done.load(Ordering::SeqCst), n_threads));
        return;
    }
    let (shutdown_ok, status, second) = match shut.join() {
        Ok(x) => x,
        Err(_) => {
            ctx.violation("C14/threads/caller-panicked", "the thread calling shutdown() panicked");
            return;
        }
    };
    let mut results: Vec<(usize, Cmd, Seen)> = Vec::new();
    // give replies half a second to arrive, then look at every reply channel once
    std::thread::sleep(Duration::from_millis(if shutdown_ok && status.is_some() { 30 } else { 500 }));
    let mut panicked = false;
    for (ci, j) in joins.into_iter().enumerate() {
        let Ok(out) = j.join() else {
            panicked = true;
            continue;
        };
        for (c, after, r) in out {
            let seen = match r {
                Err(Error::DaemonShutdown) => Seen::Refused,
                Err(Error::Again) => Seen::Again,
                Err(e) => Seen::OtherError(format!("{e:?}")),
                Ok(Reply::Unit) => Seen::Unit,
                Ok(reply) => {
                    let (n, closed, what) = match &reply {
                        Reply::Browse(_, _, rx) => {
                            let (v, c2) = drain(rx);
                            (v.len(), c2, format!("{} events", v.len()))
                        }
                        Reply::Host(_, rx) => {
                            let (v, c2) = drain(rx);
                            (v.len(), c2, format!("{} events", v.len()))
                        }
                        Reply::Unreg(rx) => {
                            let (v, c2) = drain(rx);
                            (v.len(), c2, format!("{v:?}"))
                        }
                        Reply::Mon(rx) => {
                            let (v, c2) = drain(rx);
                            (v.len(), c2, format!("{} events", v.len()))
                        }
                        Reply::Metrics(rx) => {
                            let (v, c2) = drain(rx);
                            (v.len(), c2, format!("{} snapshots", v.len()))
                        }
                        Reply::Status(rx) => {
                            let (v, c2) = drain(rx);
                            (v.len(), c2, format!("{v:?}"))
                        }
                        Reply::Shutdown(rx) => {
                            let (v, c2) = drain(rx);
                            (v.len(), c2, format!("{v:?}"))
                        }
                        Reply::Unit => (1, true, String::new()),
                    };
                    Seen::Channel { yielded: n > 0, closed, started_after_shutdown_seen: after, what }
                }
            };
            // calls that began after the Shutdown status had been received must fail
            if after && !matches!(seen, Seen::Refused) && !matches!((&c, &seen), (Cmd::Status, Seen::Channel { .. })) {
                ctx.violation(
                    "C14/threads/call-accepted-after-shutdown",
                    format!("client {ci}: {c:?} began after another thread had received the Shutdown status and did not fail with DaemonShutdown"),
                );
                return;
            }
            results.push((ci, c, seen));
        }
    }
    if panicked {
        ctx.violation("C14/threads/caller-panicked", "a client thread panicked");
        return;
    }
    if !shutdown_ok || status != Some(DaemonStatus::Shutdown) {
        ctx.violation("C14/threads/shutdown-not-reported", format!("shutdown() returned ok={shutdown_ok}; its channel yielded {status:?} within 8 s"));
        return;
    }
    let mut open_channels = 0;
    let mut refused = 0;
    for (ci, c, seen) in &results {
        match seen {
            Seen::OtherError(e) => {
                ctx.violation("C14/threads/call-failed", format!("client {ci}: {c:?} failed with {e}"));
                return;
            }
            Seen::Refused => refused += 1,
            Seen::Channel { yielded, closed, what, .. } => {
                if !yielded && !closed {
                    open_channels += 1;
                    ctx.violation(
                        "C14/reply-channel-neither-yields-nor-closes/queued-behind-shutdown",
                        format!("client {ci}: {c:?} returned Ok while the shutdown was under way, but its reply channel holds nothing ({what}) and stays open after the daemon has gone: a blocking recv() on it never returns"),
                    );
                    return;
                }
            }
            _ => {}
        }
    }
    if let Some(Ok(rx)) = &second {
        let (v, closed) = drain(rx);
        if v.is_empty() && !closed {
            ctx.violation("C14/reply-channel-neither-yields-nor-closes/queued-behind-shutdown", "a second shutdown() right after the first returned Ok, but its channel neither yields nor closes");
            return;
        }
    }
    // the browse opened before got its SearchStopped
    if let Ok(rx) = &setup_browse {
        let (v, _) = drain(rx);
        let stopped = v.iter().filter(|e| matches!(e, ServiceEvent::SearchStopped(_))).count();
        let replaced = case.clients.iter().flatten().any(|(c, _)| matches!(c, Cmd::Browse(2) | Cmd::BrowseCache(2) | Cmd::StopBrowse(2)));
        if !replaced && stopped != 1 {
            ctx.violation("C14/open-browse-not-stopped-by-shutdown", format!("the browse opened before the run received {stopped} SearchStopped events"));
            return;
        }
    }
    // afterwards every clone fails
    match d.browse(C14_TYPES[0]) {
        Err(Error::DaemonShutdown) => {}
        other => {
            ctx.violation("C14/call-accepted-after-shutdown", format!("browse() after the run: {:?}", other.map(|_| ())));
            return;
        }
    }
    match d.status().map(|rx| rx.recv_timeout(Duration::from_secs(2))) {
        Ok(Ok(DaemonStatus::Shutdown)) => {}
        other => {
            ctx.violation("C14/status-after-shutdown", format!("status() after the run: {other:?}"));
            return;
        }
    }
    let _ = open_channels;
    ctx.class_if(refused > 0, "some-calls-refused");
    ctx.class_if(results.iter().any(|r| matches!(r.2, Seen::Channel { closed: true, yielded: false, .. })), "reply-channel-closed-without-value");
    ctx.class_if(results.iter().any(|r| matches!(r.2, Seen::Channel { yielded: true, .. })), "reply-channel-yielded");
    let overlapped = results.iter().any(|r| matches!(r.2, Seen::Refused)) && results.iter().any(|r| !matches!(r.2, Seen::Refused));
    ctx.class_if(overlapped, "shutdown-in-the-middle-of-the-calls");
    if overlapped {
        ctx.nontrivial(format!("t{} r{}", case.clients.len(), refused.min(6)));
    }
    if ctx.want_sample {
        ctx.sample = Some(json!({"threads": case.clients.len(), "calls": results.len(), "refused": refused, "shutdown_after_us": case.shutdown_after_us}));
    }
}

fn threads_strategy() -> BoxedStrategy<ThreadsCase> {
    (
        prop::collection::vec(prop::collection::vec((prop_oneof![12 => cmd_strategy(), 1 => Just(Cmd::GetOpt)], prop_oneof![3 => Just(0u8), 2 => 0u8..20, 1 => 0u8..200]), 4..40), 2..5),
        prop_oneof![2 => 0u32..300, 3 => 0u32..3000, 1 => 0u32..20000],
        prop::bool::weighted(0.3),
    )
        .prop_map(|(clients, shutdown_after_us, second_shutdown)| ThreadsCase { clients, shutdown_after_us, second_shutdown })
        .boxed()
}

pub fn run(tier: Tier) -> i32 {
    let mut agg = Agg::new("C14", tier);
    agg.assume("queue part: one real daemon in lock-step simulation with an announced service, an open browse and an open host name search; a batch of API calls from three handle clones enters the command queue in order, the daemon runs a loop iteration only where the case says so; the handles stay alive while the reply channels are inspected (a channel that only closes once every clone is dropped counts as open)");
    agg.assume("threads part: a real daemon on a private port with real sockets and 2-4 client threads; real scheduling is not under the harness's control, so a failing case may not reproduce on replay; a thread that has not finished its calls after 25 s counts as blocked");
    let n = queue_enumerated_count();
    run_enumerated(
        &mut agg,
        "queue-positions-exhaustive",
        &format!("the shutdown at every position among 0, 1 or 2 other commands of each of the {N_KINDS} kinds, with a loop iteration after every subset of the queued commands ({n} cases); then status / browse / get_metrics / shutdown on the clones"),
        scale(n),
        &queue_enumerated,
        &check_queue,
    );
    run_regressions::<Case>(&mut agg, "queue-positions", &check_queue);
    run_part(
        &mut agg,
        &Part {
            name: "queue-positions",
            rule: "0-9 commands of 13 kinds (browse, browse_cache, stop_browse, resolve_hostname with/without timeout, stop_resolve_hostname, register, unregister, verify, monitor, get_metrics, status, option setters, further shutdowns) issued from three clones with a shutdown inserted at a generated position and loop iterations after a quarter of the commands, on 1-2 interfaces; in a quarter of the cases the browse opened at the start belongs to a slow client whose channel is full when the batch begins; non-trivial = always (classified by queue position)",
            cases: scale(tier.pick(40_000, 500_000)),
            max_shrink_iters: 500,
            strategy: &queue_strategy,
            check: &check_queue,
        },
    );
    run_part(
        &mut agg,
        &Part {
            name: "real-threads",
            rule: "2-4 client threads issuing 4-39 generated calls each (with generated pauses) on clones of a real daemon while another thread calls shutdown() after a generated delay; non-trivial = some calls were refused and some were not (the shutdown fell among the calls)",
            cases: scale(tier.pick(1_500, 40_000)),
            max_shrink_iters: 0,
            strategy: &threads_strategy,
            check: &check_threads,
        },
    );
    agg.require_class("queue-positions:calls-queued-behind-shutdown", 5_000);
    agg.require_class("queue-positions:loop-iteration-inside-the-batch", 5_000);
    // (depends on real time: the slow client waits 25 ms before it reads; a low floor)
    agg.require_class("queue-positions:slow-client-read-at-most-one-event", 300);
    agg.require_class("real-threads:shutdown-in-the-middle-of-the-calls", 200);
    agg.finish()
}

pub fn replay(file: &std::path::Path) -> i32 {
    if let Some(c) = replay_part::<Case>("C14", "queue-positions", file, 3, &check_queue) {
        return c;
    }
    if let Some(c) = replay_part::<Case>("C14", "queue-positions-exhaustive", file, 3, &check_queue) {
        return c;
    }
    if let Some(c) = replay_part::<ThreadsCase>("C14", "real-threads", file, 20, &check_threads) {
        return c;
    }
    eprintln!("harness error: replay file does not belong to C14");
    2
}
