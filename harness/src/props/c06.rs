//! C06 - queries get exactly the registered records, right values, right link (E3).

use crate::props::responder::*;
use crate::runner::*;

pub fn check(case: &Case, ctx: &mut CaseCtx) {
    let run = match execute(case, 6) {
        Ok(r) => r,
        Err(e) => {
            ctx.violation("C06/harness/spawn", e);
            return;
        }
    };
    ctx.count("sim_steps", run.world.total_steps);
    if let Some(st) = judge("C06", case, &run, ctx) {
        let nq = case.ops.iter().filter(|o| matches!(o, Op::Query(_))).count();
        let state_ops = case.ops.iter().filter(|o| matches!(o, Op::Register { .. } | Op::Unregister { .. } | Op::Conflict { .. })).count();
        ctx.count("queries", nq as u64);
        ctx.count("queries_matching_an_announced_service", st.queries_matching);
        ctx.class_if(st.queries_matching > 0, "query-matches-announced-service");
        ctx.class_if(st.legacy > 0, "legacy-unicast-response");
        ctx.class_if(st.suppressed > 0, "known-answer-suppressed");
        ctx.class_if(st.after_rename > 0, "answer-after-rename");
        ctx.class_if(case.ifs.len() >= 2, ">=2-interfaces");
        ctx.class_if(case.shared_host, "shared-host");
        if st.queries_matching > 0 && state_ops >= 2 {
            ctx.nontrivial(format!(
                "ifs{:?} n{} state{} q{} match{} legacy{} supp{} ren{} shared{}",
                case.ifs.iter().map(|i| (i.v4, i.v6)).collect::<Vec<_>>(),
                case.svcs.len(),
                state_ops.min(8),
                nq.min(8),
                st.queries_matching.min(6),
                st.legacy.min(2),
                st.suppressed.min(2),
                st.after_rename.min(1),
                case.shared_host
            ));
        }
        if ctx.want_sample {
            ctx.sample = Some(sample(case, &run));
        }
    }
    run.world.finish();
}

pub fn run(tier: Tier) -> i32 {
    let mut agg = Agg::new("C06", tier);
    agg.assume("silent simulated network except for the scripted queries and conflicts; daemon woken exactly when it asks; clients drain their channels");
    agg.assume("'announced on interface i' is taken from the wire since the service's most recent register call; services are recognised by a TXT attribute id=<n>");
    agg.assume("left open (may): service-type names differing in letter case, transport family without an in-subnet address of that family, the subtype PTR as additional, address additionals with a direct SRV answer, the other address family as additional, QU questions answered by multicast");
    run_regressions::<Case>(&mut agg, "queries", &check);
    run_part(
        &mut agg,
        &Part {
            name: "queries",
            rule: "register / re-register / unregister / conflict / advance histories over 1-3 services (shared host or not, subtype or not, probing on/off) on 1-3 interfaces with differing subnets, with queries (1-4 questions over type, subtype, meta, instance, original name, host, unknown; PTR/SRV/TXT/A/AAAA/ANY/NSEC/HINFO/CNAME; case variants; known answers; IPv4/IPv6; source port 5353 or not) injected at arbitrary points; \
                   non-trivial = a query with >=1 question matching an announced service in a state reached through >=2 state ops; distinct by (interfaces, services, state ops, queries, matches, legacy, suppression, rename, shared host)",
            cases: scale(tier.pick(25_000, 700_000)),
            max_shrink_iters: 800,
            strategy: &|| case_strategy(0.3, false, 2),
            check: &check,
        },
    );
    agg.require_class("queries:query-matches-announced-service", 3000);
    agg.require_class("queries:legacy-unicast-response", 300);
    agg.require_class("queries:>=2-interfaces", 1000);
    agg.finish()
}

pub fn replay(file: &std::path::Path) -> i32 {
    replay_part::<Case>("C06", "queries", file, 5, &check).unwrap_or_else(|| {
        eprintln!("harness error: replay file does not belong to C06");
        2
    })
}
