//! C02 - every emitted packet parses back to exactly the records that were added (engine E1).

use crate::props::c01;
use crate::refdns::{self, *};
use crate::runner::*;
use mdns_sd::verif::codec::{self, MsgSpec, RDataSpec, RecordSpec};
use proptest::prelude::*;
use serde::{Deserialize, Serialize};
use serde_json::json;

pub const MAX_PACKET: usize = 8972;
const T0: u64 = 1_700_000_000_000;

/// Serializable mirror of the message spec with names as label sequences.
#[derive(Clone, Debug, Serialize, Deserialize)]
pub struct Case {
    pub flags: u16,
    pub questions: Vec<(Vec<String>, u16)>,
    pub answers: Vec<Rec>,
    pub authorities: Vec<Rec>,
    pub additionals: Vec<Rec>,
    /// Whether names are rendered with a trailing dot.
    pub trailing_dot: bool,
}

#[derive(Clone, Debug, Serialize, Deserialize)]
pub struct Rec {
    pub name: Vec<String>,
    pub class: u16,
    pub ttl: u32,
    pub rdata: Rd,
    /// Seconds after creation at which the answer is added "at time" (None = time 0).
    pub at_elapsed_ms: Option<u64>,
}

#[derive(Clone, Debug, Serialize, Deserialize)]
pub enum Rd {
    A([u8; 4]),
    Aaaa([u8; 16]),
    Ptr(Vec<String>),
    Srv(u16, u16, u16, Vec<String>),
    Txt(#[serde(with = "c01::hex_bytes")] Vec<u8>),
}

fn esc(labels: &[String], trailing_dot: bool) -> String {
    let n = Name(labels.iter().map(|l| l.as_bytes().to_vec()).collect());
    let mut s = n.to_escaped();
    // Without the trailing dot the text is only unambiguous when the last label does not
    // itself end in a dot (the crate strips one trailing '.' as the root separator).
    let last_ends_in_dot = labels.last().map(|l| l.ends_with('.')).unwrap_or(true);
    if !trailing_dot && !last_ends_in_dot {
        s.pop();
    }
    s
}

fn name_of(labels: &[String]) -> Name {
    Name(
        labels
            .iter()
            .filter(|l| !l.is_empty())
            .map(|l| l.as_bytes().to_vec())
            .collect(),
    )
}

fn to_spec(c: &Case) -> MsgSpec {
    let rec = |r: &Rec| RecordSpec {
        name: esc(&r.name, c.trailing_dot),
        class: r.class,
        ttl: r.ttl,
        rdata: match &r.rdata {
            Rd::A(b) => RDataSpec::A((*b).into()),
            Rd::Aaaa(b) => RDataSpec::Aaaa((*b).into()),
            Rd::Ptr(n) => RDataSpec::Ptr(esc(n, c.trailing_dot)),
            Rd::Srv(p, w, po, h) => RDataSpec::Srv {
                priority: *p,
                weight: *w,
                port: *po,
                host: esc(h, c.trailing_dot),
            },
            Rd::Txt(t) => RDataSpec::Txt(t.clone()),
        },
        now: r.at_elapsed_ms.map(|e| T0 + e).unwrap_or(0),
    };
    MsgSpec {
        flags: c.flags,
        id: 0x1234,
        questions: c
            .questions
            .iter()
            .map(|(n, t)| (esc(n, c.trailing_dot), *t))
            .collect(),
        answers: c.answers.iter().map(rec).collect(),
        authorities: c.authorities.iter().map(rec).collect(),
        additionals: c.additionals.iter().map(rec).collect(),
    }
}

/// What the reference says a record must look like on the wire.
fn expected_record(r: &Rec, remaining: bool) -> Record {
    let (rtype, rdata) = match &r.rdata {
        Rd::A(b) => (T_A, RData::A((*b).into())),
        Rd::Aaaa(b) => (T_AAAA, RData::Aaaa((*b).into())),
        Rd::Ptr(n) => (T_PTR, RData::Ptr(name_of(n))),
        Rd::Srv(p, w, po, h) => (
            T_SRV,
            RData::Srv {
                priority: *p,
                weight: *w,
                port: *po,
                target: name_of(h),
            },
        ),
        Rd::Txt(t) => (T_TXT, RData::Txt(t.clone())),
    };
    let ttl = match (remaining, r.at_elapsed_ms) {
        (true, Some(e)) => ((r.ttl as u64 * 1000 - e) / 1000) as u32,
        _ => r.ttl,
    };
    Record {
        name: name_of(&r.name),
        rtype,
        class: r.class,
        ttl,
        rdata,
    }
}

/// Smallest size the record can have on the wire (every name compressed to a pointer).
fn min_len(r: &Record) -> usize {
    let rd = match &r.rdata {
        RData::A(_) => 4,
        RData::Aaaa(_) => 16,
        RData::Ptr(n) => n.wire_len().min(2),
        RData::Srv { target, .. } => 6 + target.wire_len().min(2),
        RData::Txt(t) => t.len(),
        _ => 0,
    };
    r.name.wire_len().min(2) + 10 + rd
}

pub fn check(case: &Case, ctx: &mut CaseCtx) {
    mdns_sd::verif::set_thread_clock(Some(T0));
    let spec = to_spec(case);
    let out = std::panic::catch_unwind(|| codec::encode(&spec));
    mdns_sd::verif::set_thread_clock(None);
    let out = match out {
        Ok(Ok(o)) => o,
        Ok(Err(e)) => {
            ctx.violation("C02/harness/spec-rejected", e);
            return;
        }
        Err(_) => {
            let msg = mdns_sd::verif::take_last_panic().unwrap_or_default();
            let loc = msg.split(": ").next().unwrap_or("").to_string();
            ctx.violation(format!("C02/panic/{loc}"), format!("encoder panicked: {msg}"));
            return;
        }
    };
    let is_response = case.flags & QR != 0;
    let q_bytes: usize = case
        .questions
        .iter()
        .map(|(n, _)| name_of(n).wire_len() + 4)
        .sum();
    let questions_overflow = 12 + q_bytes > MAX_PACKET;
    ctx.class_if(questions_overflow, "questions-alone-exceed-packet");

    // Expected entries per section.
    let exp_q: Vec<Question> = case
        .questions
        .iter()
        .map(|(n, t)| Question {
            name: name_of(n),
            qtype: *t,
            qclass: 1,
        })
        .collect();
    let mut exp_an: Vec<Record> = Vec::new();
    for (r, accepted) in case.answers.iter().zip(out.answer_accepted.iter()) {
        let expired = r
            .at_elapsed_ms
            .map(|e| e >= r.ttl as u64 * 1000)
            .unwrap_or(false);
        if expired != !*accepted {
            ctx.violation(
                "C02/answer-at-time/expired-filter",
                format!("answer {r:?}: expired={expired} accepted={accepted}"),
            );
            return;
        }
        if *accepted {
            exp_an.push(expected_record(r, true));
        }
    }
    let exp_ns: Vec<Record> = case.authorities.iter().map(|r| expected_record(r, false)).collect();
    let exp_ar: Vec<Record> = case.additionals.iter().map(|r| expected_record(r, false)).collect();

    // Parse every packet with the reference decoder.
    let mut got_q: Vec<Question> = Vec::new();
    // (record, packet index, end offset in that packet)
    let mut got: [Vec<(Record, usize, usize)>; 3] = [Vec::new(), Vec::new(), Vec::new()];
    let mut q_end = 12usize;
    let npk = out.packets.len();
    let mut any_compression = false;
    for (pi, p) in out.packets.iter().enumerate() {
        if p.len() > MAX_PACKET {
            let sig = if questions_overflow {
                "C02/size/packet-exceeds-8972/questions-unchecked"
            } else {
                "C02/size/packet-exceeds-8972"
            };
            ctx.violation(sig, format!("packet {pi} has {} bytes", p.len()));
            // Nothing behind an over-sized question section is judged (offsets beyond the
            // packet limit, 14-bit pointer overflow): excluded together with the finding.
            return;
        }
        let (m, info) = match refdns::decode_opt(p, true) {
            Ok(x) => x,
            Err(e) => {
                ctx.violation(
                    format!("C02/parse/reference-rejects/{e:?}"),
                    format!("packet {pi} of {npk} ({} bytes) does not parse: {e:?}", p.len()),
                );
                return;
            }
        };
        if info.consumed != p.len() {
            ctx.violation(
                "C02/parse/trailing-bytes-or-count-mismatch",
                format!(
                    "packet {pi}: header counts {:?} describe {} bytes, packet has {}",
                    info.counts,
                    info.consumed,
                    p.len()
                ),
            );
            return;
        }
        if info.forward_pointer || info.header_pointer {
            ctx.violation(
                "C02/parse/pointer-not-backward",
                format!("packet {pi} contains a compression pointer that does not point to prior data"),
            );
            return;
        }
        any_compression |= info.pointers > 0;
        let tc = m.flags & TC != 0;
        if (pi + 1 < npk) != tc {
            ctx.violation(
                "C02/tc-bit",
                format!("packet {pi} of {npk}: TC={tc}"),
            );
        }
        if m.flags & !TC != case.flags & !TC {
            ctx.violation("C02/flags", format!("flags {:#x} vs {:#x}", m.flags, case.flags));
        }
        // crate's own decoder must read the same content
        match codec::decode(p, "eth0", 2) {
            Err(e) => {
                // The crate's decoder legitimately refuses question types it does not know.
                ctx.violation(
                    "C02/self-decode/rejected",
                    format!("crate decoder rejects the crate's own packet {pi}: {e}"),
                );
                return;
            }
            Ok(view) => {
                let before = ctx.violations.len();
                if view.questions.len() != m.questions.len() {
                    ctx.violation("C02/self-decode/question-count", String::new());
                }
                c01::compare_section("answers", &view.answers, &m.answers, is_response, p.len(), ctx);
                c01::compare_section("authorities", &view.authorities, &m.authorities, is_response, p.len(), ctx);
                c01::compare_section("additionals", &view.additionals, &m.additionals, is_response, p.len(), ctx);
                for v in ctx.violations[before..].iter_mut() {
                    v.signature = v.signature.replace("C01/differential", "C02/self-decode");
                }
                if ctx.violations.len() > before {
                    return;
                }
            }
        }
        let mut k = 0;
        for q in m.questions {
            got_q.push(q);
            q_end = info.ends[k];
            k += 1;
        }
        for (si, sec) in [m.answers, m.authorities, m.additionals].into_iter().enumerate() {
            for r in sec {
                got[si].push((r, pi, info.ends[k]));
                k += 1;
            }
        }
    }
    if got_q != exp_q {
        ctx.violation(
            "C02/roundtrip/questions",
            format!("questions read back differ: got {} expected {}", got_q.len(), exp_q.len()),
        );
        return;
    }
    // Subsequence match per section, with justification of every omission: entries are
    // written in wire order, so a missing record would have started at the end of the last
    // entry written before it (in the packet being filled at that moment).
    let secs = [("answers", &exp_an), ("authorities", &exp_ns), ("additionals", &exp_ar)];
    let mut dropped_any = false;
    let mut rollback_then_more = false;
    let mut cur_packet = 0usize;
    let mut cur_end = q_end;
    for (si, (sname, exp)) in secs.iter().enumerate() {
        let g = &got[si];
        let mut gi = 0;
        let mut dropped_in_section = false;
        for e in exp.iter() {
            if gi < g.len() && &g[gi].0 == e {
                if dropped_any {
                    rollback_then_more = true;
                }
                if g[gi].1 != cur_packet {
                    cur_packet = g[gi].1;
                }
                cur_end = g[gi].2;
                gi += 1;
                continue;
            }
            dropped_any = true;
            let need = refdns::record_uncompressed_len(e);
            let packet_closed = dropped_in_section && is_response && si == 2;
            if cur_end + need <= MAX_PACKET && !packet_closed && !questions_overflow {
                ctx.violation(
                    format!("C02/roundtrip/{sname}/record-missing-though-it-fits"),
                    format!(
                        "record {} would start at offset {cur_end} of packet {cur_packet} and needs at most {need} bytes, but it is missing",
                        refdns::render_record(e).chars().take(200).collect::<String>()
                    ),
                );
                return;
            }
            dropped_in_section = true;
        }
        if gi != g.len() {
            // something was read back that is not (in order) among what was added
            let r = &g[gi].0;
            let added_elsewhere = exp.iter().any(|e| e == r);
            ctx.violation(
                if added_elsewhere {
                    format!("C02/roundtrip/{sname}/order-or-duplicate")
                } else {
                    format!("C02/roundtrip/{sname}/record-not-added/{}", refdns::type_name(r.rtype))
                },
                format!(
                    "packet {} carries in {sname}: {}\nwhich is not what was added at this position; records added to this section: {}",
                    g[gi].1,
                    refdns::render_record(r).chars().take(300).collect::<String>(),
                    exp.iter()
                        .take(6)
                        .map(|e| refdns::render_record(e).chars().take(200).collect::<String>())
                        .collect::<Vec<_>>()
                        .join(" | ")
                ),
            );
            return;
        }
    }
    // Exact accounting of omissions: total size check. If nothing was dropped, every packet
    // but the last must be full enough that the next record did not fit - not demanded.
    // If the uncompressed total fits in one packet nothing may be dropped at all.
    let total_uncompressed: usize = 12
        + q_bytes
        + exp_an.iter().chain(exp_ns.iter()).chain(exp_ar.iter()).map(refdns::record_uncompressed_len).sum::<usize>();
    if dropped_any && total_uncompressed <= MAX_PACKET {
        ctx.violation(
            "C02/roundtrip/record-missing-though-everything-fits",
            format!("whole message needs at most {total_uncompressed} bytes uncompressed, yet records are missing"),
        );
        return;
    }
    if npk > 1 && total_uncompressed <= MAX_PACKET {
        ctx.violation("C02/split-without-need", format!("{npk} packets for {total_uncompressed} bytes"));
    }

    // classification / non-triviality
    let all_names: Vec<&Vec<String>> = case
        .questions
        .iter()
        .map(|(n, _)| n)
        .chain(case.answers.iter().chain(&case.authorities).chain(&case.additionals).map(|r| &r.name))
        .collect();
    let escaped = all_names
        .iter()
        .any(|n| n.iter().any(|l| l.contains('.') || l.contains('\\')));
    let overflow = dropped_any || npk > 1;
    ctx.class_if(any_compression, "compression-used");
    ctx.class_if(escaped, "escaped-label");
    ctx.class_if(overflow, "overflow");
    ctx.class_if(rollback_then_more, "record-written-after-a-rollback");
    ctx.class_if(npk > 1, "multi-packet");
    ctx.class_if(case.answers.iter().any(|r| r.at_elapsed_ms.is_some()), "answer-at-time");
    if any_compression || escaped || overflow {
        ctx.nontrivial(format!(
            "q{} an{} ns{} ar{} comp{} esc{} ovf{} rb{} pk{} resp{}",
            case.questions.len().min(4),
            exp_an.len().min(6),
            exp_ns.len().min(4),
            exp_ar.len().min(6),
            any_compression,
            escaped,
            overflow,
            rollback_then_more,
            npk.min(4),
            is_response
        ));
    }
    if ctx.want_sample {
        ctx.sample = Some(json!({
            "flags": case.flags,
            "questions": case.questions.iter().take(3).map(|(n,t)| format!("{} {}", esc(n,true), refdns::type_name(*t))).collect::<Vec<_>>(),
            "records_added": [exp_an.len(), exp_ns.len(), exp_ar.len()],
            "first_records": exp_an.iter().chain(exp_ns.iter()).chain(exp_ar.iter()).take(3).map(|r| refdns::render_record(r).chars().take(120).collect::<String>()).collect::<Vec<_>>(),
            "packets": out.packets.iter().map(|p| p.len()).collect::<Vec<_>>(),
            "records_read_back": [got[0].len(), got[1].len(), got[2].len()],
        }));
    }
}

// ---------------------------------------------------------------------------------------------
// Generators
// ---------------------------------------------------------------------------------------------

fn clip_label(s: String) -> String {
    let mut b = s.into_bytes();
    b.truncate(63);
    while std::str::from_utf8(&b).is_err() {
        b.pop();
    }
    if b.is_empty() {
        b.push(b'x');
    }
    String::from_utf8(b).unwrap()
}

const POOL: [&str; 22] = [
    "local", "_tcp", "_udp", "_http", "_sub", "a", "b", "a.b", "a\\", "a\\.b", "b.local", ".", "\\",
    "\\.", "host", "Host", "My Service", "x (2)", "h-2", "é", "中中", "a.b.local",
];

fn label() -> BoxedStrategy<String> {
    prop_oneof![
        10 => proptest::sample::select(POOL.to_vec()).prop_map(|s| s.to_string()),
        2 => "[a-z_][a-z0-9-]{0,8}",
        2 => "[a-c.\\\\]{1,5}",
        2 => "[A-Za-z0-9 .\\\\()é中😀_-]{1,24}".prop_map(clip_label),
        1 => "\\PC{1,40}".prop_map(clip_label),
        1 => "[a-z]{63}",
        1 => "[é中]{30}".prop_map(clip_label),
    ]
    .boxed()
}

fn name() -> BoxedStrategy<Vec<String>> {
    proptest::collection::vec(label(), 0..5)
        .prop_map(|mut labels| {
            // keep the name a valid DNS name: at most 255 octets on the wire
            while labels.iter().map(|l| l.len() + 1).sum::<usize>() + 1 > 255 {
                labels.pop();
            }
            labels
        })
        .boxed()
}

fn record(txt_max: usize) -> BoxedStrategy<Rec> {
    let rd = prop_oneof![
        2 => any::<[u8; 4]>().prop_map(Rd::A),
        1 => any::<[u8; 16]>().prop_map(Rd::Aaaa),
        3 => name().prop_map(Rd::Ptr),
        3 => (any::<u16>(), any::<u16>(), any::<u16>(), name()).prop_map(|(a, b, c, d)| Rd::Srv(a, b, c, d)),
        3 => proptest::collection::vec(any::<u8>(), 0..=txt_max).prop_map(Rd::Txt),
    ];
    (
        name(),
        prop_oneof![Just(1u16), Just(0x8001u16), Just(0x8003u16), Just(255u16)],
        prop_oneof![Just(0u32), Just(1), Just(120), Just(4500), Just(1 << 31), Just(u32::MAX), any::<u32>()],
        rd,
        proptest::option::weighted(0.25, prop_oneof![Just(1u64), Just(999), Just(1000), 0u64..10_000_000]),
    )
        .prop_map(|(name, class, ttl, rdata, at)| Rec {
            name,
            class,
            ttl,
            rdata,
            at_elapsed_ms: at,
        })
        .boxed()
}

type Sections = (Vec<(Vec<String>, u16)>, Vec<Rec>, Vec<Rec>, Vec<Rec>);

fn sections(qn: usize, an: usize, nn: usize, rn: usize, txt: usize) -> BoxedStrategy<Sections> {
    let qtypes = prop_oneof![
        Just(T_PTR), Just(T_SRV), Just(T_TXT), Just(T_A), Just(T_AAAA), Just(T_ANY), Just(T_NSEC), Just(T_HINFO), Just(T_CNAME)
    ];
    (
        proptest::collection::vec((name(), qtypes), 0..=qn),
        proptest::collection::vec(record(txt), 0..=an),
        proptest::collection::vec(record(txt), 0..=nn),
        proptest::collection::vec(record(txt), 0..=rn),
    )
        .boxed()
}

pub fn strategy() -> BoxedStrategy<Case> {
    // size classes: small (most), medium, big (overflow)
    let secs = prop_oneof![
        6 => sections(4, 6, 3, 6, 60),
        2 => sections(30, 40, 6, 40, 300),
        2 => sections(3, 60, 4, 60, 1500),
        1 => sections(2, 12, 3, 12, 9000),
        1 => sections(30, 400, 8, 400, 40),
        1 => sections(900, 3, 1, 3, 40),
    ];
    (
        prop_oneof![3 => Just(0u16), 3 => Just(0x8400u16), 1 => Just(0x8000u16), 1 => Just(0x0100u16)],
        secs,
        proptest::bool::weighted(0.8),
    )
        .prop_map(|(flags, (questions, answers, mut authorities, mut additionals), trailing_dot)| {
            for r in authorities.iter_mut().chain(additionals.iter_mut()) {
                r.at_elapsed_ms = None;
            }
            Case {
                flags,
                questions,
                answers,
                authorities,
                additionals,
                trailing_dot,
            }
        })
        .boxed()
}

pub fn run(tier: Tier) -> i32 {
    let mut agg = Agg::new("C02", tier);
    agg.assume("reference decoder/size model refdns (harness/src/refdns.rs) is correct");
    agg.assume("generated names are valid DNS names (<= 255 octets, labels 1..=63 bytes of UTF-8); question class is IN as the encoder API fixes it");
    agg.assume("an omitted record is accepted when the message as a whole does not fit one packet uncompressed, except for the first answer, whose start offset is known exactly");
    run_regressions::<Case>(&mut agg, "messages", &check);
    run_part(
        &mut agg,
        &Part {
            name: "messages",
            rule: "message specs (questions + PTR/SRV/TXT/A/AAAA records in all sections) over label pools with shared suffixes and near-collisions, \
                   sizes from empty to several packets; non-trivial = compression pointer emitted, or a label needing RFC 6763 escaping, or overflow of a packet; \
                   distinct = distinct (section sizes, compression, escaping, overflow, rollback-then-more, packets, query/response)",
            cases: scale(tier.pick(150_000, 4_000_000)),
            max_shrink_iters: 3000,
            strategy: &strategy,
            check: &check,
        },
    );
    agg.require_class("messages:compression-used", 1000);
    agg.require_class("messages:escaped-label", 1000);
    agg.require_class("messages:overflow", 200);
    agg.require_class("messages:record-written-after-a-rollback", 50);
    agg.finish()
}

pub fn replay(file: &std::path::Path) -> i32 {
    replay_part::<Case>("C02", "messages", file, 1, &check).unwrap_or_else(|| {
        eprintln!("harness error: replay file does not belong to C02");
        2
    })
}
