//! C13 - stopping a search really stops it, and each channel follows its protocol (E3).

use crate::gen::*;
use crate::refdns::*;
use crate::runner::*;
use crate::sim::wire;
use crate::sim::{peer, *};
use mdns_sd::{HostnameResolutionEvent, ServiceEvent};
use proptest::prelude::*;
use serde::{Deserialize, Serialize};
use serde_json::json;
use std::net::{IpAddr, SocketAddr};

pub const HOSTNAMES: [&str; 3] = ["alpha.local.", "Beta-Host.local.", "GAMMA.local."];

#[derive(Clone, Debug, Serialize, Deserialize)]
pub enum Op {
    Browse { ty: usize },
    BrowseCache { ty: usize },
    StopBrowse { ty: usize },
    Resolve { host: usize, case_var: u8, timeout_ms: Option<u64> },
    StopResolve { host: usize, case_var: u8 },
    /// A responder announces instance `inst` of type `ty` (full record set).
    Announce {
        ty: usize,
        inst: usize,
        ttl: u32,
        /// 0 = full record set, 1 = PTR and TXT only, 2 = PTR and SRV only, 3 = PTR only
        #[serde(default)]
        part: u8,
    },
    Goodbye { ty: usize, inst: usize },
    /// A responder answers for a host name with an address.
    HostAddr { host: usize, case_var: u8, ttl: u32 },
    Advance { ms: u64 },
    Shutdown,
}

#[derive(Clone, Debug, Serialize, Deserialize)]
pub struct Case {
    pub ifs: Vec<IfSpec>,
    pub ops: Vec<Op>,
    /// observation after the last op (ms)
    pub tail_ms: u64,
    pub accept_unsolicited: bool,
}

/// The browsable types of this check: index 3 is a subtype of type 0 (the other checks that share
/// this interpreter use indices 0..3 only).
pub const TYPES: [&str; 4] = [crate::gen::TYPES[0], crate::gen::TYPES[1], crate::gen::TYPES[2], "_printer._sub._http._tcp.local."];

/// What a responder sends for instance `inst` of type `ty`.
pub fn announcement_of(ty: usize, inst: usize, host_ttl: u32, other_ttl: u32) -> Vec<Record> {
    let s = svc(ty, inst);
    let mut recs = s.announcement(host_ttl, other_ttl);
    if ty % TYPES.len() == 3 {
        recs.retain(|r| !(r.rtype == T_PTR && r.name == s.ty));
    }
    recs
}

pub fn svc(ty: usize, inst: usize) -> peer::Svc {
    if ty % TYPES.len() == 3 {
        // instances of their own, announced the way a subtype PTR question is answered: with the
        // subtype PTR (no PTR of the base type)
        return peer::Svc {
            ty: Name::from_escaped(TYPES[0]),
            sub: Some(b"_printer".to_vec()),
            inst: format!("sinst{inst}").into_bytes(),
            host: Name::from_escaped(&format!("svchost{inst}.local.")),
            port: 90 + inst as u16,
            txt: vec![0],
            addrs: vec![IpAddr::V4(subnet_v4(0, 100 + inst as u8))],
        };
    }
    peer::Svc {
        ty: Name::from_escaped(TYPES[ty % TYPES.len()]),
        sub: None,
        inst: format!("inst{inst}").into_bytes(),
        host: Name::from_escaped(&format!("svchost{inst}.local.")),
        port: 80 + inst as u16,
        txt: vec![0],
        addrs: vec![IpAddr::V4(subnet_v4(0, 100 + inst as u8))],
    }
}

fn src_for(ifs: &[IfSpec], k: usize, h: u8) -> SocketAddr {
    if ifs[k].v4 {
        SocketAddr::new(IpAddr::V4(subnet_v4(k, h)), MDNS_PORT)
    } else {
        SocketAddr::new(IpAddr::V6(subnet_v6(k, h as u16)), MDNS_PORT)
    }
}

#[derive(Clone, Debug)]
pub enum ChanKind {
    Browse { ty: usize, cache_only: bool },
    Host { host: usize },
}

#[derive(Clone, Debug)]
pub struct ChanInfo {
    pub kind: ChanKind,
    /// log position at which the call was made
    pub opened: usize,
    /// log position (before the call) of the stop that ended it, and why
    pub stopped: Option<(usize, &'static str)>,
    /// replaced by a later search on the same key (log position)
    pub replaced: Option<usize>,
    /// time at which a timeout ends it
    pub timeout_at: Option<u64>,
}

pub struct Run {
    pub world: World,
    pub di: usize,
    pub browse_chans: Vec<ChanInfo>,
    pub host_chans: Vec<ChanInfo>,
    pub shutdown_pos: Option<usize>,
    pub end_of_ops_pos: usize,
    /// get_metrics() at the end of the history (not after a shutdown)
    pub final_metrics: Option<std::collections::HashMap<String, i64>>,
}

pub fn execute(case: &Case, seed: u64) -> Result<Run, String> {
    let mut d = SimDaemon::new("D", sim_ifs(&case.ifs), T0, seed)?;
    // keep the interface poll out of long observations
    let _ = d.d.set_ip_check_interval(1_000_000);
    if case.accept_unsolicited {
        let _ = d.d.accept_unsolicited(true);
    }
    d.dirty = true;
    let mut w = World::new(T0);
    let di = w.add(d);
    w.settle();
    let mut browse_chans: Vec<ChanInfo> = Vec::new();
    let mut host_chans: Vec<ChanInfo> = Vec::new();
    let mut shutdown_pos = None;
    for op in &case.ops {
        if shutdown_pos.is_some() {
            break;
        }
        w.settle();
        let now = w.now;
        let dm = &mut w.daemons[di];
        dm.set_now(now);
        let pos = dm.log.len();
        match op {
            Op::Browse { ty } | Op::BrowseCache { ty } => {
                let cache_only = matches!(op, Op::BrowseCache { .. });
                let t = TYPES[*ty % TYPES.len()];
                let r = if cache_only { dm.browse_cache(t) } else { dm.browse(t) };
                if r.is_ok() {
                    if !cache_only {
                        // the new search takes over from any running search of that type
                        for c in browse_chans.iter_mut() {
                            if let ChanKind::Browse { ty: t2, cache_only: false } = c.kind {
                                if t2 % TYPES.len() == *ty % TYPES.len() && c.stopped.is_none() && c.replaced.is_none() {
                                    c.replaced = Some(pos);
                                }
                            }
                        }
                    } else {
                        // a cache-only browse registers the listener too (it keeps reporting)
                        for c in browse_chans.iter_mut() {
                            if let ChanKind::Browse { ty: t2, .. } = c.kind {
                                if t2 % TYPES.len() == *ty % TYPES.len() && c.stopped.is_none() && c.replaced.is_none() {
                                    c.replaced = Some(pos);
                                }
                            }
                        }
                    }
                    browse_chans.push(ChanInfo {
                        kind: ChanKind::Browse { ty: *ty % TYPES.len(), cache_only },
                        opened: pos,
                        stopped: None,
                        replaced: None,
                        timeout_at: None,
                    });
                }
            }
            Op::StopBrowse { ty } => {
                let t = TYPES[*ty % TYPES.len()];
                if dm.stop_browse(t).is_ok() {
                    for c in browse_chans.iter_mut() {
                        if let ChanKind::Browse { ty: t2, .. } = c.kind {
                            if t2 == *ty % TYPES.len() && c.stopped.is_none() {
                                c.stopped = Some((pos, "stop_browse"));
                            }
                        }
                    }
                }
            }
            Op::Resolve { host, case_var, timeout_ms } => {
                let h = case_variant(HOSTNAMES[*host % HOSTNAMES.len()], *case_var);
                // Two searches for one host name at the same time are left out: the statement
                // does not say how they relate (which timeout counts, who gets SearchStopped).
                let open = host_chans.iter().any(|c| {
                    matches!(c.kind, ChanKind::Host { host: h2 } if h2 == *host % HOSTNAMES.len())
                        && c.stopped.is_none()
                        && c.timeout_at.is_none_or(|t| t > now)
                });
                if open {
                    continue;
                }
                if dm.resolve_hostname(&h, *timeout_ms).is_ok() {
                    for c in host_chans.iter_mut() {
                        if let ChanKind::Host { host: h2 } = c.kind {
                            if h2 == *host % HOSTNAMES.len() && c.stopped.is_none() && c.replaced.is_none() {
                                c.replaced = Some(pos);
                            }
                        }
                    }
                    host_chans.push(ChanInfo {
                        kind: ChanKind::Host { host: *host % HOSTNAMES.len() },
                        opened: pos,
                        stopped: None,
                        replaced: None,
                        timeout_at: timeout_ms.map(|t| now + t),
                    });
                }
            }
            Op::StopResolve { host, case_var } => {
                let h = case_variant(HOSTNAMES[*host % HOSTNAMES.len()], *case_var);
                if dm.stop_resolve_hostname(&h).is_ok() {
                    for c in host_chans.iter_mut() {
                        if let ChanKind::Host { host: h2 } = c.kind {
                            let timed_out = c.timeout_at.is_some_and(|t| t <= now);
                            if h2 == *host % HOSTNAMES.len() && c.stopped.is_none() && !timed_out {
                                c.stopped = Some((pos, "stop_resolve_hostname"));
                            }
                        }
                    }
                }
            }
            Op::Announce { ty, inst, ttl, part } => {
                let other = (*ttl).max(2);
                let mut recs = announcement_of(*ty, *inst, (*ttl).clamp(2, 120), other);
                match part {
                    1 => recs.retain(|r| r.rtype == T_PTR || r.rtype == T_TXT),
                    2 => recs.retain(|r| r.rtype == T_PTR || r.rtype == T_SRV),
                    3 => recs.retain(|r| r.rtype == T_PTR),
                    _ => {}
                }
                let bytes = peer::response(recs, vec![]);
                dm.inject(if_index(0), src_for(&case.ifs, 0, 100 + *inst as u8), bytes);
            }
            Op::Goodbye { ty, inst } => {
                let bytes = peer::response(announcement_of(*ty, *inst, 0, 0), vec![]);
                dm.inject(if_index(0), src_for(&case.ifs, 0, 100 + *inst as u8), bytes);
            }
            Op::HostAddr { host, case_var, ttl } => {
                let name = Name::from_escaped(&case_variant(HOSTNAMES[*host % HOSTNAMES.len()], *case_var));
                let a = if case.ifs[0].v4 {
                    IpAddr::V4(subnet_v4(0, 150 + *host as u8))
                } else {
                    IpAddr::V6(subnet_v6(0, 150 + *host as u16))
                };
                let bytes = peer::response(vec![peer::addr_rec(&name, a, *ttl, true)], vec![]);
                dm.inject(if_index(0), src_for(&case.ifs, 0, 150 + *host as u8), bytes);
            }
            Op::Advance { ms } => {
                w.advance(*ms);
            }
            Op::Shutdown => {
                if dm.shutdown().is_ok() {
                    shutdown_pos = Some(pos);
                }
            }
        }
        w.settle();
    }
    let end_of_ops_pos = w.daemons[di].log.len();
    w.advance(case.tail_ms);
    let final_metrics = if shutdown_pos.is_none() {
        let now = w.now;
        w.daemons[di].set_now(now);
        w.daemons[di].metrics()
    } else {
        None
    };
    Ok(Run {
        world: w,
        di,
        browse_chans,
        host_chans,
        shutdown_pos,
        end_of_ops_pos,
        final_metrics,
    })
}

pub fn check(case: &Case, ctx: &mut CaseCtx) {
    let run = match execute(case, 13) {
        Ok(r) => r,
        Err(e) => {
            ctx.violation("C13/harness/spawn", e);
            return;
        }
    };
    ctx.count("sim_steps", run.world.total_steps);
    judge(case, &run, ctx);
    run.world.finish();
}

fn judge(case: &Case, run: &Run, ctx: &mut CaseCtx) {
    let d = &run.world.daemons[run.di];
    macro_rules! fail {
        ($sig:expr, $($arg:tt)*) => {{
            ctx.violation($sig.to_string(), format!("{}\n--- ops ---\n{}\n--- history ---\n{}", format!($($arg)*),
                case.ops.iter().map(|o| format!("{o:?}")).collect::<Vec<_>>().join("; "), render_log(&d.log, true, 70)));
            return;
        }};
    }
    if let Some(m) = &d.dead {
        fail!(format!("C13/daemon-died/{}", m.split(": ").next().unwrap_or("")), "daemon died: {m}");
    }
    if run.world.budget_exhausted {
        fail!("C13/harness/step-budget", "simulation step budget exhausted");
    }
    let sent = match wire::index(&d.log) {
        Ok(s) => s,
        Err(pos) => fail!("C13/wire/unparsable-packet", "packet at log position {pos} is rejected by the reference decoder"),
    };
    let mut stop_with_pending_retransmission = false;
    // ---- browse channels
    for (ci, c) in run.browse_chans.iter().enumerate() {
        let ChanKind::Browse { ty, cache_only } = c.kind else { continue };
        let tyname = TYPES[ty];
        let evs: Vec<(usize, u64, &ServiceEvent)> = d
            .log
            .iter()
            .enumerate()
            .filter_map(|(p, e)| match &e.ev {
                Ev::Svc { chan, ev } if *chan == ci => Some((p, e.t, ev)),
                _ => None,
            })
            .collect();
        let label = format!("browse#{ci} ({}{tyname})", if cache_only { "cache-only " } else { "" });
        if let Some((_, _, first)) = evs.first() {
            if !matches!(first, ServiceEvent::SearchStarted(_)) {
                fail!("C13/channel/first-event-not-SearchStarted", "{label}: first event is {}", render_service_event(first));
            }
        } else if run.shutdown_pos.is_none_or(|sp| sp > c.opened) && c.stopped.is_none_or(|s| s.0 > c.opened) {
            fail!("C13/channel/no-events-at-all", "{label}: nothing was ever delivered");
        }
        // Found before Resolved
        let mut found: Vec<String> = Vec::new();
        for (_, t, ev) in &evs {
            match ev {
                ServiceEvent::ServiceFound(_, n) => found.push(n.to_lowercase()),
                ServiceEvent::ServiceResolved(r) => {
                    if !found.contains(&r.fullname.to_lowercase()) {
                        fail!("C13/channel/resolved-before-found", "{label}: ServiceResolved({}) at +{} ms without an earlier ServiceFound", r.fullname, t - T0);
                    }
                }
                _ => {}
            }
        }
        if cache_only {
            // must end its immediate report with SearchStopped; never sends a query: see wire check
            if !evs.iter().any(|(_, _, e)| matches!(e, ServiceEvent::SearchStopped(_))) {
                fail!("C13/channel/cache-only-without-SearchStopped", "{label}: no SearchStopped");
            }
            continue;
        }
        // end of the search
        let end: Option<(usize, &'static str)> = match (c.stopped, run.shutdown_pos) {
            (Some(s), Some(sp)) if sp < s.0 => Some((sp, "shutdown")),
            (Some(s), _) => Some(s),
            (None, Some(sp)) => Some((sp, "shutdown")),
            (None, None) => None,
        };
        let stops: Vec<&(usize, u64, &ServiceEvent)> = evs.iter().filter(|(_, _, e)| matches!(e, ServiceEvent::SearchStopped(_))).collect();
        match end {
            None => {
                if let Some((_, t, _)) = stops.first() {
                    if c.replaced.is_none() {
                        fail!("C13/channel/SearchStopped-without-stop", "{label}: SearchStopped at +{} ms although the search was never stopped", t - T0);
                    }
                }
            }
            Some((pos, why)) => {
                let replaced_before = c.replaced.is_some_and(|r| r < pos);
                if !replaced_before {
                    if stops.is_empty() {
                        fail!(format!("C13/channel/no-SearchStopped/{why}"), "{label}: ended by {why} but no SearchStopped was delivered");
                    }
                    if stops.len() > 1 {
                        fail!(format!("C13/channel/SearchStopped-twice/{why}"), "{label}: {} SearchStopped events", stops.len());
                    }
                    if let Some((p, t, e)) = evs.iter().find(|(p, _, _)| *p > stops[0].0) {
                        let _ = p;
                        fail!(format!("C13/channel/event-after-SearchStopped/{why}"), "{label}: {} at +{} ms after SearchStopped", render_service_event(e), t - T0);
                    }
                } else if let Some((_, t, e)) = evs.iter().find(|(p, _, _)| *p > pos && stops.first().is_none_or(|s| *p > s.0)) {
                    // a replaced channel: nothing may arrive after the type was stopped
                    fail!(format!("C13/channel/event-on-replaced-channel-after-stop/{why}"), "{label}: {} at +{} ms", render_service_event(e), t - T0);
                }
            }
        }
    }
    // ---- wire: follow-up queries for the instances of a type only while some querying browse of
    //      that type, or of a subtype / the base type of it, is open (types 0 and 3 share their
    //      instances' name space)
    for group in [vec![0usize, 3], vec![1usize]] {
        let base = Name::from_escaped(TYPES[group[0]]);
        let mut intervals: Vec<(usize, usize)> = Vec::new();
        let mut any_stop = false;
        for c in &run.browse_chans {
            let ChanKind::Browse { ty: t2, cache_only } = c.kind else { continue };
            if !group.contains(&t2) || cache_only {
                continue;
            }
            let mut end = usize::MAX;
            if let Some(s) = c.stopped {
                end = end.min(s.0);
                any_stop = true;
            }
            if let Some(sp) = run.shutdown_pos {
                end = end.min(sp);
            }
            if let Some(rp) = c.replaced {
                end = end.min(rp);
            }
            intervals.push((c.opened, end));
        }
        if !any_stop {
            continue;
        }
        for p in sent.iter().filter(|p| !p.m.is_response()) {
            for q in &p.m.questions {
                // '<instance>.<base type>': one label more than the type
                let is_instance = q.name.0.len() == base.0.len() + 1 && Name(q.name.0[1..].to_vec()).eq_ignore_case(&base);
                if !is_instance || intervals.iter().any(|(a, b)| p.pos >= *a && p.pos < *b) {
                    continue;
                }
                fail!(
                    "C13/wire/query-after-stop/instance",
                    "query for the instance {} left at +{} ms on {} while no browse of {} (or of a subtype of it) was open",
                    q.name.to_escaped(),
                    p.t - T0,
                    p.if_name,
                    TYPES[group[0]]
                );
            }
        }
    }
    // ---- wire: queries for a type only while some (non cache-only) browse of it is open
    for ty in 0..TYPES.len() {
        let tyname = Name::from_escaped(TYPES[ty]);
        // open intervals in log positions
        let mut intervals: Vec<(usize, usize)> = Vec::new();
        for c in &run.browse_chans {
            let ChanKind::Browse { ty: t2, cache_only } = c.kind else { continue };
            if t2 != ty || cache_only {
                continue;
            }
            let mut end = usize::MAX;
            if let Some(s) = c.stopped {
                end = end.min(s.0);
            }
            if let Some(sp) = run.shutdown_pos {
                end = end.min(sp);
            }
            // a later browse of the type takes the search over: a regular one opens its own
            // interval, a cache-only one ends the querying
            if let Some(rp) = c.replaced {
                end = end.min(rp);
            }
            intervals.push((c.opened, end));
        }
        for p in sent.iter().filter(|p| !p.m.is_response() && p.m.questions.iter().any(|q| q.name.eq_ignore_case(&tyname))) {
            // the iteration that executes the stop may still be the one that... no: the stop
            // command itself sends nothing. A query is legitimate if some interval contains the
            // position of the *step* that sent it; the stop takes effect in the iteration after
            // the call, so allow packets up to the end of that iteration only if they left before
            // the SearchStopped... keep it simple and exact: commands run before retransmissions
            // in an iteration, so nothing may leave once the call was made.
            let ok = intervals.iter().any(|(a, b)| p.pos >= *a && p.pos < *b);
            if !ok {
                let never = intervals.is_empty();
                let cache_only_query = never && run.browse_chans.iter().any(|c| matches!(c.kind, ChanKind::Browse { ty: t2, cache_only: true } if t2 == ty));
                fail!(
                    if cache_only_query { "C13/wire/query-for-cache-only-browse" } else if never { "C13/wire/query-for-type-never-browsed" } else { "C13/wire/query-after-stop/browse" },
                    "query for {} left at +{} ms on {} while no browse of that type was open", TYPES[ty], p.t - T0, p.if_name);
            }
        }
        // was there a stop while a retransmission was pending and something was cached?
        for c in &run.browse_chans {
            if let (ChanKind::Browse { ty: t2, cache_only: false }, Some((pos, _))) = (&c.kind, c.stopped) {
                if *t2 == ty {
                    let cached = d.log[c.opened..pos].iter().any(|e| matches!(&e.ev, Ev::Svc { ev: ServiceEvent::ServiceFound(..), .. }));
                    if cached {
                        stop_with_pending_retransmission = true;
                    }
                }
            }
        }
    }
    // ---- forgetting: a cache-only browse after stop_browse reports nothing not re-announced since
    for (ci, c) in run.browse_chans.iter().enumerate() {
        let ChanKind::Browse { ty, cache_only: true } = c.kind else { continue };
        // last stop of this type before the cache-only browse, with no open browse of the type in between
        let last_stop = run
            .browse_chans
            .iter()
            .filter_map(|o| match (&o.kind, o.stopped) {
                (ChanKind::Browse { ty: t2, cache_only: false }, Some((p, _))) if *t2 == ty && p < c.opened => Some(p),
                _ => None,
            })
            .max();
        let Some(stop_pos) = last_stop else { continue };
        let reopened = run.browse_chans.iter().any(|o| matches!(o.kind, ChanKind::Browse { ty: t2, cache_only: false } if t2 == ty) && o.opened > stop_pos && o.opened < c.opened);
        if reopened || case.accept_unsolicited {
            continue;
        }
        for (pos, e) in d.log.iter().enumerate() {
            if pos <= stop_pos {
                continue;
            }
            if let Ev::Svc { chan, ev: ServiceEvent::ServiceFound(_, n) } = &e.ev {
                // announced again since the stop?
                let reannounced = d.log[stop_pos..pos].iter().any(|x| match &x.ev {
                    Ev::Rx { msg: Some(m), .. } => m.answers.iter().any(|r| r.rtype == T_PTR && r.ttl > 0 && wire::ptr_target(r).is_some_and(|t| t.to_plain().eq_ignore_ascii_case(n))),
                    _ => false,
                });
                if *chan == ci && !reannounced {
                    fail!("C13/forget/cache-only-browse-reports-stopped-type", "browse_cache#{ci} of {} reports {} although the type was stopped at log position {stop_pos} and nothing was browsed since", TYPES[ty], n);
                }
            }
        }
    }
    // ---- forgetting: with every browse stopped the cache holds no service records any more
    // (records only enter the cache with a PTR answer of a type browsed at that moment)
    let mut forget_checked = false;
    if let Some(m) = &run.final_metrics {
        let any_open = run.browse_chans.iter().any(|c| c.stopped.is_none());
        let any_stopped = run.browse_chans.iter().any(|c| c.stopped.is_some());
        if !any_open && any_stopped && !case.accept_unsolicited {
            forget_checked = true;
            let left: Vec<String> = ["cached-ptr", "cached-srv", "cached-txt"].iter().filter(|k| m.get(**k).copied().unwrap_or(0) != 0).map(|k| format!("{k}={}", m[*k])).collect();
            if !left.is_empty() {
                fail!("C13/forget/records-still-cached-after-stop", "every browse was stopped, yet get_metrics() at the end reports {}", left.join(", "));
            }
        }
    }
    // ---- hostname channels
    let mut mixed_case_end = false;
    for (ci, c) in run.host_chans.iter().enumerate() {
        let ChanKind::Host { host } = c.kind else { continue };
        let evs: Vec<(usize, u64, &HostnameResolutionEvent)> = d
            .log
            .iter()
            .enumerate()
            .filter_map(|(p, e)| match &e.ev {
                Ev::Host { chan, ev } if *chan == ci => Some((p, e.t, ev)),
                _ => None,
            })
            .collect();
        let label = format!("host#{ci} ({})", HOSTNAMES[host]);
        if let Some((_, _, first)) = evs.first() {
            if !matches!(first, HostnameResolutionEvent::SearchStarted(_)) {
                fail!("C13/channel/first-event-not-SearchStarted/host", "{label}: first event is {first:?}");
            }
        }
        let end_t = d.log.last().map(|e| e.t).unwrap_or(T0);
        let timed_out = c.timeout_at.filter(|t| *t <= end_t);
        // position of the end: explicit stop, shutdown, or the first step at/after the timeout
        let timeout_pos = timed_out.and_then(|t| d.log.iter().position(|e| e.t >= t && matches!(e.ev, Ev::Step { .. } | Ev::Host { .. })));
        let mut ends: Vec<(usize, &'static str)> = Vec::new();
        if let Some(s) = c.stopped {
            ends.push(s);
        }
        if let Some(sp) = run.shutdown_pos {
            ends.push((sp, "shutdown"));
        }
        if let Some(tp) = timeout_pos {
            ends.push((tp, "timeout"));
        }
        ends.sort();
        let end = ends.first().copied();
        let stops: Vec<&(usize, u64, &HostnameResolutionEvent)> = evs.iter().filter(|(_, _, e)| matches!(e, HostnameResolutionEvent::SearchStopped(_))).collect();
        let Some((pos, why)) = end else {
            if let Some((_, t, _)) = stops.first() {
                if c.replaced.is_none() {
                    fail!("C13/channel/SearchStopped-without-stop/host", "{label}: SearchStopped at +{} ms although the search was never ended", t - T0);
                }
            }
            continue;
        };
        if HOSTNAMES[host].chars().any(|ch| ch.is_ascii_uppercase()) {
            mixed_case_end = true;
        }
        let replaced_before = c.replaced.is_some_and(|r| r < pos);
        if !replaced_before {
            if stops.is_empty() {
                fail!(format!("C13/channel/no-SearchStopped/host/{why}"), "{label}: ended by {why}, no SearchStopped delivered");
            }
            if stops.len() > 1 {
                fail!(format!("C13/channel/SearchStopped-twice/host/{why}"), "{label}: {} SearchStopped events", stops.len());
            }
            if let Some((_, t, e)) = evs.iter().find(|(p, _, _)| *p > stops[0].0) {
                fail!(format!("C13/channel/event-after-SearchStopped/host/{why}"), "{label}: {e:?} at +{} ms after SearchStopped", t - T0);
            }
            if why == "timeout" {
                // SearchTimeout immediately before SearchStopped, at the timeout
                let idx = evs.iter().position(|(p, _, _)| *p == stops[0].0).unwrap();
                let before_ok = idx > 0 && matches!(evs[idx - 1].2, HostnameResolutionEvent::SearchTimeout(_));
                if !before_ok {
                    fail!("C13/channel/timeout-without-SearchTimeout", "{label}: SearchStopped not preceded by SearchTimeout");
                }
            }
        } else if let Some((_, t, e)) = evs.iter().find(|(p, _, _)| *p > pos && stops.first().is_none_or(|s| *p > s.0)) {
            fail!(format!("C13/channel/event-on-replaced-channel-after-stop/host/{why}"), "{label}: {e:?} at +{} ms", t - T0);
        }
    }
    // wire: A/AAAA questions for a host name only while a resolver for it is open
    for host in 0..HOSTNAMES.len() {
        let hname = Name::from_escaped(HOSTNAMES[host]);
        let end_t = d.log.last().map(|e| e.t).unwrap_or(T0);
        let mut intervals: Vec<(usize, usize, Option<u64>)> = Vec::new();
        for c in &run.host_chans {
            let ChanKind::Host { host: h2 } = c.kind else { continue };
            if h2 != host {
                continue;
            }
            let mut end = usize::MAX;
            if let Some(s) = c.stopped {
                end = end.min(s.0);
            }
            if let Some(sp) = run.shutdown_pos {
                end = end.min(sp);
            }
            // a later resolver for the same name replaces this one, including its timeout
            let tmo = if c.replaced.is_some() { None } else { c.timeout_at.filter(|t| *t <= end_t) };
            let end = if let Some(r) = c.replaced { end.min(r) } else { end };
            intervals.push((c.opened, end, tmo));
        }
        for p in sent.iter().filter(|p| !p.m.is_response() && p.m.questions.iter().any(|q| (q.qtype == T_A || q.qtype == T_AAAA) && q.name.eq_ignore_case(&hname))) {
            let ok = intervals.iter().any(|(a, b, tmo)| p.pos >= *a && p.pos < *b && tmo.is_none_or(|t| p.t < t));
            if !ok {
                let after_timeout = intervals.iter().any(|(a, b, tmo)| p.pos >= *a && p.pos < *b && tmo.is_some_and(|t| p.t >= t));
                fail!(
                    if after_timeout { "C13/wire/query-after-timeout/hostname" } else if intervals.is_empty() { "C13/wire/query-for-host-never-resolved" } else { "C13/wire/query-after-stop/hostname" },
                    "A/AAAA query for {} left at +{} ms while no resolver for that name was open", HOSTNAMES[host], p.t - T0);
            }
        }
    }
    let n_stops = run.browse_chans.iter().filter(|c| c.stopped.is_some()).count() + run.host_chans.iter().filter(|c| c.stopped.is_some()).count();
    let n_timeouts = run.host_chans.iter().filter(|c| c.timeout_at.is_some()).count();
    ctx.class_if(stop_with_pending_retransmission, "stop-with-cached-records-and-pending-retransmission");
    ctx.class_if(n_stops > 0, "explicit-stop");
    ctx.class_if(forget_checked, "all-browses-stopped:cache-counted");
    ctx.class_if(n_timeouts > 0, "resolver-with-timeout");
    ctx.class_if(mixed_case_end, "mixed-case-host-ended");
    ctx.class_if(run.shutdown_pos.is_some(), "shutdown");
    ctx.class_if(run.browse_chans.iter().any(|c| c.replaced.is_some()), "browse-again");
    ctx.class_if(run.browse_chans.iter().any(|c| matches!(c.kind, ChanKind::Browse { cache_only: true, .. })), "cache-only-browse");
    if stop_with_pending_retransmission || mixed_case_end {
        ctx.nontrivial(format!(
            "b{} h{} stops{} tmo{} shut{} repl{} cache{} mixed{} pend{}",
            run.browse_chans.len().min(5),
            run.host_chans.len().min(5),
            n_stops.min(4),
            n_timeouts.min(3),
            run.shutdown_pos.is_some(),
            run.browse_chans.iter().filter(|c| c.replaced.is_some()).count().min(2),
            run.browse_chans.iter().filter(|c| matches!(c.kind, ChanKind::Browse { cache_only: true, .. })).count().min(2),
            mixed_case_end,
            stop_with_pending_retransmission
        ));
    }
    if ctx.want_sample {
        ctx.sample = Some(json!({
            "ops": case.ops.iter().map(|o| format!("{o:?}")).collect::<Vec<_>>(),
            "tail_ms": case.tail_ms,
            "history_tail": render_log(&d.log, true, 10).lines().map(|l| l.chars().take(200).collect::<String>()).collect::<Vec<_>>(),
        }));
    }
}

/// Types 0 and 1, and the subtype (index 3).
fn ty13() -> BoxedStrategy<usize> {
    prop_oneof![3 => Just(0usize), 2 => Just(1usize), 2 => Just(3usize)].boxed()
}

pub fn strategy() -> BoxedStrategy<Case> {
    let op = prop_oneof![
        4 => ty13().prop_map(|ty| Op::Browse { ty }),
        1 => ty13().prop_map(|ty| Op::BrowseCache { ty }),
        3 => ty13().prop_map(|ty| Op::StopBrowse { ty }),
        3 => (0usize..3, 0u8..4, proptest::option::weighted(0.5, prop_oneof![Just(1u64), Just(500), Just(2000), Just(20_000), Just(1000), Just(3000), Just(7000), 1u64..100_000])).prop_map(|(host, case_var, timeout_ms)| Op::Resolve { host, case_var, timeout_ms }),
        2 => (0usize..3, 0u8..4).prop_map(|(host, case_var)| Op::StopResolve { host, case_var }),
        4 => (ty13(), 0usize..3, prop_oneof![Just(120u32), Just(10), Just(4500), 2u32..200]).prop_map(|(ty, inst, ttl)| Op::Announce { ty, inst, ttl, part: 0 }),
        2 => (ty13(), 0usize..3, prop_oneof![Just(120u32), Just(4500)], 1u8..4).prop_map(|(ty, inst, ttl, part)| Op::Announce { ty, inst, ttl, part }),
        1 => (ty13(), 0usize..3).prop_map(|(ty, inst)| Op::Goodbye { ty, inst }),
        2 => (0usize..3, 0u8..4, prop_oneof![Just(120u32), 2u32..100]).prop_map(|(host, case_var, ttl)| Op::HostAddr { host, case_var, ttl }),
        6 => prop_oneof![Just(0u64), Just(400), Just(1000), Just(3100), Just(20_000), 0u64..10_000, 0u64..200_000].prop_map(|ms| Op::Advance { ms }),
        1 => Just(Op::Shutdown),
    ];
    (
        iftable(2),
        proptest::collection::vec(op, 1..20),
        prop_oneof![Just(7_300_000u64), Just(8_000_000), Just(100_000)],
        proptest::bool::weighted(0.15),
    )
        .prop_map(|(ifs, ops, tail_ms, accept_unsolicited)| Case {
            ifs,
            ops,
            tail_ms,
            accept_unsolicited,
        })
        .boxed()
}

pub fn run(tier: Tier) -> i32 {
    let mut agg = Agg::new("C13", tier);
    agg.assume("simulation: silent network except scripted responders, exact wake-ups, clients drain their channels; interface check interval set very large");
    agg.assume("a search replaced by a later browse/resolve_hostname of the same key is not required to receive SearchStopped itself; it must receive nothing after the key was stopped");
    agg.assume("after a stop, queries for the instances of the stopped type are judged too (no browse of the type, its base type or a subtype of it open: no such query), since fix 8b58a4a made stop_browse drop the pending follow-ups");
    run_regressions::<Case>(&mut agg, "interleavings", &check);
    run_part(
        &mut agg,
        &Part {
            name: "interleavings",
            rule: "interleavings of browse / browse again / browse_cache / stop_browse / resolve_hostname (with/without timeout, case variants) / stop_resolve_hostname (other case) / shutdown with announcements, goodbyes, address answers and time advances, observed for ~2 h of virtual time after the last op; \
                   non-trivial = a stop issued while records of that search were cached (a retransmission was queued), or the end of a search for a mixed-case host name",
            cases: scale(tier.pick(20_000, 600_000)),
            max_shrink_iters: 800,
            strategy: &strategy,
            check: &check,
        },
    );
    agg.require_class("interleavings:explicit-stop", 2000);
    agg.require_class("interleavings:resolver-with-timeout", 2000);
    agg.require_class("interleavings:stop-with-cached-records-and-pending-retransmission", 300);
    agg.require_class("interleavings:mixed-case-host-ended", 1000);
    agg.finish()
}

pub fn replay(file: &std::path::Path) -> i32 {
    replay_part::<Case>("C13", "interleavings", file, 5, &check).unwrap_or_else(|| {
        eprintln!("harness error: replay file does not belong to C13");
        2
    })
}
