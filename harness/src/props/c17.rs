//! C17 - hostname resolution: right addresses, case-insensitive, ends on time (E3).

use crate::gen::*;
use crate::props::browser::{CEntry, RefCache};
use crate::refdns::*;
use crate::runner::*;
use crate::sim::{peer, *};
use mdns_sd::{HostnameResolutionEvent, ScopedIp};
use proptest::prelude::*;
use serde::{Deserialize, Serialize};
use serde_json::json;
use std::collections::BTreeSet;
use std::net::{IpAddr, SocketAddr};

// (the capital outside ASCII keeps its spelling in every letter-case variant that is generated)
pub const HOSTS17: [&str; 2] = ["Printer-\u{c9}ne.local.", "nas.local."];

#[derive(Clone, Debug, Serialize, Deserialize)]
pub enum Op {
    Resolve { host: usize, case_var: u8, timeout_ms: Option<u64> },
    StopResolve { host: usize, case_var: u8 },
    /// a responder answers for the host name (in the given letter case) on interface k
    Answer { host: usize, case_var: u8, k: usize, addrs: Vec<(u8, u32)>, flush: bool },
    Advance { ms: u64 },
}

#[derive(Clone, Debug, Serialize, Deserialize)]
pub struct Case {
    pub ifs: Vec<IfSpec>,
    pub ops: Vec<Op>,
    pub tail_ms: u64,
}

pub fn addr_of(host: usize, a: u8) -> IpAddr {
    let h = (host % 2) as u8;
    match a % 4 {
        0 => IpAddr::V4(subnet_v4(0, 160 + h)),
        1 => IpAddr::V4(subnet_v4(0, 170 + h)),
        2 => IpAddr::V6(subnet_v6(0, 160 + h as u16)),
        _ => IpAddr::V4(subnet_v4(1, 160 + h)),
    }
}

struct Search {
    host: usize,
    chan: usize,
    opened_pos: usize,
    opened_t: u64,
    timeout_at: Option<u64>,
    stopped_pos: Option<usize>,
}

pub fn check(case: &Case, ctx: &mut CaseCtx) {
    let nifs = case.ifs.len();
    let mut d = match SimDaemon::new("H", sim_ifs(&case.ifs), T0, 17) {
        Ok(d) => d,
        Err(e) => {
            ctx.violation("C17/harness/spawn", e);
            return;
        }
    };
    let _ = d.d.set_ip_check_interval(1_000_000);
    d.dirty = true;
    let mut w = World::new(T0);
    let di = w.add(d);
    w.settle();
    let mut searches: Vec<Search> = Vec::new();
    let mut model = RefCache::default();
    let mut fed = 0usize;
    // keeps the model and the forced wake-ups (expiries, timeouts) up to date while running to t
    let run_to = |w: &mut World, t: u64, model: &mut RefCache, fed: &mut usize, searches: &[Search]| loop {
        for (pos, e) in w.daemons[di].log.iter().enumerate().skip(*fed) {
            if let Ev::Rx { msg: Some(m), if_index, .. } = &e.ev {
                model.receive(e.t, *if_index, m, &[], true, pos);
            }
        }
        *fed = w.daemons[di].log.len();
        let now = w.now;
        for e in model.expiries_after(now) {
            if e <= t {
                w.daemons[di].forced.insert(e);
            }
        }
        for s in searches {
            if let Some(tmo) = s.timeout_at {
                if tmo > now && tmo <= t {
                    w.daemons[di].forced.insert(tmo);
                }
            }
        }
        let Some(next) = w.next_event_time() else {
            w.run_until(t);
            break;
        };
        if next > t || w.budget_exhausted || !w.daemons[di].alive() {
            w.run_until(t);
            break;
        }
        w.run_until(next.max(w.now));
    };
    for op in &case.ops {
        let now = w.now;
        run_to(&mut w, now, &mut model, &mut fed, &searches);
        let now = w.now;
        let dm = &mut w.daemons[di];
        dm.set_now(now);
        let pos = dm.log.len();
        match op {
            Op::Resolve { host, case_var, timeout_ms } => {
                let host = *host % 2;
                // one search per host name at a time (see C13)
                let open = searches.iter().any(|s| s.host == host && s.stopped_pos.is_none() && s.timeout_at.is_none_or(|t| t > now));
                if open {
                    continue;
                }
                let name = case_variant(HOSTS17[host], *case_var);
                if let Ok(chan) = dm.resolve_hostname(&name, *timeout_ms) {
                    searches.push(Search {
                        host,
                        chan,
                        opened_pos: pos,
                        opened_t: now,
                        timeout_at: timeout_ms.map(|t| now + t),
                        stopped_pos: None,
                    });
                }
            }
            Op::StopResolve { host, case_var } => {
                let host = *host % 2;
                let name = case_variant(HOSTS17[host], *case_var);
                if dm.stop_resolve_hostname(&name).is_ok() {
                    for s in searches.iter_mut() {
                        if s.host == host && s.stopped_pos.is_none() && s.timeout_at.is_none_or(|t| t > now) {
                            s.stopped_pos = Some(pos);
                        }
                    }
                }
            }
            Op::Answer { host, case_var, k, addrs, flush } => {
                let host = *host % 2;
                let k = *k % nifs;
                let name = Name::from_escaped(&case_variant(HOSTS17[host], *case_var));
                let recs: Vec<Record> = addrs.iter().map(|(a, ttl)| peer::addr_rec(&name, addr_of(host, *a), *ttl, *flush)).collect();
                if recs.is_empty() {
                    continue;
                }
                let src: SocketAddr = if case.ifs[k].v4 {
                    SocketAddr::new(IpAddr::V4(subnet_v4(k, 160 + host as u8)), MDNS_PORT)
                } else {
                    SocketAddr::new(IpAddr::V6(subnet_v6(k, 160 + host as u16)), MDNS_PORT)
                };
                dm.inject(if_index(k), src, peer::response(recs, vec![]));
            }
            Op::Advance { ms } => {
                let t = w.now + *ms;
                run_to(&mut w, t, &mut model, &mut fed, &searches);
            }
        }
        let now = w.now;
        run_to(&mut w, now, &mut model, &mut fed, &searches);
    }
    let t = w.now + case.tail_ms;
    run_to(&mut w, t, &mut model, &mut fed, &searches);
    ctx.count("sim_steps", w.total_steps);
    judge(case, &w.daemons[di], &searches, ctx);
    w.finish();
}

fn ip_of(e: &CEntry) -> Option<IpAddr> {
    match &e.rdata {
        RData::A(a) => Some(IpAddr::V4(*a)),
        RData::Aaaa(a) => Some(IpAddr::V6(*a)),
        _ => None,
    }
}

fn judge(case: &Case, d: &SimDaemon, searches: &[Search], ctx: &mut CaseCtx) {
    let ops_text = case.ops.iter().map(|o| format!("{o:?}")).collect::<Vec<_>>().join("; ");
    macro_rules! fail {
        ($sig:expr, $($arg:tt)*) => {{
            ctx.violation($sig.to_string(), format!("{}\nops: {ops_text}\n--- history ---\n{}", format!($($arg)*), render_log(&d.log, true, 60)));
            return;
        }};
    }
    if let Some(m) = &d.dead {
        fail!(format!("C17/daemon-died/{}", m.split(": ").next().unwrap_or("")), "daemon died: {m}");
    }
    let end_t = d.log.last().map(|e| e.t).unwrap_or(T0);
    let mut mixed_case_used = false;
    let mut found_events = 0u64;
    let mut removed_events = 0u64;
    let mut refresh_seen = 0u64;
    let mut timeouts = 0u64;
    for s in searches {
        let hname = Name::from_escaped(HOSTS17[s.host]);
        // end of the search
        let timeout_pos = s.timeout_at.filter(|t| *t <= end_t).and_then(|t| d.log.iter().position(|e| e.t >= t && matches!(e.ev, Ev::Step { .. } | Ev::Host { .. })));
        let end_pos = [s.stopped_pos, timeout_pos].into_iter().flatten().min().unwrap_or(usize::MAX);
        let label = format!("search#{} for {}", s.chan, HOSTS17[s.host]);
        // replay the cache, following the channel
        let mut model = RefCache::default();
        let mut reported: BTreeSet<IpAddr> = BTreeSet::new();
        let mut behind: u32 = 0;
        let mut removal_due: Vec<(IpAddr, u32)> = Vec::new();
        for (pos, e) in d.log.iter().enumerate() {
            let t = e.t;
            match &e.ev {
                Ev::Rx { msg: Some(m), if_index, .. } => {
                    if m.all_records().any(|r| r.name != hname && r.name.eq_ignore_case(&hname)) && pos >= s.opened_pos {
                        mixed_case_used = true;
                    }
                    model.receive(t, *if_index, m, &[], true, pos);
                }
                Ev::Host { chan, ev } if *chan == s.chan => match ev {
                    HostnameResolutionEvent::AddressesFound(name, set) => {
                        found_events += 1;
                        if !Name::from_escaped(name).eq_ignore_case(&hname) {
                            fail!("C17/found/for-another-name", "{label}: AddressesFound names {name}");
                        }
                        for a in set {
                            let ip = a.to_ip_addr();
                            let live: Vec<&CEntry> = model.addrs(&hname).filter(|e| ip_of(e) == Some(ip) && e.possibly_live(t)).collect();
                            if live.is_empty() {
                                let ever = model.addrs(&hname).any(|e| ip_of(e) == Some(ip));
                                // recorded finding: a goodbye for an address that was not cached is
                                // reported as found (and removed a second later); the search goes on
                                let fresh: Vec<&CEntry> = model.addrs(&hname).filter(|e| ip_of(e) == Some(ip) && t < e.expires_at).collect();
                                let only_fresh_goodbyes = ever && !fresh.is_empty() && fresh.iter().all(|e| e.goodbye);
                                if only_fresh_goodbyes {
                                    if !ctx.violations.iter().any(|v| v.signature == "C17/found/withdrawn-address/goodbye-for-unknown-address") {
                                        ctx.violation("C17/found/withdrawn-address/goodbye-for-unknown-address", format!("{label}: AddressesFound at +{} ms reports {ip}, which was only ever received with TTL 0", t - T0));
                                    }
                                    reported.insert(ip);
                                    continue;
                                }
                                fail!(
                                    if ever { "C17/found/expired-or-withdrawn-address" } else { "C17/found/address-never-received" },
                                    "{label}: AddressesFound at +{} ms reports {ip}, which is not an unexpired address received for that name", t - T0);
                            }
                            let tags: Vec<u32> = match a {
                                ScopedIp::V4(v4) => v4.interface_ids().iter().map(|i| i.index).collect(),
                                ScopedIp::V6(v6) => vec![v6.scope_id().index],
                                _ => vec![],
                            };
                            for tag in tags {
                                if !live.iter().any(|e| e.if_index == tag) {
                                    // the same recorded finding: the tag comes from a goodbye copy
                                    if model.addrs(&hname).any(|e| ip_of(e) == Some(ip) && e.if_index == tag && e.goodbye && t < e.expires_at) {
                                        if !ctx.violations.iter().any(|v| v.signature == "C17/found/withdrawn-address/goodbye-for-unknown-address") {
                                            ctx.violation("C17/found/withdrawn-address/goodbye-for-unknown-address", format!("{label}: AddressesFound at +{} ms reports {ip} tagged with interface {tag}, where it was only received with TTL 0", t - T0));
                                        }
                                        continue;
                                    }
                                    fail!("C17/found/tagged-with-interface-it-was-not-learned-on", "{label}: {ip} tagged with interface index {tag}, learned on {:?}", live.iter().map(|e| e.if_index).collect::<Vec<_>>());
                                }
                            }
                            reported.insert(ip);
                        }
                    }
                    HostnameResolutionEvent::AddressesRemoved(name, set) => {
                        removed_events += 1;
                        if !Name::from_escaped(name).eq_ignore_case(&hname) {
                            fail!("C17/removed/for-another-name", "{label}: AddressesRemoved names {name}");
                        }
                        for a in set {
                            let ip = a.to_ip_addr();
                            // not while a copy is certainly live on the interface(s) it is tagged with
                            let tags: Vec<u32> = match a {
                                ScopedIp::V4(v4) => v4.interface_ids().iter().map(|i| i.index).collect(),
                                ScopedIp::V6(v6) => vec![v6.scope_id().index],
                                _ => vec![],
                            };
                            // (copies under another letter case of the name are separate records: it is
                            // enough that one of them ran out or was withdrawn)
                            let copies = |tag: u32| model.addrs(&hname).filter(move |e| ip_of(e) == Some(ip) && e.if_index == tag).collect::<Vec<_>>();
                            if !tags.is_empty() && tags.iter().all(|tag| !copies(*tag).is_empty() && copies(*tag).iter().all(|e| e.certainly_live(t))) {
                                fail!("C17/removed/while-still-live", "{label}: AddressesRemoved at +{} ms reports {ip}, whose record has more than a second left", t - T0);
                            }
                            if !model.addrs(&hname).any(|e| ip_of(e) == Some(ip) && t < e.expires_at) {
                                reported.remove(&ip);
                            }
                            removal_due.retain(|(x, _)| *x != ip);
                        }
                    }
                    _ => {}
                },
                Ev::Step { .. } if pos > s.opened_pos && pos < end_pos => {
                    // completeness: every certainly-live address has been reported
                    let live: BTreeSet<IpAddr> = model.addrs(&hname).filter(|e| e.certainly_live(t)).filter_map(ip_of).collect();
                    if live.is_subset(&reported) {
                        behind = 0;
                    } else {
                        behind += 1;
                        if behind >= 2 {
                            let missing: Vec<&IpAddr> = live.difference(&reported).collect();
                            let other_case = model.addrs(&hname).any(|e| missing.contains(&&ip_of(e).unwrap()) && e.name != hname);
                            fail!(
                                if other_case { "C17/found/missing-address/answered-in-other-letter-case" } else { "C17/found/missing-address" },
                                "{label}: by the end of the step after its arrival (+{} ms) {:?} had not been reported through AddressesFound", t - T0, missing);
                        }
                    }
                    // removals: a reported address with no unexpired copy left
                    let gone: Vec<IpAddr> = reported.iter().filter(|ip| !model.addrs(&hname).any(|e| ip_of(e) == Some(**ip) && t < e.expires_at)).copied().collect();
                    for ip in gone {
                        match removal_due.iter_mut().find(|(x, _)| *x == ip) {
                            Some((_, n)) => {
                                *n += 1;
                                if *n >= 2 {
                                    fail!("C17/removed/missing-or-late", "{label}: {ip} ran out (or was withdrawn) but no AddressesRemoved was delivered by the end of the following step (+{} ms)", t - T0);
                                }
                            }
                            None => removal_due.push((ip, 1)),
                        }
                    }
                }
                _ => {}
            }
        }
        // queries: both types at once at the start; refresh at 80 %; none after the end
        let first_q = d.log[s.opened_pos..].iter().find_map(|e| match &e.ev {
            Ev::Tx(tx) => tx.msg.as_ref().filter(|m| !m.is_response() && m.questions.iter().any(|q| q.name.eq_ignore_case(&hname))),
            _ => None,
        });
        match first_q {
            Some(m) => {
                let a = m.questions.iter().any(|q| q.qtype == T_A && q.name.eq_ignore_case(&hname));
                let aaaa = m.questions.iter().any(|q| q.qtype == T_AAAA && q.name.eq_ignore_case(&hname));
                if !(a && aaaa) {
                    fail!("C17/query/initial-not-A-and-AAAA", "{label}: first query {}", render_message(m));
                }
            }
            None => fail!("C17/query/none-at-start", "{label}: no query at all"),
        }
        if let Some(tmo) = s.timeout_at.filter(|t| *t <= end_t) {
            if s.stopped_pos.is_none_or(|sp| timeout_pos.is_some_and(|tp| tp < sp)) {
                timeouts += 1;
                // SearchTimeout then SearchStopped, in the step at the timeout
                let evs: Vec<(u64, &HostnameResolutionEvent)> = d.log.iter().filter_map(|e| match &e.ev {
                    Ev::Host { chan, ev } if *chan == s.chan => Some((e.t, ev)),
                    _ => None,
                }).collect();
                let to = evs.iter().position(|(_, e)| matches!(e, HostnameResolutionEvent::SearchTimeout(_)));
                match to {
                    None => fail!("C17/timeout/no-SearchTimeout", "{label}: timeout at +{} ms passed without SearchTimeout", tmo - T0),
                    Some(i) => {
                        if evs[i].0 != tmo {
                            fail!("C17/timeout/not-at-the-timeout", "{label}: SearchTimeout at +{} ms, timeout was +{} ms", evs[i].0 - T0, tmo - T0);
                        }
                        if !matches!(evs.get(i + 1), Some((t2, HostnameResolutionEvent::SearchStopped(_))) if *t2 == tmo) || evs.len() > i + 2 {
                            fail!("C17/timeout/not-followed-by-final-SearchStopped", "{label}: events after SearchTimeout: {:?}", evs[i + 1..].iter().map(|x| format!("{:?}", x.1)).collect::<Vec<_>>());
                        }
                    }
                }
            }
        }
        let end_time = match (s.stopped_pos.map(|p| d.log[p].t), s.timeout_at.filter(|t| *t <= end_t)) {
            (Some(a), Some(b)) => Some(a.min(b)),
            (a, b) => a.or(b),
        };
        for (pos, e) in d.log.iter().enumerate().skip(s.opened_pos) {
            if let Ev::Tx(tx) = &e.ev {
                let Some(m) = tx.msg.as_ref() else { continue };
                if m.is_response() || !m.questions.iter().any(|q| q.name.eq_ignore_case(&hname) && (q.qtype == T_A || q.qtype == T_AAAA)) {
                    continue;
                }
                let later_search = searches.iter().any(|o| o.host == s.host && o.opened_pos > s.opened_pos && o.opened_pos <= pos);
                if let Some(et) = end_time {
                    let after = if s.stopped_pos.is_some_and(|sp| d.log[sp].t == et) { pos >= s.stopped_pos.unwrap() } else { e.t >= et };
                    if after && !later_search {
                        fail!("C17/query/after-the-search-ended", "{label}: query at +{} ms although the search ended at +{} ms", e.t - T0, et - T0);
                    }
                }
            }
        }
        // refresh at 80 %: an address received at R with TTL ttl, not refreshed, search open at R+0.8 ttl
        let mut model2 = RefCache::default();
        for (pos, e) in d.log.iter().enumerate() {
            if let Ev::Rx { msg: Some(m), if_index, .. } = &e.ev {
                model2.receive(e.t, *if_index, m, &[], true, pos);
            }
        }
        for en in model2.addrs(&hname) {
            if en.goodbye || en.shortened || en.ttl < 5 {
                continue;
            }
            let mark = en.received_at + en.ttl as u64 * 800;
            let open_then = mark > s.opened_t && en.received_at >= s.opened_t && end_time.is_none_or(|et| mark < et) && mark <= end_t;
            if !open_then {
                continue;
            }
            let want = en.rtype;
            let asked = d.log.iter().any(|e| e.t == mark && matches!(&e.ev, Ev::Tx(tx) if tx.msg.as_ref().is_some_and(|m| !m.is_response() && m.questions.iter().any(|q| q.qtype == want && q.name.eq_ignore_case(&hname)))));
            if !asked {
                fail!("C17/refresh/no-query-at-80-percent", "{label}: {} received at +{} ms with TTL {} s was not asked for again at +{} ms (80 % of its life) although the search was open", render_record(&Record { name: en.name.clone(), rtype: en.rtype, class: en.class, ttl: en.ttl, rdata: en.rdata.clone() }), en.received_at - T0, en.ttl, mark - T0);
            }
            refresh_seen += 1;
        }
    }
    let case_mix = case.ops.iter().any(|o| matches!(o, Op::Resolve { case_var, .. } | Op::StopResolve { case_var, .. } if *case_var % 4 != 0));
    ctx.class_if(mixed_case_used || case_mix, "mixed-case-name");
    ctx.class_if(found_events > 0, "AddressesFound");
    ctx.class_if(removed_events > 0, "AddressesRemoved");
    ctx.class_if(refresh_seen > 0, "refresh-at-80-percent");
    ctx.class_if(timeouts > 0, "timeout-reached");
    ctx.class_if(case.ifs.len() >= 2, ">=2-interfaces");
    ctx.count("addresses_found_events", found_events);
    if (mixed_case_used || case_mix) && (timeouts > 0 || refresh_seen > 0 || searches.iter().any(|s| s.stopped_pos.is_some())) {
        ctx.nontrivial(format!("s{} f{} r{} rf{} to{} ifs{}", searches.len().min(4), found_events.min(5), removed_events.min(4), refresh_seen.min(3), timeouts.min(2), case.ifs.len()));
    }
    if ctx.want_sample {
        ctx.sample = Some(json!({
            "ops": case.ops.iter().map(|o| format!("{o:?}")).collect::<Vec<_>>(),
            "history_tail": render_log(&d.log, true, 8).lines().map(|l| l.chars().take(200).collect::<String>()).collect::<Vec<_>>(),
        }));
    }
}

pub fn strategy() -> BoxedStrategy<Case> {
    let ttl = prop_oneof![2 => Just(0u32), 1 => Just(1), 2 => Just(2), 2 => Just(5), 2 => Just(10), 2 => Just(120), 1 => 1u32..300];
    let op = prop_oneof![
        4 => (0usize..2, 0u8..4, proptest::option::weighted(0.5, prop_oneof![Just(1u64), Just(1000), Just(2500), Just(20_000), 1u64..200_000])).prop_map(|(host, case_var, timeout_ms)| Op::Resolve { host, case_var, timeout_ms }),
        2 => (0usize..2, 0u8..4).prop_map(|(host, case_var)| Op::StopResolve { host, case_var }),
        7 => (0usize..2, 0u8..4, 0usize..2, proptest::collection::vec((0u8..4, ttl), 1..4), proptest::bool::weighted(0.8)).prop_map(|(host, case_var, k, addrs, flush)| Op::Answer { host, case_var, k, addrs, flush }),
        7 => prop_oneof![Just(0u64), Just(500), Just(1000), Just(1001), Just(2000), Just(4000), Just(8000), Just(96_000), Just(120_000), 0u64..12_000, 0u64..300_000].prop_map(|ms| Op::Advance { ms }),
    ];
    (iftable(2), proptest::collection::vec(op, 2..18), prop_oneof![Just(3000u64), Just(130_000)])
        .prop_map(|(ifs, mut ops, tail_ms)| {
            if !ops.iter().any(|o| matches!(o, Op::Resolve { .. })) {
                ops.insert(0, Op::Resolve { host: 0, case_var: 1, timeout_ms: None });
            }
            Case { ifs, ops, tail_ms }
        })
        .boxed()
}

pub fn run(tier: Tier) -> i32 {
    let mut agg = Agg::new("C17", tier);
    agg.assume("simulation: scripted responders only; the daemon is woken when it asks and additionally at every expiry the reference cache computes and at every timeout; clients drain their channels; interface check interval very large");
    agg.assume("one search per host name at a time; addresses are compared without regard to the letter case of the name on either side");
    run_regressions::<Case>(&mut agg, "resolutions", &check);
    run_part(
        &mut agg,
        &Part {
            name: "resolutions",
            rule: "resolve_hostname / stop_resolve_hostname in every letter-case variant of two host names (one mixed-case), timeouts none / 1 ms..200 s, responders answering in any letter case on 1-2 interfaces with 1-3 addresses (IPv4/IPv6, TTL 0..300 s, with/without cache-flush), advances around TTL boundaries; AddressesFound/AddressesRemoved against a reference cache, completeness by the end of the next step, initial A+AAAA query, refresh at 80 %, timeout events, silence after the end; \
                   non-trivial = a mixed-case name combined with a timeout, a refresh or a stop",
            cases: scale(tier.pick(25_000, 700_000)),
            max_shrink_iters: 800,
            strategy: &strategy,
            check: &check,
        },
    );
    agg.require_class("resolutions:AddressesFound", 5000);
    agg.require_class("resolutions:AddressesRemoved", 2000);
    agg.require_class("resolutions:refresh-at-80-percent", 500);
    agg.require_class("resolutions:timeout-reached", 1500);
    agg.require_class("resolutions:mixed-case-name", 5000);
    agg.finish()
}

pub fn replay_file(file: &std::path::Path) -> i32 {
    replay_part::<Case>("C17", "resolutions", file, 5, &check).unwrap_or_else(|| {
        eprintln!("harness error: replay file does not belong to C17");
        2
    })
}
