//! Shared scenario, executor and reference cache for the browsing properties C03, C04, C05
//! (and the wire part of C11).

use crate::gen::*;
use crate::refdns::*;
use crate::runner::CaseCtx;
use crate::sim::wire;
use crate::sim::*;
use mdns_sd::ServiceEvent;
use serde::{Deserialize, Serialize};
use std::net::{IpAddr, SocketAddr};

pub const NHOSTS: usize = 2;

#[derive(Clone, Debug, Serialize, Deserialize)]
pub struct InstDef {
    /// index into TYPES; types 0 and 1 may be browsed, type 2 never is ("foreign")
    pub ty: usize,
    pub label: String,
    pub host: usize,
    pub port: u16,
}

#[derive(Clone, Copy, Debug, Serialize, Deserialize, PartialEq, Eq)]
pub enum Kind {
    Ptr,
    Srv,
    Txt,
    /// address number a of the instance's host (0,1: IPv4 on if0; 2: IPv6 on if0; 3: IPv4 on if1)
    Addr(u8),
}

#[derive(Clone, Debug, Serialize, Deserialize)]
pub struct RecSel {
    pub inst: usize,
    pub kind: Kind,
    pub ttl: u32,
    /// false: the cache-flush bit is set contrary to custom (on PTR) or left off (on unique records)
    pub flush_as_usual: bool,
    /// 0 answer, 1 authority, 2 additional
    pub section: u8,
}

#[derive(Clone, Debug, Serialize, Deserialize)]
pub enum Op {
    Deliver { k: usize, recs: Vec<RecSel>, copies: u8 },
    /// 0: port+1, 1: new TXT, 2: move to the other host
    Update { inst: usize, what: u8 },
    Advance { ms: u64 },
    Verify { inst: usize, timeout_ms: u64 },
    Rebrowse { ty: usize },
    StopStart { ty: usize },
    /// scripted responder answering the daemon's own queries about the world
    Responder {
        on: bool,
        delay_ms: u64,
        /// 0 = answers everything, 1 = never answers address questions, 2 = its first answer to an
        /// address question is lost, 3 = answers nothing about instances (SRV/TXT) either
        #[serde(default)]
        mute: u8,
    },
}

#[derive(Clone, Debug, Serialize, Deserialize)]
pub struct Case {
    pub ifs: Vec<IfSpec>,
    pub browse: Vec<usize>,
    pub accept_unsolicited: bool,
    pub insts: Vec<InstDef>,
    pub ops: Vec<Op>,
    pub tail_ms: u64,
    /// also wake the daemon at every expiry the reference cache computes
    pub forced_wakes: bool,
    /// host names (by index) that are searched for with resolve_hostname from the start as well
    #[serde(default)]
    pub resolve_hosts: Vec<usize>,
}

#[derive(Clone, Debug)]
pub struct InstState {
    pub def: InstDef,
    pub port: u16,
    pub txt_ver: u8,
    pub host: usize,
}

impl InstState {
    pub fn fullname(&self) -> Name {
        let mut l = vec![self.def.label.as_bytes().to_vec()];
        l.extend(Name::from_escaped(TYPES[self.def.ty % TYPES.len()]).0);
        Name(l)
    }
    pub fn ty_name(&self) -> Name {
        Name::from_escaped(TYPES[self.def.ty % TYPES.len()])
    }
    pub fn txt_rdata(&self) -> Vec<u8> {
        txt_encode(&[
            (b"v".to_vec(), Some(self.txt_ver.to_string().into_bytes())),
            (b"n".to_vec(), Some(self.def.label.as_bytes().iter().take(8).copied().collect())),
        ])
    }
}

pub fn host_name(h: usize) -> Name {
    // every other host has upper-case letters in its name, one of them outside ASCII
    if h % NHOSTS % 2 == 1 {
        Name::from_escaped(&format!("BH\u{dc}st{}.Local.", h % NHOSTS))
    } else {
        Name::from_escaped(&format!("bhost{}.local.", h % NHOSTS))
    }
}

pub fn host_addr(h: usize, a: u8) -> IpAddr {
    let h = (h % NHOSTS) as u8;
    match a % 4 {
        0 => IpAddr::V4(subnet_v4(0, 120 + h)),
        1 => IpAddr::V4(subnet_v4(0, 130 + h)),
        2 => IpAddr::V6(subnet_v6(0, 120 + h as u16)),
        _ => IpAddr::V4(subnet_v4(1, 120 + h)),
    }
}

pub fn record_for(st: &InstState, sel: &RecSel) -> Record {
    let usual_flush = !matches!(sel.kind, Kind::Ptr);
    let flush = usual_flush == sel.flush_as_usual;
    let class = 1 | if flush { FLUSH } else { 0 };
    match sel.kind {
        Kind::Ptr => Record {
            name: st.ty_name(),
            rtype: T_PTR,
            class,
            ttl: sel.ttl,
            rdata: RData::Ptr(st.fullname()),
        },
        Kind::Srv => Record {
            name: st.fullname(),
            rtype: T_SRV,
            class,
            ttl: sel.ttl,
            rdata: RData::Srv {
                priority: 0,
                weight: 0,
                port: st.port,
                target: host_name(st.host),
            },
        },
        Kind::Txt => Record {
            name: st.fullname(),
            rtype: T_TXT,
            class,
            ttl: sel.ttl,
            rdata: RData::Txt(st.txt_rdata()),
        },
        Kind::Addr(a) => {
            let ip = host_addr(st.host, a);
            crate::sim::peer::addr_rec(&host_name(st.host), ip, sel.ttl, flush)
        }
    }
}

// ---------------------------------------------------------------------------------------------
// Reference cache (written from the statements of C03, C05 and C11)
// ---------------------------------------------------------------------------------------------

#[derive(Clone, Debug)]
pub struct CEntry {
    pub name: Name,
    pub rtype: u16,
    pub class: u16,
    pub rdata: RData,
    pub if_index: u32,
    pub received_at: u64,
    pub ttl: u32,
    pub expires_at: u64,
    /// the latest copy was a goodbye (TTL 0)
    pub goodbye: bool,
    /// expiry was brought forward by a cache-flush record or a verify call
    pub shortened: bool,
    /// log position of the datagram that brought the latest copy
    pub pos: usize,
}

impl CEntry {
    /// May still be used at `t`: inside its TTL and not withdrawn.
    pub fn possibly_live(&self, t: u64) -> bool {
        t < self.expires_at && !self.goodbye
    }
    /// Surely still counts at `t` (leaves out the record's final second).
    pub fn certainly_live(&self, t: u64) -> bool {
        t + 1000 < self.expires_at && !self.goodbye
    }
}

fn category(rtype: u16) -> u8 {
    match rtype {
        T_PTR => 0,
        T_SRV => 1,
        T_TXT => 2,
        T_A | T_AAAA => 3,
        T_NSEC => 4,
        _ => 9,
    }
}

#[derive(Clone, Debug, Default)]
pub struct RefCache {
    pub entries: Vec<CEntry>,
    /// false: every record of every datagram is taken (an upper bound of what may be cached);
    /// true: datagrams that are solely answers to someone else's browse of another type only
    /// refresh names that are already cached.
    pub strict: bool,
    /// verify calls shorten lifetimes (lower bound) or not (upper bound)
    pub apply_verify: bool,
    /// a verify call also reaches records that run out at the very instant of the call
    /// (whether the daemon still holds them then depends on whether an iteration ran in between)
    pub verify_inclusive: bool,
}

impl RefCache {
    pub fn receive(&mut self, t: u64, if_index: u32, m: &Message, browsed: &[Name], accept_unsolicited: bool, pos: usize) {
        if !m.is_response() {
            return;
        }
        let ptr_answers: Vec<&Record> = m.answers.iter().filter(|r| r.rtype == T_PTR).collect();
        let for_us = accept_unsolicited || ptr_answers.is_empty() || ptr_answers.iter().any(|r| browsed.contains(&r.name));
        for r in m.all_records() {
            if category(r.rtype) == 9 || r.rtype == T_NSEC {
                continue;
            }
            let same_owner = |e: &CEntry| {
                category(e.rtype) == category(r.rtype)
                    && if category(r.rtype) == 3 {
                        e.name.eq_ignore_case(&r.name)
                    } else {
                        e.name == r.name
                    }
            };
            if self.strict && !for_us && !self.entries.iter().any(|e| same_owner(e) && t < e.expires_at) {
                continue;
            }
            let ttl = if r.ttl == 0 { 1 } else { r.ttl };
            // cache-flush: other records of the same name, type and class (addresses: learned
            // on the same interface) that are more than one second old expire one second later
            if r.flush() {
                for e in self.entries.iter_mut() {
                    if same_owner(e)
                        && e.rtype == r.rtype
                        && e.class & 0x7FFF == r.class & 0x7FFF
                        && t > e.received_at + 1000
                        && e.expires_at > t + 1000
                        && (category(r.rtype) != 3 || e.if_index == if_index)
                    {
                        e.expires_at = t + 1000;
                        e.shortened = true;
                    }
                }
            }
            let identical = self.entries.iter_mut().find(|e| {
                e.name == r.name && e.rtype == r.rtype && e.class == r.class && e.rdata == r.rdata && (category(r.rtype) != 3 || e.if_index == if_index) && t < e.expires_at
            });
            match identical {
                Some(e) => {
                    e.received_at = t;
                    e.ttl = ttl;
                    e.expires_at = t + ttl as u64 * 1000;
                    e.goodbye = r.ttl == 0;
                    e.shortened = false;
                    e.pos = pos;
                }
                // a goodbye (or a record with one second to live) for a record that is not cached
                // withdraws nothing and is not kept
                None if r.ttl <= 1 => {}
                None => self.entries.push(CEntry {
                    name: r.name.clone(),
                    rtype: r.rtype,
                    class: r.class,
                    rdata: r.rdata.clone(),
                    if_index,
                    received_at: t,
                    ttl,
                    expires_at: t + ttl as u64 * 1000,
                    goodbye: r.ttl == 0,
                    shortened: false,
                    pos,
                }),
            }
        }
    }

    pub fn verify(&mut self, t: u64, inst: &Name, timeout_ms: u64) {
        if !self.apply_verify {
            return;
        }
        let deadline = t + timeout_ms;
        let hosts: Vec<Name> = self
            .entries
            .iter()
            .filter(|e| e.rtype == T_SRV && e.name == *inst && (t < e.expires_at || (self.verify_inclusive && t == e.expires_at)))
            .filter_map(|e| wire::srv_of_rdata(&e.rdata))
            .collect();
        for e in self.entries.iter_mut() {
            let hit = (e.rtype == T_SRV && e.name == *inst) || (category(e.rtype) == 3 && hosts.iter().any(|h| h.eq_ignore_case(&e.name)));
            if hit && deadline < e.expires_at {
                e.expires_at = deadline;
                e.shortened = true;
            }
        }
    }

    /// stop_browse: the records cached for the stopped type are forgotten.
    pub fn forget_type(&mut self, ty: &Name) {
        if !self.strict {
            return;
        }
        let insts: Vec<Name> = self.entries.iter().filter(|e| e.rtype == T_PTR && e.name == *ty).filter_map(|e| wire::ptr_target_rdata(&e.rdata)).collect();
        self.entries.retain(|e| !(e.rtype == T_PTR && e.name == *ty));
        let hosts: Vec<Name> = self.entries.iter().filter(|e| e.rtype == T_SRV && insts.contains(&e.name)).filter_map(|e| wire::srv_of_rdata(&e.rdata)).collect();
        self.entries.retain(|e| !((e.rtype == T_SRV || e.rtype == T_TXT) && insts.contains(&e.name)));
        for h in hosts {
            let still = self.entries.iter().any(|e| e.rtype == T_SRV && wire::srv_of_rdata(&e.rdata).is_some_and(|x| x.eq_ignore_case(&h)));
            if !still {
                self.entries.retain(|e| !(category(e.rtype) == 3 && e.name.eq_ignore_case(&h)));
            }
        }
    }

    pub fn expiries_after(&self, t: u64) -> Vec<u64> {
        self.entries.iter().map(|e| e.expires_at).filter(|x| *x > t).collect()
    }

    pub fn ptr_live(&self, ty: &Name, inst: &Name, t: u64, certainly: bool) -> bool {
        self.entries.iter().any(|e| e.rtype == T_PTR && e.name == *ty && wire::ptr_target_rdata(&e.rdata).is_some_and(|n| n == *inst) && if certainly { e.certainly_live(t) } else { t < e.expires_at })
    }
    pub fn srvs<'a>(&'a self, inst: &'a Name) -> impl Iterator<Item = &'a CEntry> + 'a {
        self.entries.iter().filter(move |e| e.rtype == T_SRV && e.name == *inst)
    }
    pub fn addrs<'a>(&'a self, host: &'a Name) -> impl Iterator<Item = &'a CEntry> + 'a {
        self.entries.iter().filter(move |e| category(e.rtype) == 3 && e.name.eq_ignore_case(host))
    }
    pub fn txts<'a>(&'a self, inst: &'a Name) -> impl Iterator<Item = &'a CEntry> + 'a {
        self.entries.iter().filter(move |e| e.rtype == T_TXT && e.name == *inst)
    }
}

// ---------------------------------------------------------------------------------------------
// Executor
// ---------------------------------------------------------------------------------------------

pub struct Run {
    pub world: World,
    pub insts_final: Vec<InstState>,
    /// states of the instances at each op (for judges that need the value delivered)
    pub steps_forced: u64,
}

pub fn browsed_names(case: &Case) -> Vec<Name> {
    case.browse.iter().map(|t| Name::from_escaped(TYPES[*t % 2])).collect()
}

fn src_for(ifs: &[IfSpec], k: usize, h: u8) -> SocketAddr {
    if ifs[k].v4 {
        SocketAddr::new(IpAddr::V4(subnet_v4(k, h)), MDNS_PORT)
    } else {
        SocketAddr::new(IpAddr::V6(subnet_v6(k, h as u16)), MDNS_PORT)
    }
}

/// What the scripted responder answers to a query of the daemon.
fn respond(insts: &[InstState], m: &Message) -> Option<Vec<Record>> {
    if m.is_response() {
        return None;
    }
    let mut out: Vec<Record> = Vec::new();
    for q in &m.questions {
        for st in insts {
            let sel = |kind: Kind, ttl: u32| RecSel {
                inst: 0,
                kind,
                ttl,
                flush_as_usual: true,
                section: 0,
            };
            if q.name.eq_ignore_case(&st.fullname()) {
                if q.qtype == T_SRV || q.qtype == T_ANY {
                    out.push(record_for(st, &sel(Kind::Srv, 120)));
                }
                if q.qtype == T_TXT || q.qtype == T_ANY {
                    out.push(record_for(st, &sel(Kind::Txt, 4500)));
                }
            }
            if q.name.eq_ignore_case(&host_name(st.host)) {
                if q.qtype == T_A || q.qtype == T_ANY {
                    out.push(record_for(st, &sel(Kind::Addr(0), 120)));
                }
                if q.qtype == T_AAAA || q.qtype == T_ANY {
                    out.push(record_for(st, &sel(Kind::Addr(2), 120)));
                }
            }
            if q.name.eq_ignore_case(&st.ty_name()) && q.qtype == T_PTR {
                // known-answer suppression: a responder keeps quiet about listed PTRs
                let known = m.answers.iter().any(|r| r.rtype == T_PTR && wire::ptr_target(r).is_some_and(|n| n.eq_ignore_case(&st.fullname())) && r.ttl > 2250);
                if !known {
                    out.push(record_for(st, &sel(Kind::Ptr, 4500)));
                }
            }
        }
    }
    out.dedup();
    if out.is_empty() {
        None
    } else {
        Some(out)
    }
}

pub fn execute(case: &Case, seed: u64) -> Result<Run, String> {
    let mut d = SimDaemon::new("B", sim_ifs(&case.ifs), T0, seed)?;
    let _ = d.d.set_ip_check_interval(1_000_000);
    if case.accept_unsolicited {
        let _ = d.d.accept_unsolicited(true);
    }
    d.dirty = true;
    let mut w = World::new(T0);
    let di = w.add(d);
    w.settle();
    for ty in &case.browse {
        let now = w.now;
        w.daemons[di].set_now(now);
        let _ = w.daemons[di].browse(TYPES[*ty % 2]);
    }
    for h in &case.resolve_hosts {
        // (the API accepts only names ending in a lower-case ".local."; the host label keeps its case)
        let name = host_name(*h).to_escaped();
        let name = match name.strip_suffix(".Local.") {
            Some(head) => format!("{head}.local."),
            None => name,
        };
        let _ = w.daemons[di].resolve_hostname(&name, None);
    }
    w.settle();
    let mut insts: Vec<InstState> = case
        .insts
        .iter()
        .map(|d| InstState {
            def: d.clone(),
            port: d.port,
            txt_ver: 0,
            host: d.host % NHOSTS,
        })
        .collect();
    let browsed = browsed_names(case);
    let mut upper = RefCache {
        strict: false,
        apply_verify: true,
        ..Default::default()
    };
    let mut responder: Option<u64> = None;
    let mut responder_mute: u8 = 0;
    let mut addr_answers_lost: u32 = 0;
    let mut steps_forced = 0u64;
    let mut fed = 0usize;

    // runs to `t`, letting the responder answer and keeping the forced wake-ups up to date
    #[allow(clippy::too_many_arguments)]
    fn run_to(w: &mut World, di: usize, t: u64, insts: &[InstState], responder: Option<u64>, mute: (u8, &mut u32), upper: &mut RefCache, browsed: &[Name], case: &Case, steps_forced: &mut u64, fed: &mut usize) {
        let ifs = &case.ifs;
        loop {
            // what was received so far goes into the upper-bound cache
            for (pos, e) in w.daemons[di].log.iter().enumerate().skip(*fed) {
                if let Ev::Rx { msg: Some(m), if_index, .. } = &e.ev {
                    upper.receive(e.t, *if_index, m, browsed, case.accept_unsolicited, pos);
                }
            }
            *fed = w.daemons[di].log.len();
            if case.forced_wakes {
                let now = w.now;
                for e in upper.expiries_after(now) {
                    if e <= t && w.daemons[di].forced.insert(e) {
                        *steps_forced += 1;
                    }
                }
            }
            let Some(next) = w.next_event_time() else { break };
            if next > t || w.budget_exhausted || !w.daemons[di].alive() {
                break;
            }
            let mut cb = |_d: usize, now: u64, sent: &[Tx]| -> Vec<(u64, u32, SocketAddr, Vec<u8>)> {
                let Some(delay) = responder else { return Vec::new() };
                let mut out = Vec::new();
                for tx in sent {
                    let (Some(m), Some(ix)) = (tx.msg.as_ref(), tx.if_index) else { continue };
                    // answer once per query: on the first interface, first family
                    if ix != if_index(0) || tx.v4() != ifs[0].v4 {
                        continue;
                    }
                    if let Some(mut recs) = respond(insts, m) {
                        let is_addr = |r: &Record| matches!(r.rdata, RData::A(_) | RData::Aaaa(_));
                        match mute.0 {
                            1 => recs.retain(|r| !is_addr(r)),
                            2 => {
                                if recs.iter().any(is_addr) && *mute.1 == 0 {
                                    *mute.1 += 1;
                                    recs.retain(|r| !is_addr(r));
                                }
                            }
                            3 => recs.retain(|r| r.rtype == T_PTR),
                            _ => {}
                        }
                        if !recs.is_empty() {
                            out.push((now + delay, ix, src_for(ifs, 0, 200), crate::sim::peer::response(recs, vec![])));
                        }
                    }
                }
                out
            };
            w.run_until_cb(next.max(w.now), &mut cb);
        }
        w.run_until(t);
        for (pos, e) in w.daemons[di].log.iter().enumerate().skip(*fed) {
            if let Ev::Rx { msg: Some(m), if_index, .. } = &e.ev {
                upper.receive(e.t, *if_index, m, browsed, case.accept_unsolicited, pos);
            }
        }
        *fed = w.daemons[di].log.len();
    }

    for op in &case.ops {
        let now = w.now;
        run_to(&mut w, di, now, &insts, responder, (responder_mute, &mut addr_answers_lost), &mut upper, &browsed, case, &mut steps_forced, &mut fed);
        let now = w.now;
        w.daemons[di].set_now(now);
        match op {
            Op::Deliver { k, recs, copies } => {
                let k = *k % case.ifs.len();
                let mut secs: [Vec<Record>; 3] = [Vec::new(), Vec::new(), Vec::new()];
                for sel in recs {
                    if insts.is_empty() {
                        break;
                    }
                    let st = &insts[sel.inst % insts.len()];
                    secs[(sel.section % 3) as usize].push(record_for(st, sel));
                }
                let [an, ns, ar] = secs;
                if an.is_empty() && ns.is_empty() && ar.is_empty() {
                    continue;
                }
                let bytes = encode(
                    &Message {
                        id: 0,
                        flags: QR | AA,
                        questions: vec![],
                        answers: an,
                        authorities: ns,
                        additionals: ar,
                    },
                    Compress::Suffix,
                );
                for _ in 0..(*copies).clamp(1, 2) {
                    w.daemons[di].inject(if_index(k), src_for(&case.ifs, k, 210), bytes.clone());
                }
            }
            Op::Update { inst, what } => {
                if insts.is_empty() {
                    continue;
                }
                let n = insts.len();
                let st = &mut insts[*inst % n];
                match what % 3 {
                    0 => st.port = st.port.wrapping_add(1).max(1),
                    1 => st.txt_ver = st.txt_ver.wrapping_add(1),
                    _ => st.host = (st.host + 1) % NHOSTS,
                }
                w.daemons[di].api(format!("(world) instance {} is now port {} txt v{} host {}", st.def.label, st.port, st.txt_ver, st.host));
                w.daemons[di].dirty = false;
            }
            Op::Advance { ms } => {
                let t = w.now + *ms;
                run_to(&mut w, di, t, &insts, responder, (responder_mute, &mut addr_answers_lost), &mut upper, &browsed, case, &mut steps_forced, &mut fed);
            }
            Op::Verify { inst, timeout_ms } => {
                if insts.is_empty() {
                    continue;
                }
                let st = &insts[*inst % insts.len()];
                let name = st.fullname();
                let _ = w.daemons[di].verify(&name.to_plain(), *timeout_ms);
                upper.verify(now, &name, *timeout_ms);
            }
            Op::Rebrowse { ty } => {
                if case.browse.contains(&(*ty % 2)) {
                    let _ = w.daemons[di].browse(TYPES[*ty % 2]);
                }
            }
            Op::StopStart { ty } => {
                if case.browse.contains(&(*ty % 2)) {
                    let _ = w.daemons[di].stop_browse(TYPES[*ty % 2]);
                    w.settle();
                    let _ = w.daemons[di].browse(TYPES[*ty % 2]);
                }
            }
            Op::Responder { on, delay_ms, mute } => {
                responder = if *on { Some(*delay_ms) } else { None };
                responder_mute = *mute;
                addr_answers_lost = 0;
            }
        }
        let now = w.now;
        run_to(&mut w, di, now, &insts, responder, (responder_mute, &mut addr_answers_lost), &mut upper, &browsed, case, &mut steps_forced, &mut fed);
        if w.budget_exhausted {
            break;
        }
    }
    let t = w.now + case.tail_ms;
    run_to(&mut w, di, t, &insts, responder, (responder_mute, &mut addr_answers_lost), &mut upper, &browsed, case, &mut steps_forced, &mut fed);
    Ok(Run {
        world: w,
        insts_final: insts,
        steps_forced,
    })
}

/// Replays a history into the reference caches, calling `at` before every log entry with
/// (upper bound, lower bound). See `replay3` for the third cache.
pub fn replay<'a>(case: &Case, log: &'a [Entry], mut at: impl FnMut(usize, &'a Entry, &RefCache, &RefCache)) {
    replay3(case, log, |p, e, u, l, _m| at(p, e, u, l));
}

/// `at(pos, entry, upper, lower, mid)`: upper = everything received, TTL only; lower and mid = the
/// statement's rule for datagrams that are someone else's answer, with verify and stop_browse
/// applied (lower: verify also reaches records running out at that instant; mid: it does not).
pub fn replay3<'a>(case: &Case, log: &'a [Entry], mut at: impl FnMut(usize, &'a Entry, &RefCache, &RefCache, &RefCache)) {
    let browsed_all = browsed_names(case);
    let mut browsed: Vec<Name> = Vec::new();
    let mut upper = RefCache {
        strict: false,
        apply_verify: false,
        ..Default::default()
    };
    // lower bound of what is live (used for "must not remove yet")
    let mut lower = RefCache {
        strict: true,
        apply_verify: true,
        verify_inclusive: true,
        ..Default::default()
    };
    // the statement's cache with verify applied only where it certainly applies (used for
    // "must remove now")
    let mut mid = RefCache {
        strict: true,
        apply_verify: true,
        verify_inclusive: false,
        ..Default::default()
    };
    for (pos, e) in log.iter().enumerate() {
        at(pos, e, &upper, &lower, &mid);
        match &e.ev {
            Ev::Rx { msg: Some(m), if_index, .. } => {
                upper.receive(e.t, *if_index, m, &browsed, case.accept_unsolicited, pos);
                lower.receive(e.t, *if_index, m, &browsed, case.accept_unsolicited, pos);
                mid.receive(e.t, *if_index, m, &browsed, case.accept_unsolicited, pos);
            }
            Ev::Api(s) => {
                if let Some(rest) = s.strip_prefix("browse(") {
                    let n = Name::from_escaped(rest.trim_end_matches(')'));
                    if browsed_all.contains(&n) && !browsed.contains(&n) {
                        browsed.push(n);
                    }
                } else if let Some(rest) = s.strip_prefix("stop_browse(") {
                    let n = Name::from_escaped(rest.trim_end_matches(')'));
                    browsed.retain(|x| *x != n);
                    lower.forget_type(&n);
                    mid.forget_type(&n);
                } else if let Some(rest) = s.strip_prefix("verify(") {
                    // "verify(<plain name>, <n> ms)"
                    if let Some((name, tmo)) = rest.rsplit_once(", ") {
                        let tmo: u64 = tmo.trim_end_matches(" ms)").parse().unwrap_or(0);
                        // the plain text has no escapes: rebuild the instance name from the world
                        for i in &case.insts {
                            let st = InstState {
                                def: i.clone(),
                                port: 0,
                                txt_ver: 0,
                                host: 0,
                            };
                            if st.fullname().to_plain() == name {
                                lower.verify(e.t, &st.fullname(), tmo);
                                mid.verify(e.t, &st.fullname(), tmo);
                            }
                        }
                    }
                }
            }
            _ => {}
        }
    }
}

/// The instance a reported full name belongs to.
pub fn inst_by_plain(case: &Case, plain: &str) -> Option<(usize, Name)> {
    for (i, d) in case.insts.iter().enumerate() {
        let st = InstState {
            def: d.clone(),
            port: 0,
            txt_ver: 0,
            host: 0,
        };
        if st.fullname().to_plain().eq_ignore_ascii_case(plain) {
            return Some((i, st.fullname()));
        }
    }
    None
}

pub fn common_failures(prop: &str, case: &Case, run: &Run, ctx: &mut CaseCtx) -> bool {
    let d = &run.world.daemons[0];
    if let Some(m) = &d.dead {
        ctx.violation(
            format!("{prop}/daemon-died/{}", m.split(": ").next().unwrap_or("")),
            format!("daemon died: {m}\nops: {}\n{}", ops_text(case), render_log(&d.log, true, 40)),
        );
        return true;
    }
    if run.world.budget_exhausted {
        ctx.violation(format!("{prop}/harness/step-budget"), format!("simulation step budget exhausted\nops: {}", ops_text(case)));
        return true;
    }
    false
}

pub fn ops_text(case: &Case) -> String {
    format!(
        "browse {:?} unsolicited={} insts {:?}\n{}",
        case.browse,
        case.accept_unsolicited,
        case.insts.iter().map(|i| format!("{}@ty{} host{} port{}", i.label, i.ty, i.host, i.port)).collect::<Vec<_>>(),
        case.ops.iter().map(|o| format!("{o:?}")).collect::<Vec<_>>().join("; ")
    )
}

pub fn render_resolved(ev: &ServiceEvent) -> String {
    render_service_event(ev)
}
