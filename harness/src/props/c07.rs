//! C07 - a name is probed three times before it is announced, then announced twice (E3).

use crate::gen::*;
use crate::refdns::*;
use crate::runner::*;
use crate::sim::peer;
use crate::sim::*;
use mdns_sd::ServiceInfo;
use proptest::prelude::*;
use serde::{Deserialize, Serialize};
use serde_json::json;
use std::net::{IpAddr, SocketAddr};

#[derive(Clone, Debug, Serialize, Deserialize)]
pub struct SvcSpec {
    pub inst: String,
    pub ty: usize,
    pub sub: bool,
    pub host: usize,
    pub v4: bool,
    pub v6: bool,
    /// `enable_addr_auto()` with no explicit address.
    pub auto: bool,
    /// Interfaces (by position) in whose subnets the service has explicit addresses.
    pub on: Vec<bool>,
    pub port: u16,
    pub delay_ms: u64,
    pub txt: Vec<(String, String)>,
}

#[derive(Clone, Debug, Serialize, Deserialize)]
pub struct Case {
    pub ifs: Vec<IfSpec>,
    pub jitter: u64,
    pub services: Vec<SvcSpec>,
    /// A further interface that appears at this time (ms after start).
    pub late_if: Option<(IfSpec, u64)>,
    /// (at ms, service index, kind) query injected early.
    pub query: Option<(u64, usize, u8)>,
    /// after everything is announced: (service index, what changes: 0 TXT, 1 port, 2 both) - the
    /// service is registered again with other data
    #[serde(default)]
    pub update: Option<(usize, u8)>,
}

pub struct Planned {
    pub fullname: Name,
    pub ty: Name,
    pub sub: Option<Name>,
    pub host: Name,
    pub port: u16,
    pub txt_rdata: Vec<u8>,
    /// all addresses of the service (explicit) - for auto services filled per interface
    pub addrs: Vec<IpAddr>,
    pub reg_time: u64,
    pub auto: bool,
}

fn service_addrs(s: &SvcSpec, nifs: usize) -> Vec<IpAddr> {
    let mut v = Vec::new();
    for k in 0..nifs {
        if *s.on.get(k).unwrap_or(&false) {
            if s.v4 {
                v.push(IpAddr::V4(subnet_v4(k, 50 + s.host as u8)));
            }
            if s.v6 {
                v.push(IpAddr::V6(subnet_v6(k, 50 + s.host as u16)));
            }
        }
    }
    v
}

fn txt_rdata(txt: &[(String, String)]) -> Vec<u8> {
    let mut seen: Vec<String> = Vec::new();
    let mut attrs = Vec::new();
    for (k, v) in txt {
        if seen.contains(&k.to_lowercase()) {
            continue;
        }
        seen.push(k.to_lowercase());
        attrs.push((k.as_bytes().to_vec(), Some(v.as_bytes().to_vec())));
    }
    crate::refdns::txt_encode(&attrs)
}

/// Addresses of a planned service usable on interface `k` for family v4/v6.
fn usable(p: &Planned, ifs: &[IfSpec], k: usize, v4: bool) -> Vec<IpAddr> {
    let Some(spec) = ifs.get(k) else { return vec![] };
    if (v4 && !spec.v4) || (!v4 && !spec.v6) {
        return vec![];
    }
    if p.auto {
        return vec![if v4 {
            IpAddr::V4(own_v4(k))
        } else {
            IpAddr::V6(own_v6(k))
        }];
    }
    p.addrs
        .iter()
        .filter(|a| a.is_ipv4() == v4 && subnet_of(a) == Some(k))
        .copied()
        .collect()
}

fn has_q(m: &Message, name: &Name, qtype: u16) -> bool {
    m.questions
        .iter()
        .any(|q| q.qtype == qtype && q.name.eq_ignore_case(name))
}

fn is_probe_for(m: &Message, name: &Name) -> bool {
    !m.is_response() && has_q(m, name, T_ANY)
}

/// An announcement of `p`: a response with the PTR as an answer that was not solicited by a
/// query in the same iteration - or, in an iteration that also consumed a query, one that
/// carries the SRV in the answer section too (answers to PTR questions carry it as an
/// additional, answers to instance questions carry no PTR answer).
fn announces_s(m: &Message, solicited: bool, p: &Planned) -> bool {
    m.is_response()
        && m.answers.iter().any(|r| {
            r.rtype == T_PTR
                && r.ttl > 0
                && r.name.eq_ignore_case(&p.ty)
                && matches!(&r.rdata, RData::Ptr(n) if n.eq_ignore_case(&p.fullname))
        })
        && (!solicited || (m.additionals.is_empty() && m.answers.iter().any(|r| r.rtype == T_SRV && r.name.eq_ignore_case(&p.fullname))))
}

fn mentions_instance(m: &Message, p: &Planned) -> bool {
    m.is_response()
        && m.all_records().any(|r| {
            r.name.eq_ignore_case(&p.fullname) || matches!(&r.rdata, RData::Ptr(n) if n.eq_ignore_case(&p.fullname))
        })
}

pub fn check(case: &Case, ctx: &mut CaseCtx) {
    let nifs0 = case.ifs.len();
    let mut all_ifs = case.ifs.clone();
    if let Some((s, _)) = &case.late_if {
        all_ifs.push(*s);
    }
    let mut d = match SimDaemon::new("D", sim_ifs(&case.ifs), T0, 7) {
        Ok(d) => d,
        Err(e) => {
            ctx.violation("C07/harness/spawn", e);
            return;
        }
    };
    d.h.set_jitter_default(Some(case.jitter));
    let _ = d.monitor();
    let mut w = World::new(T0);
    let di = w.add(d);

    // timeline of harness actions
    #[derive(Clone)]
    enum Act {
        Register(usize),
        LateIf,
        Query(usize, u8),
    }
    let mut acts: Vec<(u64, Act)> = Vec::new();
    for (i, s) in case.services.iter().enumerate() {
        acts.push((s.delay_ms, Act::Register(i)));
    }
    if let Some((_, at)) = &case.late_if {
        acts.push((*at, Act::LateIf));
    }
    if let Some((at, s, k)) = &case.query {
        acts.push((*at, Act::Query(*s % case.services.len(), *k)));
    }
    acts.sort_by_key(|a| a.0);

    let mut planned: Vec<Option<Planned>> = (0..case.services.len()).map(|_| None).collect();
    let mut late_at: Option<u64> = None;
    for (at, act) in acts {
        w.run_until(T0 + at);
        match act {
            Act::Register(i) => {
                let s = &case.services[i];
                let ty = TYPES[s.ty % TYPES.len()];
                let ty_arg = if s.sub {
                    format!("_printer._sub.{ty}")
                } else {
                    ty.to_string()
                };
                let host = HOSTS[s.host % HOSTS.len()];
                let addrs = if s.auto {
                    vec![]
                } else {
                    service_addrs(s, all_ifs.len())
                };
                let addr_str = addrs.iter().map(|a| a.to_string()).collect::<Vec<_>>().join(",");
                let props: Vec<(&str, &str)> = s.txt.iter().map(|(k, v)| (k.as_str(), v.as_str())).collect();
                let info = ServiceInfo::new(&ty_arg, &s.inst, host, addr_str.as_str(), s.port, &props[..]);
                let Ok(mut info) = info else { continue };
                if s.auto {
                    info = info.enable_addr_auto();
                }
                let fullname = Name::from_escaped(info.get_fullname());
                let dm = &mut w.daemons[di];
                if dm.register(info).is_err() {
                    continue;
                }
                planned[i] = Some(Planned {
                    fullname,
                    ty: Name::from_escaped(ty),
                    sub: if s.sub {
                        Some(Name::from_escaped(&ty_arg))
                    } else {
                        None
                    },
                    host: Name::from_escaped(host),
                    port: s.port,
                    txt_rdata: txt_rdata(&s.txt),
                    addrs,
                    reg_time: T0 + at,
                    auto: s.auto,
                });
            }
            Act::LateIf => {
                let now = w.now;
                w.daemons[di].set_now(now);
                w.daemons[di].set_interfaces(sim_ifs(&all_ifs));
                late_at = Some(T0 + at);
            }
            Act::Query(si, kind) => {
                let Some(p) = planned[si].as_ref() else { continue };
                // ask on every interface present
                let nif = if late_at.is_some() { all_ifs.len() } else { nifs0 };
                for k in 0..nif {
                    let (qn, qt) = match kind % 4 {
                        0 => (p.ty.clone(), T_PTR),
                        1 => (p.fullname.clone(), T_SRV),
                        2 => (p.fullname.clone(), T_ANY),
                        _ => (p.fullname.clone(), T_TXT),
                    };
                    let src: SocketAddr = if all_ifs[k].v4 {
                        SocketAddr::new(IpAddr::V4(subnet_v4(k, 77)), MDNS_PORT)
                    } else {
                        SocketAddr::new(IpAddr::V6(subnet_v6(k, 77)), MDNS_PORT)
                    };
                    let bytes = peer::query(0, vec![peer::q(&qn, qt)], vec![], vec![]);
                    let now = w.now;
                    w.daemons[di].set_now(now);
                    w.daemons[di].inject(if_index(k), src, bytes);
                }
            }
        }
    }
    let last_reg = case.services.iter().map(|s| s.delay_ms).max().unwrap_or(0);
    let horizon = T0 + last_reg.max(case.late_if.map(|l| l.1 + 5000).unwrap_or(0)) + 250 + 750 + 1000 + 600;
    w.run_until(horizon);
    let upto = w.daemons[di].log.len();
    // second phase: one of the services is registered again with other data
    let mut updated: Option<(usize, Planned)> = None;
    if let Some((si, what)) = case.update {
        let si = si % case.services.len();
        if let Some(p) = planned[si].as_ref() {
            let s = &case.services[si];
            let ty = TYPES[s.ty % TYPES.len()];
            let ty_arg = if s.sub { format!("_printer._sub.{ty}") } else { ty.to_string() };
            let addr_str = p.addrs.iter().map(|a| a.to_string()).collect::<Vec<_>>().join(",");
            let mut txt = s.txt.clone();
            if what % 3 != 1 {
                txt.push(("upd".to_string(), "1".to_string()));
            }
            let port = if what % 3 != 0 { s.port.wrapping_add(1).max(1) } else { s.port };
            let props: Vec<(&str, &str)> = txt.iter().map(|(k, v)| (k.as_str(), v.as_str())).collect();
            if let Ok(mut info) = ServiceInfo::new(&ty_arg, &s.inst, HOSTS[s.host % HOSTS.len()], addr_str.as_str(), port, &props[..]) {
                if s.auto {
                    info = info.enable_addr_auto();
                }
                if w.daemons[di].register(info).is_ok() {
                    updated = Some((
                        si,
                        Planned {
                            fullname: p.fullname.clone(),
                            ty: p.ty.clone(),
                            sub: p.sub.clone(),
                            host: p.host.clone(),
                            port,
                            txt_rdata: txt_rdata(&txt),
                            addrs: p.addrs.clone(),
                            reg_time: horizon,
                            auto: p.auto,
                        },
                    ));
                }
            }
        }
        w.run_until(horizon + 250 + 750 + 1000 + 600);
    }
    ctx.count("sim_steps", w.total_steps);

    judge(case, &w.daemons[di], &planned, &all_ifs, nifs0, late_at, horizon, upto, ctx);
    if ctx.violations.is_empty() {
        if let Some((si, np)) = &updated {
            judge_update(&w.daemons[di], planned[*si].as_ref().unwrap(), np, upto, ctx);
        }
    }
    w.finish();
}

/// The registration of an announced service with other data: on every interface and family on which
/// the service had been announced, the new data is probed three times 250 ms apart and then announced
/// twice, within the same bound as a first registration.
fn judge_update(d: &SimDaemon, old: &Planned, new: &Planned, upto: usize, ctx: &mut CaseCtx) {
    // (a list that already has the added key keeps its first value: nothing changed, nothing to probe)
    if old.txt_rdata == new.txt_rdata && old.port == new.port {
        ctx.class("update-without-change");
        return;
    }
    let detail = |what: String| format!("{what}\n--- history since the second registration ---\n{}", render_log(&d.log[upto.saturating_sub(1)..], true, 60));
    if let Some(m) = &d.dead {
        ctx.violation(format!("C07/daemon-died/{}", m.split(": ").next().unwrap_or("")), detail(format!("daemon died: {m}")));
        return;
    }
    // where the service was announced before
    let mut places: Vec<(u32, bool)> = Vec::new();
    for e in &d.log[..upto] {
        if let Ev::Tx(tx) = &e.ev {
            if let (Some(m), Some(ix)) = (tx.msg.as_ref(), tx.if_index) {
                if announces_s(m, false, old) && !places.contains(&(ix, tx.v4())) {
                    places.push((ix, tx.v4()));
                }
            }
        }
    }
    let carries_new = |m: &Message, sections_all: bool| {
        let mut it: Box<dyn Iterator<Item = &Record>> = if sections_all { Box::new(m.all_records()) } else { Box::new(m.answers.iter()) };
        let txt_changed = old.txt_rdata != new.txt_rdata;
        let port_changed = old.port != new.port;
        let mut txt_ok = !txt_changed;
        let mut srv_ok = !port_changed;
        for r in &mut it {
            if !r.name.eq_ignore_case(&new.fullname) {
                continue;
            }
            match &r.rdata {
                RData::Txt(t) if *t == new.txt_rdata => txt_ok = true,
                RData::Srv { port, .. } if *port == new.port => srv_ok = true,
                _ => {}
            }
        }
        txt_ok && srv_ok
    };
    for (ix, v4) in places {
        let unit = format!("{} registered again on if{ix} {}", new.fullname.to_escaped(), if v4 { "IPv4" } else { "IPv6" });
        let mut probes: Vec<u64> = Vec::new();
        let mut anns: Vec<u64> = Vec::new();
        for e in &d.log[upto..] {
            if let Ev::Tx(tx) = &e.ev {
                let (Some(m), Some(i2)) = (tx.msg.as_ref(), tx.if_index) else { continue };
                if i2 != ix || tx.v4() != v4 {
                    continue;
                }
                if is_probe_for(m, &new.fullname) && m.authorities.iter().any(|r| r.name.eq_ignore_case(&new.fullname)) && anns.is_empty() {
                    probes.push(e.t);
                }
                if announces_s(m, false, new) && carries_new(m, false) {
                    anns.push(e.t);
                }
            }
        }
        ctx.class("update-judged");
        if anns.is_empty() {
            ctx.violation("C07/update/never-announced", detail(format!("{unit}: the new data is not announced within {} ms ({} probe(s) sent)", 250 + 750 + 1000 + 600, probes.len())));
            return;
        }
        if probes.len() < 3 {
            ctx.violation("C07/update/fewer-than-three-probes", detail(format!("{unit}: {} probe(s) with the new data before its announcement at +{} ms", probes.len(), anns[0] - T0)));
            return;
        }
        if probes.windows(2).any(|w| w[1] - w[0] < 250) {
            ctx.violation("C07/update/probes-closer-than-250ms", detail(format!("{unit}: probe times {:?}", probes.iter().map(|t| t - T0).collect::<Vec<_>>())));
            return;
        }
        if anns[0] < probes[probes.len() - 1] + 250 {
            ctx.violation("C07/update/announced-less-than-250ms-after-last-probe", detail(format!("{unit}: probes {:?}, announcement +{} ms", probes.iter().map(|t| t - T0).collect::<Vec<_>>(), anns[0] - T0)));
            return;
        }
        if anns.len() < 2 {
            ctx.violation("C07/update/announced-only-once", detail(format!("{unit}: a single announcement of the new data at +{} ms", anns[0] - T0)));
            return;
        }
    }
}

#[allow(clippy::too_many_arguments)]
fn judge(
    case: &Case,
    d: &SimDaemon,
    planned: &[Option<Planned>],
    all_ifs: &[IfSpec],
    nifs0: usize,
    late_at: Option<u64>,
    horizon: u64,
    upto: usize,
    ctx: &mut CaseCtx,
) {
    let fail = |ctx: &mut CaseCtx, sig: &str, detail: String| {
        ctx.violation(
            sig.to_string(),
            format!("{detail}\n--- history ---\n{}", render_log(&d.log, true, 60)),
        );
    };
    if let Some(m) = &d.dead {
        fail(ctx, &format!("C07/daemon-died/{}", m.split(": ").next().unwrap_or("")), format!("daemon died: {m}"));
        return;
    }
    // collect sent packets per interface
    struct Sent<'a> {
        t: u64,
        k: usize,
        v4: bool,
        m: &'a Message,
        solicited: bool,
    }
    let announces = |s: &Sent, p: &Planned| announces_s(s.m, s.solicited, p);
    let mut sent: Vec<Sent> = Vec::new();
    let mut pending_query = false;
    for e in &d.log[..upto] {
        match &e.ev {
            Ev::Rx { msg, .. } => {
                if msg.as_ref().is_some_and(|m| !m.is_response()) {
                    pending_query = true;
                }
            }
            Ev::Step { .. } => pending_query = false,
            _ => {}
        }
        if let Ev::Tx(tx) = &e.ev {
            let Some(m) = tx.msg.as_ref() else {
                fail(ctx, "C07/wire/unparsable-packet", format!("daemon sent {} bytes the reference decoder rejects", tx.bytes.len()));
                return;
            };
            let Some(ix) = tx.if_index else { continue };
            sent.push(Sent {
                t: e.t,
                k: (ix - 2) as usize,
                v4: tx.v4(),
                m,
                solicited: pending_query,
            });
        }
    }
    // detection time of the late interface: first interface poll after it appeared (an interface
    // that appears in the very millisecond of a poll may be seen by that poll or by the next one)
    let late_detect = late_at.map(|a| {
        let mut t = T0 + 5000;
        while t <= a {
            t += 5000;
        }
        t
    });

    let mut nontrivial_units = 0;
    for (si, p) in planned.iter().enumerate() {
        let Some(p) = p else { continue };
        for k in 0..all_ifs.len() {
            let is_late = k >= nifs0;
            if is_late && !p.auto {
                // Statement demands following new interfaces only for automatic addressing
                // (C18); explicit-address services are not judged on late interfaces.
                continue;
            }
            for v4 in [true, false] {
                let addrs = usable(p, all_ifs, k, v4);
                if addrs.is_empty() {
                    // never announced there
                    if let Some(s) = sent.iter().find(|s| s.k == k && s.v4 == v4 && announces(s, p)) {
                        fail(ctx, "C07/announced-without-address-on-link", format!(
                            "service {} announced on {} ({}) at +{} ms although it has no address of that family in that subnet",
                            p.fullname.to_escaped(), if_name(k), if v4 {"IPv4"} else {"IPv6"}, s.t - T0));
                        return;
                    }
                    continue;
                }
                nontrivial_units += 1;
                let base = if is_late { late_detect.unwrap_or(p.reg_time).max(p.reg_time) } else { p.reg_time };
                let fam = if v4 { "IPv4" } else { "IPv6" };
                let unit = format!("service#{si} {} on {} {fam}", p.fullname.to_escaped(), if_name(k));
                // announcements of this family on this interface
                let anns: Vec<&Sent> = sent.iter().filter(|s| s.k == k && s.v4 == v4 && announces(s, p)).collect();
                let Some(first) = anns.first() else {
                    fail(ctx, "C07/never-announced", format!("{unit}: no announcement within {} ms of registration/appearance", horizon - base));
                    return;
                };
                let bound = base + 250 + 750 + 1;
                if first.t > bound {
                    fail(ctx, "C07/announced-late", format!("{unit}: first announcement at +{} ms, bound +{} ms", first.t - T0, bound - T0));
                    return;
                }
                // probes for the instance name on this interface (any family) before the announcement
                let probes: Vec<&Sent> = sent.iter().filter(|s| s.k == k && s.v4 == v4 && s.t < first.t && is_probe_for(s.m, &p.fullname)).collect();
                let mut times: Vec<u64> = probes.iter().map(|s| s.t).collect();
                times.dedup();
                if times.len() < 3 {
                    fail(ctx, "C07/fewer-than-three-probes/instance", format!("{unit}: {} probe(s) for the instance name before the announcement at +{} ms (probe times {:?})", times.len(), first.t - T0, times.iter().map(|t| t - T0).collect::<Vec<_>>()));
                    return;
                }
                let last3 = &times[times.len() - 3..];
                if last3[1] - last3[0] < 250 || last3[2] - last3[1] < 250 {
                    fail(ctx, "C07/probes-closer-than-250ms", format!("{unit}: probe times {:?}", times.iter().map(|t| t - T0).collect::<Vec<_>>()));
                    return;
                }
                if last3[1] - last3[0] != 250 || last3[2] - last3[1] != 250 {
                    fail(ctx, "C07/probes-not-250ms-apart", format!("{unit}: probe times {:?} on a silent network with exact wake-ups", times.iter().map(|t| t - T0).collect::<Vec<_>>()));
                    return;
                }
                if first.t < last3[2] + 250 {
                    fail(ctx, "C07/announced-less-than-250ms-after-third-probe", format!("{unit}: third probe +{} ms, announcement +{} ms", last3[2] - T0, first.t - T0));
                    return;
                }
                // authority section of the instance probes: SRV + TXT
                for s in &probes {
                    let srv_ok = s.m.authorities.iter().any(|r| r.rtype == T_SRV && r.name.eq_ignore_case(&p.fullname)
                        && matches!(&r.rdata, RData::Srv{port, target, ..} if *port == p.port && target.eq_ignore_case(&p.host)));
                    let txt_ok = s.m.authorities.iter().any(|r| r.rtype == T_TXT && r.name.eq_ignore_case(&p.fullname)
                        && matches!(&r.rdata, RData::Txt(t) if *t == p.txt_rdata));
                    if !srv_ok || !txt_ok {
                        fail(ctx, "C07/probe-without-proposed-records/instance", format!("{unit}: probe at +{} ms lacks the proposed SRV/TXT in its authority section (srv {srv_ok}, txt {txt_ok})", s.t - T0));
                        return;
                    }
                }
                // host name: probed three times unless already announced on this interface before
                let host_held_before = sent.iter().any(|s| s.k == k && s.t < first.t && s.m.is_response()
                    && s.m.answers.iter().any(|r| (r.rtype == T_A || r.rtype == T_AAAA) && r.ttl > 0 && r.name.eq_ignore_case(&p.host)));
                let hprobes: Vec<&Sent> = sent.iter().filter(|s| s.k == k && s.v4 == v4 && s.t < first.t && is_probe_for(s.m, &p.host)).collect();
                let mut htimes: Vec<u64> = hprobes.iter().map(|s| s.t).collect();
                htimes.dedup();
                if !host_held_before {
                    if htimes.len() < 3 {
                        fail(ctx, "C07/fewer-than-three-probes/host", format!("{unit}: {} probe(s) for host {} before the announcement", htimes.len(), p.host.to_escaped()));
                        return;
                    }
                    for s in hprobes.iter().filter(|s| s.t >= p.reg_time) {
                        for a in &addrs {
                            let ok = s.m.authorities.iter().any(|r| r.name.eq_ignore_case(&p.host) && match (&r.rdata, a) {
                                (RData::A(x), IpAddr::V4(y)) => x == y,
                                (RData::Aaaa(x), IpAddr::V6(y)) => x == y,
                                _ => false,
                            });
                            if !ok {
                                fail(ctx, "C07/probe-without-proposed-records/host", format!("{unit}: host probe at +{} ms lacks address {a} in its authority section", s.t - T0));
                                return;
                            }
                        }
                    }
                }
                // nothing about the instance before the announcement
                if let Some(s) = sent.iter().find(|s| s.k == k && s.t < first.t && mentions_instance(s.m, p)) {
                    fail(ctx, "C07/answered-before-announced", format!("{unit}: response at +{} ms carries records of the instance before its first announcement at +{} ms", s.t - T0, first.t - T0));
                    return;
                }
                // announcement content
                for (ai, a) in anns.iter().take(2).enumerate() {
                    let m = a.m;
                    let has = |pred: &dyn Fn(&Record) -> bool| m.answers.iter().any(pred);
                    let ptr_ok = has(&|r| r.rtype == T_PTR && r.name.eq_ignore_case(&p.ty) && !r.flush() && r.ttl == 4500);
                    let sub_ok = p.sub.as_ref().is_none_or(|sn| has(&|r| r.rtype == T_PTR && r.name.eq_ignore_case(sn) && r.ttl == 4500
                        && matches!(&r.rdata, RData::Ptr(n) if n.eq_ignore_case(&p.fullname))));
                    let srv_ok = has(&|r| r.rtype == T_SRV && r.name.eq_ignore_case(&p.fullname) && r.flush() && r.ttl == 120
                        && matches!(&r.rdata, RData::Srv{port, target, ..} if *port == p.port && target.eq_ignore_case(&p.host)));
                    let txt_ok = has(&|r| r.rtype == T_TXT && r.name.eq_ignore_case(&p.fullname) && r.flush() && r.ttl == 4500
                        && matches!(&r.rdata, RData::Txt(t) if *t == p.txt_rdata));
                    let addr_ok = addrs.iter().all(|ad| has(&|r| r.name.eq_ignore_case(&p.host) && r.flush() && r.ttl == 120 && match (&r.rdata, ad) {
                        (RData::A(x), IpAddr::V4(y)) => x == y,
                        (RData::Aaaa(x), IpAddr::V6(y)) => x == y,
                        _ => false,
                    }));
                    if !(ptr_ok && sub_ok && srv_ok && txt_ok && addr_ok) {
                        fail(ctx, "C07/announcement-incomplete", format!("{unit}: announcement #{} at +{} ms: ptr {ptr_ok} subptr {sub_ok} srv {srv_ok} txt {txt_ok} addresses {addr_ok}", ai + 1, a.t - T0));
                        return;
                    }
                    // only in-subnet addresses of this family
                    for r in m.answers.iter().filter(|r| r.name.eq_ignore_case(&p.host)) {
                        let ip = match &r.rdata {
                            RData::A(x) => Some(IpAddr::V4(*x)),
                            RData::Aaaa(x) => Some(IpAddr::V6(*x)),
                            _ => None,
                        };
                        if let Some(ip) = ip {
                            if !addrs.contains(&ip) {
                                fail(ctx, "C07/announcement-carries-foreign-address", format!("{unit}: announcement at +{} ms carries {ip}", a.t - T0));
                                return;
                            }
                        }
                    }
                }
                if anns.len() < 2 {
                    fail(ctx, "C07/announced-only-once", format!("{unit}: a single announcement at +{} ms", first.t - T0));
                    return;
                }
                if anns[1].t - first.t != 1000 {
                    fail(ctx, "C07/second-announcement-not-1s-later", format!("{unit}: announcements at +{} and +{} ms", first.t - T0, anns[1].t - T0));
                    return;
                }
            }
        }
    }
    let shared_host = {
        let mut hs: Vec<usize> = case.services.iter().map(|s| s.host % HOSTS.len()).collect();
        hs.sort();
        let n = hs.len();
        hs.dedup();
        hs.len() != n
    };
    ctx.class_if(shared_host, "shared-host");
    ctx.class_if(case.late_if.is_some() && case.services.iter().any(|s| s.auto), "late-interface-with-auto-service");
    ctx.class_if(all_ifs.len() >= 2, ">=2-interfaces");
    ctx.class_if(case.services.len() >= 2, ">=2-services");
    ctx.class_if(case.query.is_some(), "early-query");
    ctx.class_if(case.services.iter().any(|s| s.sub), "subtype");
    ctx.class_if(all_ifs.iter().any(|i| i.v6), "ipv6");
    ctx.class_if(nontrivial_units > 0, "judged-units");
    ctx.count("judged_units", nontrivial_units);
    if nontrivial_units > 0 && (case.services.len() >= 2 || all_ifs.len() >= 2 || shared_host) {
        ctx.nontrivial(format!(
            "svcs{} ifs{:?} late{} shared{} j{} q{:?} delays{:?}",
            case.services.len(),
            all_ifs.iter().map(|i| (i.v4, i.v6)).collect::<Vec<_>>(),
            case.late_if.is_some(),
            shared_host,
            case.jitter / 25,
            case.query.map(|q| q.2 % 4),
            case.services.iter().map(|s| s.delay_ms / 250).collect::<Vec<_>>()
        ));
    }
    if ctx.want_sample {
        ctx.sample = Some(json!({
            "interfaces": all_ifs.iter().enumerate().map(|(k, i)| format!("{} v4={} v6={}", if_name(k), i.v4, i.v6)).collect::<Vec<_>>(),
            "jitter_ms": case.jitter,
            "history_tail": render_log(&d.log, true, 14).lines().map(|l| l.chars().take(220).collect::<String>()).collect::<Vec<_>>(),
        }));
    }
}

pub fn strategy(tier_all_jitters: bool) -> BoxedStrategy<Case> {
    let svc = (
        instance_label(),
        0usize..3,
        proptest::bool::weighted(0.25),
        0usize..2,
        prop_oneof![4 => Just((true, false)), 2 => Just((true, true)), 1 => Just((false, true))],
        proptest::bool::weighted(0.25),
        proptest::collection::vec(proptest::bool::weighted(0.8), 4),
        1u16..65535,
        prop_oneof![3 => Just(0u64), 1 => Just(250), 1 => Just(500), 3 => 0u64..1500],
        proptest::collection::vec(("[a-z]{1,4}", "[a-z0-9]{0,6}"), 0..3),
    )
        .prop_map(|(inst, ty, sub, host, (v4, v6), auto, on, port, delay_ms, txt)| SvcSpec {
            inst,
            ty,
            sub,
            host,
            v4,
            v6,
            auto,
            on,
            port,
            delay_ms,
            txt,
        });
    let jitter = if tier_all_jitters {
        (0u64..250).boxed()
    } else {
        prop_oneof![Just(0u64), Just(1), Just(124), Just(125), Just(249), (0u64..25).prop_map(|x| x * 10)].boxed()
    };
    (
        iftable(3),
        jitter,
        proptest::collection::vec(svc, 1..=4),
        proptest::option::weighted(0.3, (ifspec(), 0u64..6000)),
        proptest::option::weighted(0.5, (0u64..1300, 0usize..4, 0u8..4)),
        proptest::option::weighted(0.3, (0usize..4, 0u8..3)),
    )
        .prop_map(|(ifs, jitter, mut services, late_if, query, update)| {
            // distinct instance names per type (a re-register of the same name is C09's domain)
            for i in 0..services.len() {
                for j in 0..i {
                    if services[i].inst.to_lowercase() == services[j].inst.to_lowercase() && services[i].ty == services[j].ty {
                        services[i].inst = format!("{}{}", services[i].inst.chars().take(50).collect::<String>(), i);
                    }
                }
            }
            // services sharing a host name share that host's addresses
            for i in 0..services.len() {
                for j in 0..i {
                    if services[i].host % HOSTS.len() == services[j].host % HOSTS.len() {
                        services[i].v4 = services[j].v4;
                        services[i].v6 = services[j].v6;
                        services[i].auto = services[j].auto;
                        services[i].on = services[j].on.clone();
                        break;
                    }
                }
            }
            let ifs = if ifs.len() == 3 && late_if.is_some() { ifs[..2].to_vec() } else { ifs };
            Case {
                ifs,
                jitter,
                services,
                late_if,
                query,
                update,
            }
        })
        .boxed()
}

pub fn run(tier: Tier) -> i32 {
    let mut agg = Agg::new("C07", tier);
    agg.assume("silent simulated network, daemon woken exactly when it asks (and at once for API calls and datagrams); clients drain their channels");
    agg.assume("services sharing a host name share that host's addresses; a host name counts as already held once an announcement carrying an address record for it left on that interface");
    agg.assume("late interfaces are judged only for enable_addr_auto services (C18 states the following of new interfaces for automatic addressing only)");
    run_regressions::<Case>(&mut agg, "registrations", &check);
    let all = tier == Tier::Thorough;
    run_part(
        &mut agg,
        &Part {
            name: "registrations",
            rule: "1-4 registrations (fancy instance labels, subtype or not, v4/v6/both, explicit or automatic addresses, shared hosts, staggered by 0-1500 ms) on 1-3 interfaces, optional late interface, optional early query, scripted start jitter, optionally one service registered again with another TXT and/or port once everything is announced; judged per (service, interface, family) with an in-subnet address; \
                   non-trivial = at least one judged unit and (>=2 services or >=2 interfaces or shared host); distinct by (service count, interface layout, late interface, shared host, jitter bucket, query kind, delays)",
            cases: scale(tier.pick(16_000, 400_000)),
            max_shrink_iters: 600,
            strategy: &move || strategy(all),
            check: &check,
        },
    );
    agg.require_class("registrations:judged-units", 1000);
    agg.require_class("registrations:shared-host", 300);
    agg.require_class("registrations:late-interface-with-auto-service", 100);
    agg.require_class("registrations:ipv6", 300);
    agg.require_class("registrations:update-judged", 500);
    agg.finish()
}

pub fn replay(file: &std::path::Path) -> i32 {
    replay_part::<Case>("C07", "registrations", file, 5, &check).unwrap_or_else(|| {
        eprintln!("harness error: replay file does not belong to C07");
        2
    })
}
