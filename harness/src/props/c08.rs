//! C08 - name conflicts resolve to one winner and a consistent new name for the loser (E2 + E3).

use crate::gen::*;
use crate::refdns::*;
use crate::runner::*;
use crate::sim::peer;
use crate::sim::*;
use mdns_sd::verif::codec::{RDataSpec, RecordSpec};
use mdns_sd::verif::component::{tiebreak, Rec};
use mdns_sd::verif::set_thread_clock;
use mdns_sd::{DaemonEvent, ServiceInfo};
use proptest::prelude::*;
use serde::{Deserialize, Serialize};
use serde_json::json;
use std::cmp::Ordering;
use std::net::{IpAddr, Ipv4Addr, Ipv6Addr, SocketAddr};

const T: u64 = 1_700_000_000_000;
const PROBE_NAME: &str = "contested.local.";

// ---------------------------------------------------------------------------------------------
// (a) E2: the simultaneous-probe comparison on pairs of small record sets
// ---------------------------------------------------------------------------------------------

#[derive(Clone, Debug, Serialize, Deserialize, PartialEq, Eq, Hash)]
pub enum RD {
    A(u8, u8),
    Aaaa(u8, u8),
    Txt(u8),
    Srv(u8, u8, u8, u8),
}

#[derive(Clone, Debug, Serialize, Deserialize, PartialEq, Eq, Hash)]
pub struct PR {
    pub rd: RD,
    /// class without the cache-flush bit
    pub class: u16,
    pub flush: bool,
}

#[derive(Clone, Debug, Serialize, Deserialize)]
pub struct CmpCase {
    pub mine: Vec<PR>,
    pub theirs: Vec<PR>,
    /// insertion order of my records / order of their records in the packet (permutation seeds)
    pub perm_mine: u8,
    pub perm_theirs: u8,
    /// ms since my probe started (0 or less: not started yet)
    pub age: i32,
    /// an authority record for another name placed in the packet at this position
    pub noise_at: Option<u8>,
    pub compress: bool,
}

const TXTS: &[&[u8]] = &[
    &[0],
    &[1, b'a'],
    &[1, b'b'],
    &[2, b'a', b'b'],
    &[1, b'a', 1, b'b'],
    &[3, b'a', b'=', b'1'],
    &[3, b'a', b'=', 0xff],
];
const SRV_HOSTS: &[&str] = &["a.local.", "ab.local.", "b.local.", "contested.local."];
const U16S: &[u16] = &[0, 1, 255, 256, 5353];

fn v4(a: u8, b: u8) -> Ipv4Addr {
    Ipv4Addr::new(if a % 2 == 0 { 10 } else { 192 }, 168, 10, b)
}
fn v6(a: u8, b: u8) -> Ipv6Addr {
    if a % 2 == 0 {
        Ipv6Addr::new(0xfe80, 0, 0, 0, 0, 0, 0, b as u16)
    } else {
        Ipv6Addr::new(0x2001, 0xdb8, 0, 0, 0, 0, (b as u16) << 8, 1)
    }
}

impl PR {
    fn rtype(&self) -> u16 {
        match self.rd {
            RD::A(..) => T_A,
            RD::Aaaa(..) => T_AAAA,
            RD::Txt(_) => T_TXT,
            RD::Srv(..) => T_SRV,
        }
    }
    fn plain(&self) -> bool {
        !matches!(self.rd, RD::Srv(..))
    }
    /// Uncompressed RDATA bytes (for SRV: with the target in wire form).
    fn rdata_bytes(&self) -> Vec<u8> {
        match &self.rd {
            RD::A(a, b) => v4(*a, *b).octets().to_vec(),
            RD::Aaaa(a, b) => v6(*a, *b).octets().to_vec(),
            RD::Txt(i) => TXTS[*i as usize % TXTS.len()].to_vec(),
            RD::Srv(p, w, port, h) => {
                let mut v = Vec::new();
                v.extend(U16S[*p as usize % U16S.len()].to_be_bytes());
                v.extend(U16S[*w as usize % U16S.len()].to_be_bytes());
                v.extend(U16S[*port as usize % U16S.len()].to_be_bytes());
                for l in Name::from_escaped(SRV_HOSTS[*h as usize % SRV_HOSTS.len()]).0 {
                    v.push(l.len() as u8);
                    v.extend(l);
                }
                v.push(0);
                v
            }
        }
    }
    fn key(&self) -> (u16, u16, Vec<u8>) {
        (self.class, self.rtype(), self.rdata_bytes())
    }
    fn spec(&self, name: &str) -> RecordSpec {
        RecordSpec {
            name: name.to_string(),
            class: self.class | if self.flush { FLUSH } else { 0 },
            ttl: 120,
            now: 0,
            rdata: match &self.rd {
                RD::A(a, b) => RDataSpec::A(v4(*a, *b)),
                RD::Aaaa(a, b) => RDataSpec::Aaaa(v6(*a, *b)),
                RD::Txt(i) => RDataSpec::Txt(TXTS[*i as usize % TXTS.len()].to_vec()),
                RD::Srv(p, w, port, h) => RDataSpec::Srv {
                    priority: U16S[*p as usize % U16S.len()],
                    weight: U16S[*w as usize % U16S.len()],
                    port: U16S[*port as usize % U16S.len()],
                    host: SRV_HOSTS[*h as usize % SRV_HOSTS.len()].to_string(),
                },
            },
        }
    }
    fn record(&self, name: &Name) -> Record {
        Record {
            name: name.clone(),
            rtype: self.rtype(),
            class: self.class | if self.flush { FLUSH } else { 0 },
            ttl: 120,
            rdata: match &self.rd {
                RD::A(a, b) => RData::A(v4(*a, *b)),
                RD::Aaaa(a, b) => RData::Aaaa(v6(*a, *b)),
                RD::Txt(i) => RData::Txt(TXTS[*i as usize % TXTS.len()].to_vec()),
                RD::Srv(p, w, port, h) => RData::Srv {
                    priority: U16S[*p as usize % U16S.len()],
                    weight: U16S[*w as usize % U16S.len()],
                    port: U16S[*port as usize % U16S.len()],
                    target: Name::from_escaped(SRV_HOSTS[*h as usize % SRV_HOSTS.len()]),
                },
            },
        }
    }
}

/// k-th permutation (factorial number system) of `v`.
fn permute<X: Clone>(v: &[X], mut k: usize) -> Vec<X> {
    let mut pool: Vec<X> = v.to_vec();
    let mut out = Vec::new();
    while !pool.is_empty() {
        let i = k % pool.len();
        k /= pool.len();
        out.push(pool.remove(i));
    }
    out
}

/// RFC 6762 section 8.2 / 8.2.1 on the sorted sets: `Less` = mine is lexicographically earlier.
fn rfc_order(mine: &[PR], theirs: &[PR]) -> Ordering {
    let mut a: Vec<_> = mine.iter().map(|r| r.key()).collect();
    let mut b: Vec<_> = theirs.iter().map(|r| r.key()).collect();
    a.sort();
    b.sort();
    for (x, y) in a.iter().zip(b.iter()) {
        match x.cmp(y) {
            Ordering::Equal => continue,
            o => return o,
        }
    }
    a.len().cmp(&b.len())
}

fn dedup(v: &[PR]) -> Vec<PR> {
    let mut out: Vec<PR> = Vec::new();
    for r in v {
        if !out.iter().any(|o| o.key() == r.key()) {
            out.push(r.clone());
        }
    }
    out
}

fn probe_packet(theirs_in_order: &[PR], noise_at: Option<u8>, compress: bool) -> Vec<u8> {
    let name = Name::from_escaped(PROBE_NAME);
    let mut auth: Vec<Record> = theirs_in_order.iter().map(|r| r.record(&name)).collect();
    if let Some(p) = noise_at {
        let at = (p as usize).min(auth.len());
        auth.insert(
            at,
            Record {
                name: Name::from_escaped("other.local."),
                rtype: T_A,
                class: 1,
                ttl: 120,
                rdata: RData::A(Ipv4Addr::new(1, 1, 1, 1)),
            },
        );
    }
    encode(
        &Message {
            id: 0,
            flags: 0,
            questions: vec![peer::q(&name, T_ANY)],
            answers: vec![],
            authorities: auth,
            additionals: vec![],
        },
        if compress { Compress::Suffix } else { Compress::None },
    )
}

struct Verdict {
    lost: bool,
    start: u64,
    next: u64,
    stored: Vec<PR>,
}

/// Runs the crate's comparison: my records inserted in the given order into a probe that
/// started `age` ms ago, against a probe packet.
fn crate_verdict(mine_in_order: &[PR], age: i32, packet: &[u8]) -> Result<Verdict, String> {
    set_thread_clock(Some(T));
    let recs: Vec<Rec> = mine_in_order.iter().map(|r| Rec::new(&r.spec(PROBE_NAME))).collect();
    let start = (T as i64 - age as i64) as u64;
    let out = tiebreak(&recs, start, packet, PROBE_NAME)?;
    // map the stored order back to my records
    let mut stored = Vec::new();
    let mut pool: Vec<PR> = mine_in_order.to_vec();
    for v in &out.sorted {
        let pos = pool.iter().position(|p| Rec::new(&p.spec(PROBE_NAME)).view().rdata == v.rdata && p.rtype() == v.rtype);
        if let Some(pos) = pos {
            stored.push(pool.remove(pos));
        }
    }
    Ok(Verdict {
        lost: out.lost,
        start: out.start_time,
        next: out.next_send,
        stored,
    })
}

fn render_set(v: &[PR]) -> String {
    let name = Name::from_escaped(PROBE_NAME);
    v.iter().map(|r| render_record(&r.record(&name))).collect::<Vec<_>>().join(" ; ")
}

pub fn check_cmp(case: &CmpCase, ctx: &mut CaseCtx) {
    let mine = dedup(&case.mine);
    let theirs = dedup(&case.theirs);
    let mine_ins = permute(&mine, case.perm_mine as usize);
    let theirs_pkt = permute(&theirs, case.perm_theirs as usize);
    let packet = probe_packet(&theirs_pkt, case.noise_at, case.compress);
    let v = match crate_verdict(&mine_ins, case.age, &packet) {
        Ok(v) => v,
        Err(e) => {
            ctx.violation("C08/compare/packet-refused", format!("a well-formed probe packet was refused: {e}"));
            return;
        }
    };
    let started = case.age > 0;
    let start0 = (T as i64 - case.age as i64) as u64;
    let all_plain = mine.iter().chain(theirs.iter()).all(|r| r.plain());
    let multi = |s: &[PR]| {
        s.iter()
            .enumerate()
            .any(|(i, a)| s.iter().skip(i + 1).any(|b| a.class == b.class && a.rtype() == b.rtype()))
    };
    let has_multi = multi(&mine) || multi(&theirs);
    let order = rfc_order(&mine, &theirs);
    ctx.class(match order {
        Ordering::Less => "rfc:mine-earlier",
        Ordering::Equal => "rfc:equal",
        Ordering::Greater => "rfc:mine-later",
    });
    ctx.class_if(has_multi, "several-records-of-one-type");
    ctx.class_if(!all_plain, "with-srv");
    ctx.class_if(!started, "probe-not-started");
    ctx.class_if(mine.is_empty() || theirs.is_empty(), "one-side-empty");
    ctx.class_if(mine.len() != theirs.len() && order != Ordering::Equal && {
        let n = mine.len().min(theirs.len());
        let mut a: Vec<_> = mine.iter().map(|r| r.key()).collect();
        let mut b: Vec<_> = theirs.iter().map(|r| r.key()).collect();
        a.sort();
        b.sort();
        a[..n] == b[..n]
    }, "decided-by-count");
    ctx.class_if(mine.iter().chain(theirs.iter()).any(|r| r.flush), "flush-bit");
    ctx.class_if(mine.iter().chain(theirs.iter()).any(|r| r.class != 1), "other-class");
    let detail = |what: &str, v: &Verdict| {
        format!(
            "{what}\n  mine (inserted in this order): {}\n  stored as: {}\n  theirs (packet order): {}\n  probe age {} ms; lost={} start {:+} next_send {:+}",
            render_set(&mine_ins),
            render_set(&v.stored),
            render_set(&theirs_pkt),
            case.age,
            v.lost,
            v.start as i64 - T as i64,
            v.next as i64 - T as i64
        )
    };

    if !started {
        if v.lost || v.start != start0 {
            ctx.violation("C08/compare/not-started-probe-postponed", detail("a probe that has not started yet was postponed by a peer's probe", &v));
        }
        return;
    }
    // (c) consequences of the verdict
    if v.lost {
        if v.start != T + 1000 || v.next != T + 1000 {
            ctx.violation("C08/compare/lost-wait-not-one-second", detail("after a lost comparison the probe must restart exactly one second later", &v));
        }
    } else if v.start != start0 {
        ctx.violation("C08/compare/start-moved-without-loss", detail("start time changed although the comparison was not lost", &v));
    }
    // (a) RFC order where RDATA is plain bytes
    if all_plain {
        let must_lose = order == Ordering::Less;
        if v.lost != must_lose {
            ctx.nontrivial(format!("{order:?}/multi={has_multi}"));
            let sig = if has_multi {
                "C08/compare/verdict-depends-on-record-order"
            } else {
                "C08/compare/verdict"
            };
            ctx.violation(
                sig,
                detail(
                    &format!("sorted by class, type, RDATA mine is {order:?} relative to theirs, so the probe must {}", if must_lose { "yield" } else { "not yield" }),
                    &v,
                ),
            );
            return;
        }
    }
    // (b) both sides being this crate reach opposite verdicts (each sends its stored order)
    let theirs_ins = theirs_pkt.clone();
    let empty = probe_packet(&[], None, false);
    let their_stored = match crate_verdict(&theirs_ins, case.age, &empty) {
        Ok(v) => v.stored,
        Err(_) => return,
    };
    let p_theirs = probe_packet(&their_stored, None, case.compress);
    let p_mine = probe_packet(&v.stored, None, case.compress);
    let (Ok(vx), Ok(vy)) = (crate_verdict(&mine_ins, case.age, &p_theirs), crate_verdict(&theirs_ins, case.age, &p_mine)) else {
        return;
    };
    let equal = order == Ordering::Equal;
    ctx.nontrivial(format!("{}-{}-{:?}-{}", mine.len(), theirs.len(), order, has_multi));
    if equal {
        if vx.lost || vy.lost {
            ctx.violation("C08/compare/equal-sets-yield", detail("identical record sets: nobody yields", &vx));
        }
    } else if vx.lost == vy.lost {
        ctx.violation(
            "C08/compare/not-opposite",
            format!(
                "both sides reach the same verdict (lost={}):\n  X inserted {} stored {}\n  Y inserted {} stored {}",
                vx.lost,
                render_set(&mine_ins),
                render_set(&vx.stored),
                render_set(&theirs_ins),
                render_set(&vy.stored)
            ),
        );
    }
}

fn pr_pool() -> Vec<PR> {
    let mut v = Vec::new();
    for (a, b) in [(0u8, 2u8), (0, 10), (1, 2), (1, 200)] {
        v.push(PR { rd: RD::A(a, b), class: 1, flush: false });
    }
    for (a, b) in [(0u8, 1u8), (1, 1), (1, 2)] {
        v.push(PR { rd: RD::Aaaa(a, b), class: 1, flush: false });
    }
    for i in [0u8, 1, 3, 4] {
        v.push(PR { rd: RD::Txt(i), class: 1, flush: false });
    }
    v.push(PR { rd: RD::A(0, 2), class: 3, flush: false });
    v
}

/// All subsets of the pool with at most 2 records.
fn small_subsets() -> Vec<Vec<PR>> {
    let pool = pr_pool();
    let mut v = vec![vec![]];
    for i in 0..pool.len() {
        v.push(vec![pool[i].clone()]);
        for j in i + 1..pool.len() {
            v.push(vec![pool[i].clone(), pool[j].clone()]);
        }
    }
    v
}

fn cmp_enumerated(i: u64) -> CmpCase {
    let subs = small_subsets();
    let n = subs.len() as u64;
    let (x, rest) = (i % n, i / n);
    let (y, rest) = (rest % n, rest / n);
    // 4 order variants
    CmpCase {
        mine: subs[x as usize].clone(),
        theirs: subs[y as usize].clone(),
        perm_mine: (rest % 2) as u8,
        perm_theirs: ((rest / 2) % 2) as u8,
        age: 100,
        noise_at: None,
        compress: true,
    }
}

fn pr_strategy() -> BoxedStrategy<PR> {
    let rd = prop_oneof![
        4 => (0u8..2, prop_oneof![Just(2u8), Just(10), Just(200), any::<u8>()]).prop_map(|(a, b)| RD::A(a, b)),
        3 => (0u8..2, 1u8..4).prop_map(|(a, b)| RD::Aaaa(a, b)),
        2 => (0u8..TXTS.len() as u8).prop_map(RD::Txt),
        2 => (0u8..3, 0u8..2, 0u8..5, 0u8..4).prop_map(|(p, w, port, h)| RD::Srv(p, w, port, h)),
    ];
    (rd, prop_oneof![12 => Just(1u16), 1 => Just(3u16)], prop::bool::weighted(0.5))
        .prop_map(|(rd, class, flush)| PR { rd, class, flush })
        .boxed()
}

pub fn cmp_strategy() -> BoxedStrategy<CmpCase> {
    (
        prop::collection::vec(pr_strategy(), 0..4),
        prop::collection::vec(pr_strategy(), 0..4),
        0u8..4,
        any::<u8>(),
        any::<u8>(),
        prop_oneof![6 => prop_oneof![Just(1i32), Just(100), Just(400), Just(749)], 1 => prop_oneof![Just(0i32), Just(-50)]],
        prop::option::weighted(0.3, 0u8..4),
        any::<bool>(),
    )
        .prop_map(|(mine, indep, how, pm, pt, age, noise_at, compress)| {
            // theirs: independent, or derived from mine so that equal sets and prefixes are frequent
            let theirs = match how {
                0 => indep,
                1 => mine.clone(),
                2 => {
                    let mut t = mine.clone();
                    t.pop();
                    t
                }
                _ => {
                    let mut t = mine.clone();
                    if let Some(x) = indep.first() {
                        if t.is_empty() {
                            t.push(x.clone());
                        } else {
                            let k = t.len() - 1;
                            t[k] = x.clone();
                        }
                    }
                    t.extend(indep.into_iter().skip(2));
                    t
                }
            };
            CmpCase {
                mine,
                theirs,
                perm_mine: pm,
                perm_theirs: pt,
                age,
                noise_at,
                compress,
            }
        })
        .boxed()
}


// ---------------------------------------------------------------------------------------------
// (b) E3: two or three daemons claiming the same names with different data on one link
// ---------------------------------------------------------------------------------------------

fn long_label(prefix: &str, len: usize) -> String {
    let mut s = prefix.to_string();
    while s.len() < len {
        s.push('a');
    }
    s
}

pub const N_INST_LABELS: usize = 13;
pub fn inst_label(i: usize) -> String {
    match i % N_INST_LABELS {
        0 => "dup".into(),
        1 => "dup (2)".into(),
        2 => "dup (9)".into(),
        3 => "dup (x)".into(),
        4 => "my.printer".into(),
        5 => "back\\slash".into(),
        6 => "Caf\u{e9} \u{4e2d}".into(),
        7 => "Dup Case".into(),
        // one ' (2)' suffix still fits a label
        8 => long_label("l59", 59),
        // ' (2)' makes 64 bytes
        9 => long_label("l60", 60),
        10 => long_label("l63", 63),
        11 => "dup (4294967295)".into(),
        // 63 bytes already; the next number has one digit more
        _ => format!("{} (9)", long_label("l59n", 59)),
    }
}

pub const N_HOST_LABELS: usize = 10;
pub fn host_label(i: usize) -> String {
    match i % N_HOST_LABELS {
        0 => "duphost".into(),
        1 => "duphost-2".into(),
        2 => "duphost-9".into(),
        3 => "host-x".into(),
        4 => "DupHost".into(),
        // '-2' still fits
        5 => long_label("h61", 61),
        // '-2' makes 64 bytes
        6 => long_label("h62", 62),
        7 => long_label("h63", 63),
        8 => "duphost-4294967295".into(),
        // 63 bytes already; the next number has one digit more
        _ => format!("{}-9", long_label("h61n", 61)),
    }
}
const DUEL_TY: &str = "_http._tcp.local.";

#[derive(Clone, Debug, Serialize, Deserialize)]
pub struct DuelCase {
    pub n: usize,
    /// registration time of each daemon, ms after start
    pub offsets: Vec<u64>,
    /// probe start jitter of each daemon (0..250)
    pub jitters: Vec<u64>,
    pub inst: u8,
    pub host: u8,
    pub same_inst: bool,
    pub same_host: bool,
    pub v6: bool,
    pub latency: u64,
    /// which daemon gets which port / address (decides who wins)
    pub order: u8,
    pub unregister: bool,
    /// two of the registrations carry the same port and TXT (they differ in their addresses only):
    /// 0 none, 1 daemons 0+1, 2 daemons 0+2, 3 daemons 1+2
    #[serde(default)]
    pub twin: u8,
}

/// The documented renaming of an instance label: 'x' -> 'x (2)', 'x (N)' -> 'x (N+1)'.
pub fn next_instance_label(l: &str) -> String {
    if let Some(pos) = l.rfind(" (") {
        if l.ends_with(')') {
            let num = &l[pos + 2..l.len() - 1];
            if !num.is_empty() && num.bytes().all(|b| b.is_ascii_digit()) {
                if let Ok(n) = num.parse::<u32>() {
                    if let Some(m) = n.checked_add(1) {
                        return format!("{} ({})", &l[..pos], m);
                    }
                }
            }
        }
    }
    format!("{l} (2)")
}

/// The documented renaming of a host label: 'h' -> 'h-2', 'h-N' -> 'h-(N+1)'.
pub fn next_host_label(l: &str) -> String {
    if let Some(pos) = l.rfind('-') {
        let num = &l[pos + 1..];
        if !num.is_empty() && num.bytes().all(|b| b.is_ascii_digit()) {
            if let Ok(n) = num.parse::<u32>() {
                if let Some(m) = n.checked_add(1) {
                    return format!("{}-{}", &l[..pos], m);
                }
            }
        }
    }
    format!("{l}-2")
}

struct Planned {
    inst0: Name,
    inst_label: String,
    host0: Name,
    host_label: String,
    port: u16,
    addrs: Vec<IpAddr>,
    reg_t: u64,
    fullname_arg: String,
}

fn first_label(n: &Name) -> String {
    String::from_utf8_lossy(n.0.first().map(|v| v.as_slice()).unwrap_or(b"")).to_string()
}

fn claims<'a>(m: &'a Message) -> impl Iterator<Item = &'a Record> {
    m.answers.iter().chain(m.additionals.iter())
}

/// The daemon whose port and TXT daemon `i` uses (itself unless it is the second of the twins).
fn twin_of(twin: u8, n: usize, i: usize) -> usize {
    let (a, b) = match twin {
        1 => (0, 1),
        2 => (0, 2),
        3 => (1, 2),
        _ => return i,
    };
    if b < n && i == b {
        a
    } else {
        i
    }
}

pub fn check_duel(case: &DuelCase, ctx: &mut CaseCtx) {
    let n = case.n.clamp(2, 3);
    let ty = Name::from_escaped(DUEL_TY);
    let perm_port = permute(&[0usize, 1, 2], case.order as usize % 6);
    let perm_addr = permute(&[0usize, 1, 2], (case.order as usize / 6) % 6);
    let mut w = World::new(T0);
    w.latency = case.latency;
    let mut plan: Vec<Planned> = Vec::new();
    let mut ends = Vec::new();
    for i in 0..n {
        let mut ifs = vec![mdns_sd::verif::SimIf::new("eth0", 2, IpAddr::V4(Ipv4Addr::new(192, 168, 10, 1 + i as u8)), 24)];
        if case.v6 {
            ifs.push(mdns_sd::verif::SimIf::new("eth0", 2, IpAddr::V6(Ipv6Addr::new(0xfd00, 1, 0, 0, 0, 0, 0, 1 + i as u16)), 64));
        }
        let mut d = match SimDaemon::new(&format!("D{i}"), ifs, T0, 11 + i as u64) {
            Ok(d) => d,
            Err(e) => {
                ctx.violation("C08/harness/spawn", e);
                w.finish();
                return;
            }
        };
        d.h.set_jitter_default(Some(case.jitters.get(i).copied().unwrap_or(0) % 250));
        let _ = d.monitor();
        let di = w.add(d);
        ends.push((di, 2u32));
        let inst_label = if case.same_inst || i == 0 {
            inst_label(case.inst as usize)
        } else {
            format!("other{i}")
        };
        let host_label = if case.same_host || i == 0 {
            host_label(case.host as usize)
        } else {
            format!("otherhost{i}")
        };
        let mut addrs = vec![IpAddr::V4(Ipv4Addr::new(192, 168, 10, 50 + perm_addr[i] as u8))];
        if case.v6 {
            addrs.push(IpAddr::V6(Ipv6Addr::new(0xfd00, 1, 0, 0, 0, 0, 0, 50 + perm_addr[i] as u16)));
        }
        plan.push(Planned {
            inst0: Name(vec![]),
            inst_label,
            host0: Name::from_labels(&[host_label.as_bytes(), b"local"]),
            host_label,
            port: 3000 + perm_port[twin_of(case.twin, n, i)] as u16,
            addrs,
            reg_t: T0 + case.offsets.get(i).copied().unwrap_or(0),
            fullname_arg: String::new(),
        });
    }
    w.links.push(Link { ends });

    let mut order: Vec<usize> = (0..n).collect();
    order.sort_by_key(|i| plan[*i].reg_t);
    for i in order {
        w.run_until(plan[i].reg_t);
        let p = &mut plan[i];
        let addr_str = p.addrs.iter().map(|a| a.to_string()).collect::<Vec<_>>().join(",");
        let id = format!("{}", twin_of(case.twin, n, i));
        let props = [("id", id.as_str())];
        let info = match ServiceInfo::new(DUEL_TY, &p.inst_label, &format!("{}.local.", p.host_label), addr_str.as_str(), p.port, &props[..]) {
            Ok(x) => x,
            Err(e) => {
                ctx.violation("C08/harness/serviceinfo", e.to_string());
                w.finish();
                return;
            }
        };
        p.fullname_arg = info.get_fullname().to_string();
        p.inst0 = Name::from_escaped(info.get_fullname());
        if let Err(e) = w.daemons[i].register(info) {
            ctx.violation("C08/harness/register", e.to_string());
            w.finish();
            return;
        }
    }
    let t_last = plan.iter().map(|p| p.reg_t).max().unwrap_or(T0);
    let t_settled = t_last + 12_000;
    w.run_until(t_settled);

    // Questions from a neutral peer, each daemon asked on its own.
    let asker: SocketAddr = SocketAddr::new(IpAddr::V4(Ipv4Addr::new(192, 168, 10, 200)), MDNS_PORT);
    let mut t = t_settled;
    let mut asked: Vec<Vec<(u64, Question)>> = vec![Vec::new(); n];
    for round in 0..5 {
        for i in 0..n {
            let fin = last_names(&w.daemons[i], &ty);
            let q = match round {
                0 => Some(peer::q(&ty, T_PTR)),
                1 => Some(peer::q(&plan[i].inst0, T_SRV)),
                2 => Some(peer::q(&plan[i].host0, T_A)),
                3 => fin.as_ref().map(|(inst, _)| peer::q(inst, T_ANY)),
                _ => fin.as_ref().and_then(|(_, h)| h.as_ref()).map(|h| peer::q(h, T_ANY)),
            };
            if let Some(q) = q {
                asked[i].push((t, q.clone()));
                w.schedule(t, i, 2, asker, peer::query(0, vec![q], vec![], vec![]));
            }
        }
        t += 2_000;
        w.run_until(t);
    }
    let t_unreg = t;
    if case.unregister {
        for i in 0..n {
            let _ = w.daemons[i].unregister(&plan[i].fullname_arg.clone());
        }
        w.run_until(t + 1_000);
    }

    judge_duel(case, ctx, &w, &plan, &asked, n, t_settled, t_last, t_unreg, None);
    w.finish();
}

fn last_names(d: &SimDaemon, ty: &Name) -> Option<(Name, Option<Name>)> {
    let mut inst: Option<Name> = None;
    for e in &d.log {
        if let Ev::Tx(tx) = &e.ev {
            if let Some(m) = &tx.msg {
                if m.is_response() {
                    for r in &m.answers {
                        if r.rtype == T_PTR && r.ttl > 0 && r.name.eq_ignore_case(ty) {
                            if let RData::Ptr(t) = &r.rdata {
                                inst = Some(t.clone());
                            }
                        }
                    }
                }
            }
        }
    }
    let inst = inst?;
    let mut host = None;
    for e in &d.log {
        if let Ev::Tx(tx) = &e.ev {
            if let Some(m) = &tx.msg {
                let announcement = m.is_response()
                    && m.answers.iter().any(|r| r.rtype == T_PTR && r.ttl > 0 && r.name.eq_ignore_case(ty))
                    && m.answers.iter().any(|r| r.rtype == T_SRV);
                if announcement {
                    for r in m.answers.iter() {
                        if r.rtype == T_SRV && r.ttl > 0 && r.name == inst {
                            if let RData::Srv { target, .. } = &r.rdata {
                                host = Some(target.clone());
                            }
                        }
                    }
                }
            }
        }
    }
    Some((inst, host))
}

#[allow(clippy::too_many_arguments)]
fn judge_duel(case: &DuelCase, ctx: &mut CaseCtx, w: &World, plan: &[Planned], asked: &[Vec<(u64, Question)>], n: usize, t_settled: u64, t_last: u64, t_unreg: u64, script: Option<&[Attack]>) {
    let ty = Name::from_escaped(DUEL_TY);
    let render = |w: &&World| -> String {
        let mut s = String::new();
        for (i, d) in w.daemons.iter().enumerate() {
            s.push_str(&format!(
                "--- D{i}: registers '{}' host '{}' port {} addrs {:?} at +{} ms, jitter {}\n{}",
                plan[i].inst_label,
                plan[i].host_label,
                plan[i].port,
                plan[i].addrs,
                plan[i].reg_t - T0,
                case.jitters.get(i).copied().unwrap_or(0) % 250,
                render_log(&d.log, true, 120)
            ));
        }
        s
    };
    for (i, d) in w.daemons.iter().enumerate() {
        if !d.alive() {
            let why = d.dead.clone().unwrap_or_else(|| "exited or stuck".into());
            let sig = if why.contains("panicked") || why.contains("panic") {
                let loc = why.split(" at ").nth(1).and_then(|s| s.split(':').next()).unwrap_or("?").rsplit('/').next().unwrap_or("?").to_string();
                format!("C08/daemon-died/{loc}")
            } else {
                "C08/daemon-died".to_string()
            };
            ctx.violation(&sig, format!("daemon D{i} died: {why}\n{}", render(&w)));
            return;
        }
    }
    if w.budget_exhausted {
        ctx.violation("C08/harness/step-budget", "step budget exhausted".to_string());
        return;
    }

    // Scripted peers only: a name attacked through a single one of its record types exposes
    // the one-type-at-a-time renaming recorded as a known finding.
    let split_prone = script.is_some_and(|att| {
        [true, false].iter().any(|hk| {
            let of_kind: Vec<&Attack> = att.iter().filter(|a| !a.same_data && ((a.rtype == T_A || a.rtype == T_AAAA) == *hk) && !(a.rtype == T_AAAA && !case.v6)).collect();
            of_kind.iter().any(|a| a.single)
        })
    });
    let sig = |s: &str| -> String {
        if split_prone {
            "C08/conflict-on-record-type-still-under-previous-name".to_string()
        } else {
            s.to_string()
        }
    };
    let mut finals: Vec<(Name, Name)> = Vec::new();
    for i in 0..n {
        match last_names(&w.daemons[i], &ty) {
            Some((inst, Some(host))) => finals.push((inst, host)),
            _ => {
                ctx.violation(
                    &sig("C08/never-announced"),
                    format!("daemon D{i} has not announced its service {} s after the last registration\n{}", (t_settled - t_last) / 1000, render(&w)),
                );
                return;
            }
        }
    }

    let mut renamed_inst = 0;
    let mut renamed_host = 0;
    let mut overlong = false;
    for i in 0..n {
        let p = &plan[i];
        let (fi, fh) = &finals[i];
        // shape of the final names
        let mut chain_i = vec![p.inst_label.clone()];
        let mut chain_h = vec![p.host_label.clone()];
        for _ in 0..(n + 1 + if script.is_some() { 4 } else { 0 }) {
            chain_i.push(next_instance_label(chain_i.last().unwrap()));
            chain_h.push(next_host_label(chain_h.last().unwrap()));
        }
        let long_i = chain_i.iter().any(|l| l.len() > 63);
        let long_h = chain_h.iter().any(|l| l.len() > 63);
        overlong |= long_i || long_h;
        let fl = first_label(fi);
        let ok_shape_i = fi.0.len() == ty.0.len() + 1 && Name(fi.0[1..].to_vec()).eq_ignore_case(&ty) && (long_i || chain_i.contains(&fl));
        if !ok_shape_i {
            ctx.violation(
                &sig("C08/new-instance-name-form"),
                format!(
                    "D{i} registered instance '{}' and ends up announcing '{}'; expected one of {:?} under {DUEL_TY}\n{}",
                    p.inst_label,
                    fi.to_escaped(),
                    &chain_i,
                    render(&w)
                ),
            );
            return;
        }
        let hl = first_label(fh);
        let ok_shape_h = fh.0.len() == 2 && fh.0[1].eq_ignore_ascii_case(b"local") && (long_h || chain_h.iter().any(|c| c.eq_ignore_ascii_case(&hl)));
        if !ok_shape_h {
            ctx.violation(
                &sig("C08/new-host-name-form"),
                format!("D{i} registered host '{}' and ends up with SRV target '{}'; expected one of {:?}\n{}", p.host_label, fh.to_escaped(), &chain_h, render(&w)),
            );
            return;
        }
        if !fi.eq_ignore_case(&p.inst0) {
            renamed_inst += 1;
        }
        if !fh.eq_ignore_case(&p.host0) {
            renamed_host += 1;
        }
    }
    // one holder per contested name, all names distinct
    let escaped_label = plan[0].inst_label.contains('.') || plan[0].inst_label.contains('\\');
    for i in 0..n {
        for j in i + 1..n {
            if finals[i].0.eq_ignore_case(&finals[j].0) {
                ctx.violation(if escaped_label { "C08/escaped-instance-label/conflict-not-detected" } else { "C08/two-holders-of-instance-name" }, format!("D{i} and D{j} both end up announcing {}\n{}", finals[i].0.to_escaped(), render(&w)));
                return;
            }
            if finals[i].1.eq_ignore_case(&finals[j].1) {
                ctx.violation("C08/two-holders-of-host-name", format!("D{i} and D{j} both end up with host {} (different addresses)\n{}", finals[i].1.to_escaped(), render(&w)));
                return;
            }
        }
    }
    let group_inst: Vec<usize> = (0..n).filter(|i| plan[*i].inst0.eq_ignore_case(&plan[0].inst0)).collect();
    let holders = group_inst.iter().filter(|i| finals[**i].0.eq_ignore_case(&plan[0].inst0)).count();
    if holders != 1 && script.is_none() {
        ctx.violation(
            if escaped_label { "C08/escaped-instance-label/conflict-not-detected" } else { "C08/original-instance-name-holders" },
            format!("{} of the {} daemons that registered '{}' hold it in the end (must be exactly one)\n{}", holders, group_inst.len(), plan[0].inst_label, render(&w)),
        );
        return;
    }
    let group_host: Vec<usize> = (0..n).filter(|i| plan[*i].host0.eq_ignore_case(&plan[0].host0)).collect();
    let holders = group_host.iter().filter(|i| finals[**i].1.eq_ignore_case(&plan[0].host0)).count();
    if holders != 1 && script.is_none() {
        ctx.violation(
            "C08/original-host-name-holders",
            format!("{} of the {} daemons that registered host '{}' hold it in the end (must be exactly one)\n{}", holders, group_host.len(), plan[0].host_label, render(&w)),
        );
        return;
    }

    // per daemon: consistency of every response, NameChange events, probes of the new names
    let mut lost_waits = 0;
    for i in 0..n {
        let p = &plan[i];
        let (fi, fh) = &finals[i];
        let d = &w.daemons[i];
        let mut first_claim_inst: Option<u64> = None;
        let mut first_claim_host: Option<u64> = None;
        let mut probes_inst = 0;
        let mut probes_host = 0;
        let mut changes: Vec<(String, String, String)> = Vec::new();
        // lost comparisons: (name, not before)
        let mut last_probe: std::collections::HashMap<Name, (u64, Vec<Record>)> = Default::default();
        let mut waits: Vec<(Name, u64, u64)> = Vec::new();
        let mut round_start: std::collections::HashMap<Name, u64> = Default::default();
        let mut announced_names: Vec<Name> = Vec::new();
        // when the daemon first probed each of its names, and (from that) when it gave each up:
        // a name is given up when a later name of the same kind is first probed
        let mut first_probe: Vec<(Name, bool, u64)> = Vec::new();
        for e in &d.log {
            if let Ev::Tx(tx) = &e.ev {
                if let Some(m) = &tx.msg {
                    if !m.is_response() {
                        for r in &m.authorities {
                            let host_kind = matches!(r.rdata, RData::A(_) | RData::Aaaa(_));
                            if !first_probe.iter().any(|(n, k, _)| *k == host_kind && *n == r.name) {
                                first_probe.push((r.name.clone(), host_kind, e.t));
                            }
                        }
                    }
                }
            }
        }
        let current = |name: &Name, host_kind: bool, t: u64| -> bool {
            let Some((_, _, t0)) = first_probe.iter().find(|(n, k, _)| *k == host_kind && n == name) else {
                return false;
            };
            !first_probe.iter().any(|(n, k, t1)| *k == host_kind && n != name && t1 > t0 && *t1 < t)
        };
        // scripted conflicts that hit a name while the daemon was probing it (and had not claimed it)
        let mut effective_attacks: Vec<(u64, Name, bool, bool)> = Vec::new();
        if let Some(attacks) = script {
            for a in attacks {
                if (a.rtype == T_AAAA && !case.v6) || a.same_data {
                    continue;
                }
                let host_kind = a.rtype == T_A || a.rtype == T_AAAA;
                let is_original = if host_kind { a.name.eq_ignore_case(&p.host0) } else { a.name.eq_ignore_case(&p.inst0) };
                let probing = (is_original && a.t > p.reg_t) || first_probe.iter().any(|(nm, k, t0)| *k == host_kind && nm.eq_ignore_case(&a.name) && *t0 < a.t);
                let given_up = !is_original_or_probed_current(&first_probe, &a.name, host_kind, a.t);
                let claimed_before = d.log.iter().any(|e| {
                    e.t <= a.t
                        && matches!(&e.ev, Ev::Tx(tx) if tx.msg.as_ref().is_some_and(|m| m.is_response() && claims(m).any(|r| r.name.eq_ignore_case(&a.name))))
                });
                // probing of the name already complete (three probes 250 ms apart and 250 ms more)?
                let mut times: Vec<u64> = d
                    .log
                    .iter()
                    .filter(|e| e.t < a.t)
                    .filter(|e| matches!(&e.ev, Ev::Tx(tx) if tx.msg.as_ref().is_some_and(|m| !m.is_response() && m.authorities.iter().any(|r| r.name.eq_ignore_case(&a.name) && (matches!(r.rdata, RData::A(_) | RData::Aaaa(_)) == host_kind)))))
                    .map(|e| e.t)
                    .collect();
                times.dedup();
                let mut run = 0;
                let mut complete = false;
                for (k, t) in times.iter().enumerate() {
                    run = if k > 0 && t - times[k - 1] <= 300 { run + 1 } else { 1 };
                    if run >= 3 && a.t >= t + 250 {
                        complete = true;
                    }
                }
                // does the daemon's latest probe of that name carry a record of the attacked type?
                let latest_types: Option<Vec<u16>> = d
                    .log
                    .iter()
                    .filter(|e| e.t < a.t)
                    .filter_map(|e| match &e.ev {
                        Ev::Tx(tx) => tx.msg.as_ref().filter(|m| !m.is_response() && m.authorities.iter().any(|r| r.name.eq_ignore_case(&a.name))),
                        _ => None,
                    })
                    .last()
                    .map(|m| m.authorities.iter().filter(|r| r.name.eq_ignore_case(&a.name)).map(|r| r.rtype).collect());
                let split = latest_types.is_some_and(|ts| !ts.contains(&a.rtype));
                if probing && !given_up && !claimed_before && !complete {
                    effective_attacks.push((a.t, a.name.clone(), host_kind, split));
                }
            }
        }
        for e in &d.log {
            match &e.ev {
                Ev::Mon(DaemonEvent::NameChange(c)) => {
                    changes.push((c.original.clone(), c.new_name.clone(), format!("{}", c.rr_type)));
                }
                Ev::Rx { msg: Some(m), .. } if !m.is_response() && !m.authorities.is_empty() => {
                    // a peer's probe: do I have to yield?
                    for q in &m.questions {
                        let key = q.name.lower();
                        let Some((t_sent, mine)) = last_probe.get(&key) else { continue };
                        if announced_names.iter().any(|a| a.eq_ignore_case(&q.name)) {
                            continue;
                        }
                        if e.t >= t_sent + 250 || waits.iter().any(|(nm, _, until)| nm == &key && e.t < *until) {
                            continue;
                        }
                        // scripted peers: a conflicting response since my last probe may have
                        // moved some of my records away from this name
                        if script.is_some_and(|att| att.iter().any(|a| !a.same_data && a.name.eq_ignore_case(&q.name) && a.t >= *t_sent && a.t <= e.t)) {
                            continue;
                        }
                        // the same between daemons: a response claiming the name since my last probe
                        // (a conflict moves my records to the next name), or the name given up by now
                        if d.log.iter().any(|e2| {
                            e2.t >= *t_sent && e2.t <= e.t && matches!(&e2.ev, Ev::Rx { msg: Some(m2), .. } if m2.is_response() && claims(m2).any(|r| r.name.eq_ignore_case(&q.name)))
                        }) {
                            continue;
                        }
                        let host_kind = mine.iter().any(|r| matches!(r.rdata, RData::A(_) | RData::Aaaa(_)));
                        if !mine.is_empty() && !current(&q.name, host_kind, e.t) {
                            continue;
                        }
                        // a probe arriving in the very millisecond in which my own probing
                        // starts is not compared yet (the next one, 250 ms later, is)
                        if round_start.get(&key).is_some_and(|t0| e.t <= *t0) {
                            continue;
                        }
                        // exact-case owner names only (the crate matches names case-sensitively here)
                        let theirs: Vec<&Record> = m.authorities.iter().filter(|r| r.name == q.name).collect();
                        // a response about the host my SRV points to, since my last probe, may have
                        // renamed the host: the probe of this name then starts a new round (its SRV
                        // changed) and is not compared before that round's first probe
                        let targets: Vec<Name> = mine.iter().filter_map(|r| wire::srv_of(r).map(|(_, h)| h.clone())).collect();
                        if !targets.is_empty()
                            && d.log.iter().any(|e2| {
                                e2.t >= *t_sent
                                    && e2.t <= e.t
                                    && matches!(&e2.ev, Ev::Rx { msg: Some(m2), .. } if m2.is_response() && claims(m2).any(|r| targets.iter().any(|h| h.eq_ignore_case(&r.name))))
                            })
                        {
                            continue;
                        }
                        // (a question without proposed records - what is left of a probe whose records
                        // have all moved to a new name - claims nothing and has nothing to compare)
                        if theirs.is_empty() || mine.is_empty() || mine.iter().any(|r| r.name != q.name) {
                            continue;
                        }
                        // RDATA is compared where it is plain bytes (A, AAAA, TXT); a comparison that
                        // is only decided by an SRV record is left unjudged here
                        let key_of = |r: &Record| -> (u16, u16, Option<Vec<u8>>) {
                            (
                                r.class_only(),
                                r.rtype,
                                match &r.rdata {
                                    RData::A(a) => Some(a.octets().to_vec()),
                                    RData::Aaaa(a) => Some(a.octets().to_vec()),
                                    RData::Txt(t) => Some(t.clone()),
                                    _ => None,
                                },
                            )
                        };
                        let mut a: Vec<_> = mine.iter().map(key_of).collect();
                        let mut b: Vec<_> = theirs.iter().map(|r| key_of(r)).collect();
                        if a.iter().chain(b.iter()).filter(|k| k.2.is_none()).count() > 2 {
                            continue;
                        }
                        a.sort();
                        b.sort();
                        let mut mine_earlier = None;
                        let mut undecided = false;
                        for (x, y) in a.iter().zip(b.iter()) {
                            if (x.0, x.1) != (y.0, y.1) {
                                mine_earlier = Some((x.0, x.1) < (y.0, y.1));
                                break;
                            }
                            match (&x.2, &y.2) {
                                (Some(p), Some(q)) if p != q => {
                                    mine_earlier = Some(p < q);
                                    break;
                                }
                                (Some(_), Some(_)) => {}
                                _ => {
                                    undecided = true;
                                    break;
                                }
                            }
                        }
                        if mine_earlier.is_none() && !undecided && a.len() != b.len() {
                            mine_earlier = Some(a.len() < b.len());
                        }
                        if mine_earlier == Some(true) {
                            waits.push((key.clone(), e.t, e.t + 1000));
                        }
                    }
                }
                Ev::Tx(tx) => {
                    let Some(m) = &tx.msg else {
                        ctx.violation("C08/unparseable-packet", format!("D{i} sent a packet the reference decoder rejects\n{}", render(&w)));
                        return;
                    };
                    if !m.is_response() {
                        for q in &m.questions {
                            if q.qtype == T_ANY {
                                let auth: Vec<Record> = m.authorities.iter().filter(|r| r.name.eq_ignore_case(&q.name)).cloned().collect();
                                let key = q.name.lower();
                                // (a question without proposed records is not a probe)
                                if let Some((nm, t_lost, _)) = waits.iter().find(|(nm, _, until)| !auth.is_empty() && nm == &key && e.t < *until) {
                                    // (an instance label with dots or backslashes is not recognised in
                                    // what peers send: the recorded finding)
                                    let first = first_label(&q.name);
                                    let escaped_label = q.name.0.len() > 2 && (first.contains('.') || first.contains('\\'));
                                    ctx.violation(
                                        if escaped_label { "C08/escaped-instance-label/conflict-not-detected".to_string() } else { sig("C08/lost-comparison-no-wait") },
                                        format!(
                                            "D{i} lost the simultaneous-probe comparison for {} at +{} ms (its data sorts earlier) but probes again at +{} ms, before one second has passed\n{}",
                                            nm.to_escaped(),
                                            t_lost - T0,
                                            e.t - T0,
                                            render(&w)
                                        ),
                                    );
                                    return;
                                }
                                // a new round: the first probe, one after a pause, or one with other data
                                // (the SRV target after a host rename)
                                if last_probe.get(&key).map_or(true, |(t_prev, prev)| e.t > t_prev + 300 || format!("{prev:?}") != format!("{auth:?}")) {
                                    round_start.insert(key.clone(), e.t);
                                }
                                last_probe.insert(key, (e.t, auth));
                                if q.name == *fi && first_claim_inst.is_none() {
                                    probes_inst += 1;
                                }
                                if q.name.eq_ignore_case(fh) && first_claim_host.is_none() {
                                    probes_host += 1;
                                }
                            }
                        }
                        continue;
                    }
                    for r in claims(m) {
                        let bad = match &r.rdata {
                            RData::Ptr(t) => {
                                if r.name.eq_ignore_case(&ty) {
                                    (!current(t, false, e.t)).then(|| format!("PTR points at {}", t.to_escaped()))
                                } else if r.name.to_escaped().to_lowercase().starts_with("_services._dns-sd") {
                                    None
                                } else {
                                    Some(format!("unexpected PTR owner {}", r.name.to_escaped()))
                                }
                            }
                            RData::Srv { target, port, .. } => {
                                if !current(&r.name, false, e.t) {
                                    Some(format!("SRV owner {}", r.name.to_escaped()))
                                } else if !current(target, true, e.t) {
                                    Some(format!("SRV target {}", target.to_escaped()))
                                } else if *port != p.port {
                                    Some(format!("SRV port {port}"))
                                } else {
                                    None
                                }
                            }
                            RData::Txt(_) => (!current(&r.name, false, e.t)).then(|| format!("TXT owner {}", r.name.to_escaped())),
                            RData::A(a) => {
                                if !current(&r.name, true, e.t) {
                                    Some(format!("A owner {}", r.name.to_escaped()))
                                } else {
                                    (!p.addrs.contains(&IpAddr::V4(*a))).then(|| format!("foreign address {a}"))
                                }
                            }
                            RData::Aaaa(a) => {
                                if !current(&r.name, true, e.t) {
                                    Some(format!("AAAA owner {}", r.name.to_escaped()))
                                } else {
                                    (!p.addrs.contains(&IpAddr::V6(*a))).then(|| format!("foreign address {a}"))
                                }
                            }
                            RData::Nsec(..) => (!current(&r.name, false, e.t) && !current(&r.name, true, e.t)).then(|| format!("NSEC owner {}", r.name.to_escaped())),
                            _ => None,
                        };
                        // a name attacked by a conflicting response while it was still being
                        // probed is never claimed afterwards
                        let bad = bad.or_else(|| {
                            let host_kind = matches!(r.rdata, RData::A(_) | RData::Aaaa(_));
                            let mut names: Vec<(&Name, bool)> = vec![(&r.name, host_kind)];
                            match &r.rdata {
                                RData::Ptr(t) => names.push((t, false)),
                                RData::Srv { target, .. } => names.push((target, true)),
                                _ => {}
                            }
                            if matches!(r.rdata, RData::Ptr(_)) {
                                names.remove(0);
                            }
                            for (nm, hk) in names {
                                // attacks on a record type the daemon had moved to the name already come first
                                let mut hits: Vec<&(u64, Name, bool, bool)> = effective_attacks.iter().filter(|(ta, an, ak, _)| *ak == hk && an.eq_ignore_case(nm) && *ta < e.t).collect();
                                hits.sort_by_key(|h| h.3);
                                if let Some((ta, _, _, split)) = hits.first() {
                                    return Some(format!(
                                        "{} although a conflicting response for it arrived at +{} ms, while the daemon was probing it{}",
                                        nm.to_escaped(),
                                        ta - T0,
                                        if *split { " [for other record types only: the conflicting type was still filed under the previous name]" } else { "" }
                                    ));
                                }
                            }
                            None
                        });
                        if let Some(bad) = bad {
                            let renamed = !fi.eq_ignore_case(&p.inst0) || !fh.eq_ignore_case(&p.host0);
                            let escaped_label = p.inst_label.contains('.') || p.inst_label.contains('\\');
                            ctx.violation(
                                if escaped_label && bad.contains("although a conflicting response") {
                                    "C08/escaped-instance-label/conflict-not-detected"
                                } else if bad.contains("[for other record types only") || split_prone {
                                    "C08/conflict-on-record-type-still-under-previous-name"
                                } else if renamed {
                                    "C08/inconsistent-names-after-rename"
                                } else {
                                    "C08/inconsistent-names"
                                },
                                format!(
                                    "D{i} (final names: instance {} host {}) sent at +{} ms a response record with {bad}, a name it had not probed yet or had already given up for a later one: {}\n{}",
                                    fi.to_escaped(),
                                    fh.to_escaped(),
                                    e.t - T0,
                                    render_record(r),
                                    render(&w)
                                ),
                            );
                            return;
                        }
                        if r.name == *fi && first_claim_inst.is_none() {
                            first_claim_inst = Some(e.t);
                        }
                        if r.name == *fh && first_claim_host.is_none() {
                            first_claim_host = Some(e.t);
                        }
                        if !announced_names.contains(&r.name) {
                            announced_names.push(r.name.clone());
                        }
                    }
                }
                _ => {}
            }
        }
        lost_waits += waits.len();
        if probes_inst < 3 || probes_host < 3 {
            ctx.violation(
                &sig("C08/new-name-not-probed-three-times"),
                format!(
                    "D{i} claimed its final names (instance {} after {} probes, host {} after {} probes) without three probes each\n{}",
                    fi.to_escaped(),
                    probes_inst,
                    fh.to_escaped(),
                    probes_host,
                    render(&w)
                ),
            );
            return;
        }
        // NameChange events
        let inst_changed = !fi.eq_ignore_case(&p.inst0);
        let host_changed = !fh.eq_ignore_case(&p.host0);
        let ev_inst: Vec<&(String, String, String)> = changes.iter().filter(|c| c.2 == "TYPE_SRV" || c.2 == "TYPE_TXT").collect();
        let ev_host: Vec<&(String, String, String)> = changes.iter().filter(|c| c.2 == "TYPE_A" || c.2 == "TYPE_AAAA").collect();
        let other_ev = changes.len() - ev_inst.len() - ev_host.len();
        let mut bad: Option<String> = None;
        if other_ev > 0 {
            bad = Some("NameChange with an unexpected record type".into());
        }
        if inst_changed {
            match ev_inst.last() {
                None => bad = Some(format!("the instance was renamed to {} but no NameChange event reports it", fi.to_escaped())),
                Some(c) => {
                    if Name::from_escaped(&c.1) != *fi {
                        bad = Some(format!("the last instance NameChange reports new name '{}' but the daemon announces {}", c.1, fi.to_escaped()));
                    } else if Name::from_escaped(&c.0) != p.inst0 {
                        bad = Some(format!("the instance NameChange reports original '{}', registered was {}", c.0, p.inst0.to_escaped()));
                    }
                }
            }
        } else if !ev_inst.is_empty() {
            bad = Some(format!("NameChange {:?} reported but the daemon holds its original instance name", ev_inst));
        }
        if host_changed {
            match ev_host.last() {
                None => bad = Some(format!("the host was renamed to {} but no NameChange event reports it", fh.to_escaped())),
                Some(c) => {
                    if !Name::from_escaped(&c.1).eq_ignore_case(fh) {
                        bad = Some(format!("the last host NameChange reports new name '{}' but the SRV target is {}", c.1, fh.to_escaped()));
                    } else if !Name::from_escaped(&c.0).eq_ignore_case(&p.host0) {
                        bad = Some(format!("the host NameChange reports original '{}', registered was {}", c.0, p.host0.to_escaped()));
                    }
                }
            }
        } else if !ev_host.is_empty() {
            bad = Some(format!("NameChange {:?} reported but the daemon holds its original host name", ev_host));
        }
        if let Some(bad) = bad {
            ctx.violation(&sig("C08/name-change-event"), format!("D{i}: {bad}\n  events: {changes:?}\n{}", render(&w)));
            return;
        }
        // answers to the final questions
        for (tq, q) in &asked[i] {
            let answered = |pred: &dyn Fn(&Record) -> bool| -> bool {
                d.log.iter().any(|e| {
                    e.t >= *tq && e.t <= *tq + 600 && matches!(&e.ev, Ev::Tx(tx) if tx.msg.as_ref().is_some_and(|m| m.is_response() && claims(m).any(|r| r.ttl > 0 && pred(r))))
                })
            };
            // names with dots or backslashes inside a label: the crate compares the unescaped
            // wire name with its escaped text form (recorded under C04); not judged here
            let special = q.name.0.iter().any(|l| l.contains(&b'.') || l.contains(&b'\\'));
            let missing = if special {
                None
            } else if q.qtype == T_PTR {
                (!answered(&|r| r.rtype == T_PTR && matches!(&r.rdata, RData::Ptr(t) if t == fi))).then(|| "PTR to its instance".to_string())
            } else if q.name.eq_ignore_case(fi) && (q.qtype == T_SRV || q.qtype == T_ANY) {
                (!answered(&|r| r.rtype == T_SRV && r.name == *fi)).then(|| "its SRV".to_string())
            } else if q.name.eq_ignore_case(fh) && (q.qtype == T_A || q.qtype == T_ANY) {
                (!answered(&|r| r.rtype == T_A && r.name == *fh)).then(|| "its A record".to_string())
            } else {
                None
            };
            if let Some(m) = missing {
                ctx.violation(
                    "C08/question-unanswered-after-conflict",
                    format!("D{i} (instance {} host {}) did not answer {} {} asked at +{} ms with {m}\n{}", fi.to_escaped(), fh.to_escaped(), q.name.to_escaped(), type_name(q.qtype), tq - T0, render(&w)),
                );
                return;
            }
        }
        // goodbye
        if case.unregister {
            let bye = d.log.iter().any(|e| {
                e.t >= t_unreg && matches!(&e.ev, Ev::Tx(tx) if tx.msg.as_ref().is_some_and(|m| m.is_response() && m.answers.iter().any(|r| r.ttl == 0 && r.rtype == T_PTR && matches!(&r.rdata, RData::Ptr(t) if t == fi))))
            });
            if !bye {
                ctx.violation("C08/goodbye-missing-after-conflict", format!("D{i} unregistered {} but sent no goodbye for {}\n{}", p.fullname_arg, fi.to_escaped(), render(&w)));
                return;
            }
        }
    }

    // classes
    let spread = case.offsets.iter().take(n).max().unwrap_or(&0) - case.offsets.iter().take(n).min().unwrap_or(&0);
    ctx.class(if spread == 0 {
        "start:simultaneous"
    } else if spread < 250 {
        "start:within-250ms"
    } else if spread < 1000 {
        "start:within-probing"
    } else {
        "start:after-announcement"
    });
    ctx.class(if n == 2 { "two-daemons" } else { "three-daemons" });
    ctx.class_if(renamed_inst > 0, "instance-renamed");
    ctx.class_if(renamed_host > 0, "host-renamed");
    ctx.class_if(renamed_inst >= 2, "two-instances-renamed");
    ctx.class_if(lost_waits > 0, "lost-comparison-seen");
    ctx.class_if(overlong, "suffix-would-overflow-label");
    ctx.class_if(case.unregister, "goodbye-checked");
    ctx.class_if(case.v6, "with-ipv6");
    ctx.class(&format!("inst-label:{}", case.inst as usize % N_INST_LABELS));
    ctx.class(&format!("host-label:{}", case.host as usize % N_HOST_LABELS));
    if renamed_inst + renamed_host > 0 {
        ctx.nontrivial(format!(
            "{}-{}-{}-{}-{}-{}",
            n,
            case.inst as usize % N_INST_LABELS,
            case.host as usize % N_HOST_LABELS,
            renamed_inst,
            renamed_host,
            spread.min(3000) / 50
        ));
    }
    if ctx.want_sample {
        ctx.sample = Some(json!({
            "daemons": n,
            "offsets_ms": case.offsets.iter().take(n).collect::<Vec<_>>(),
            "registered": plan.iter().map(|p| format!("{} / {}", p.inst0.to_escaped(), p.host0.to_escaped())).collect::<Vec<_>>(),
            "final": finals.iter().map(|(a, b)| format!("{} / {}", a.to_escaped(), b.to_escaped())).collect::<Vec<_>>(),
        }));
    }
}

/// Whether `name` had not been given up (a later name of the same kind first probed) before `t`.
fn is_original_or_probed_current(first_probe: &[(Name, bool, u64)], name: &Name, host_kind: bool, t: u64) -> bool {
    let t0 = first_probe.iter().find(|(n, k, _)| *k == host_kind && n.eq_ignore_case(name)).map(|x| x.2).unwrap_or(0);
    !first_probe.iter().any(|(n, k, t1)| *k == host_kind && !n.eq_ignore_case(name) && *t1 > t0 && *t1 < t)
}

// ---------------------------------------------------------------------------------------------
// (c) E3: one daemon, conflicts injected by a scripted peer at every probe step
// ---------------------------------------------------------------------------------------------

#[derive(Clone, Debug)]
pub struct Attack {
    pub t: u64,
    pub name: Name,
    pub rtype: u16,
    pub same_data: bool,
    /// the datagram attacked only one of the record types the daemon holds under the name
    pub single: bool,
}

#[derive(Clone, Debug, Serialize, Deserialize)]
pub enum InjKind {
    RespSrv,
    RespTxt,
    RespA,
    RespAaaa,
    RespAll,
    /// the daemon's own address: not a conflict
    RespSameA,
    /// a peer's probe whose data is lexicographically later (the daemon must yield)
    ProbeWin,
    /// a peer's probe whose data is earlier (ignored)
    ProbeLose,
    /// a peer's probe for the instance name whose data is later (the daemon must yield and wait)
    ProbeWinInst,
}

#[derive(Clone, Debug, Serialize, Deserialize)]
pub struct Inj {
    /// ms after the registration
    pub at: u64,
    pub kind: InjKind,
    /// which name of the rename chain is attacked (0 = the registered one)
    pub level: u8,
}

#[derive(Clone, Debug, Serialize, Deserialize)]
pub struct InjCase {
    pub inst: u8,
    pub host: u8,
    pub v6: bool,
    pub jitter: u64,
    pub injections: Vec<Inj>,
    pub unregister: bool,
}

pub fn check_inject(case: &InjCase, ctx: &mut CaseCtx) {
    let ty = Name::from_escaped(DUEL_TY);
    let mut w = World::new(T0);
    let mut ifs = vec![mdns_sd::verif::SimIf::new("eth0", 2, IpAddr::V4(Ipv4Addr::new(192, 168, 10, 1)), 24)];
    if case.v6 {
        ifs.push(mdns_sd::verif::SimIf::new("eth0", 2, IpAddr::V6(Ipv6Addr::new(0xfd00, 1, 0, 0, 0, 0, 0, 1)), 64));
    }
    let mut d = match SimDaemon::new("D0", ifs, T0, 5) {
        Ok(d) => d,
        Err(e) => {
            ctx.violation("C08/harness/spawn", e);
            return;
        }
    };
    d.h.set_jitter_default(Some(case.jitter % 250));
    let _ = d.monitor();
    w.add(d);
    let inst_l = inst_label(case.inst as usize);
    let host_l = host_label(case.host as usize);
    let mut addrs = vec![IpAddr::V4(Ipv4Addr::new(192, 168, 10, 50))];
    if case.v6 {
        addrs.push(IpAddr::V6(Ipv6Addr::new(0xfd00, 1, 0, 0, 0, 0, 0, 50)));
    }
    let addr_str = addrs.iter().map(|a| a.to_string()).collect::<Vec<_>>().join(",");
    let props = [("id", "0")];
    let info = match ServiceInfo::new(DUEL_TY, &inst_l, &format!("{host_l}.local."), addr_str.as_str(), 3000, &props[..]) {
        Ok(x) => x,
        Err(e) => {
            ctx.violation("C08/harness/serviceinfo", e.to_string());
            w.finish();
            return;
        }
    };
    let reg_t = T0 + 10;
    w.run_until(reg_t);
    let plan = vec![Planned {
        inst0: Name::from_escaped(info.get_fullname()),
        inst_label: inst_l.clone(),
        host0: Name::from_labels(&[host_l.as_bytes(), b"local"]),
        host_label: host_l.clone(),
        port: 3000,
        addrs: addrs.clone(),
        reg_t,
        fullname_arg: info.get_fullname().to_string(),
    }];
    if let Err(e) = w.daemons[0].register(info) {
        ctx.violation("C08/harness/register", e.to_string());
        w.finish();
        return;
    }
    // chains of names as documented (only while the labels stay within 63 bytes)
    let mut chain_i = vec![inst_l.clone()];
    let mut chain_h = vec![host_l.clone()];
    for _ in 0..3 {
        chain_i.push(next_instance_label(chain_i.last().unwrap()));
        chain_h.push(next_host_label(chain_h.last().unwrap()));
    }
    let peer_src: SocketAddr = SocketAddr::new(IpAddr::V4(Ipv4Addr::new(192, 168, 10, 77)), MDNS_PORT);
    let peer_host = Name::from_escaped("peerhost.local.");
    let mut attacks: Vec<Attack> = Vec::new();
    let mut n_resp = 0;
    let mut n_probe = 0;
    for inj in &case.injections {
        let lvl = (inj.level as usize).min(3);
        if chain_i[lvl].len() > 63 || chain_h[lvl].len() > 63 {
            continue;
        }
        let mut il = vec![chain_i[lvl].as_bytes().to_vec()];
        il.extend(ty.0.iter().cloned());
        let iname = Name(il);
        let hname = Name::from_labels(&[chain_h[lvl].as_bytes(), b"local"]);
        let t = reg_t + 1 + inj.at;
        let srv = Record { name: iname.clone(), rtype: T_SRV, class: 1 | FLUSH, ttl: 120, rdata: RData::Srv { priority: 0, weight: 0, port: 9999, target: peer_host.clone() } };
        let txt = Record { name: iname.clone(), rtype: T_TXT, class: 1 | FLUSH, ttl: 4500, rdata: RData::Txt(b"\x07id=peer".to_vec()) };
        let a = peer::addr_rec(&hname, IpAddr::V4(Ipv4Addr::new(192, 168, 10, 77)), 120, true);
        let aaaa = peer::addr_rec(&hname, IpAddr::V6(Ipv6Addr::new(0xfd00, 1, 0, 0, 0, 0, 0, 0x77)), 120, true);
        let v6 = case.v6;
        let all = matches!(inj.kind, InjKind::RespAll);
        let mut att = |name: &Name, rtype: u16, same: bool| {
            let host_kind = rtype == T_A || rtype == T_AAAA;
            attacks.push(Attack { t, name: name.clone(), rtype, same_data: same, single: !all && (!host_kind || v6) })
        };
        let bytes = match inj.kind {
            InjKind::RespSrv => {
                att(&iname, T_SRV, false);
                peer::response(vec![srv], vec![])
            }
            InjKind::RespTxt => {
                att(&iname, T_TXT, false);
                peer::response(vec![txt], vec![])
            }
            InjKind::RespA => {
                att(&hname, T_A, false);
                peer::response(vec![a], vec![])
            }
            InjKind::RespAaaa => {
                att(&hname, T_AAAA, false);
                peer::response(vec![aaaa], vec![])
            }
            InjKind::RespAll => {
                att(&iname, T_SRV, false);
                att(&iname, T_TXT, false);
                att(&hname, T_A, false);
                att(&hname, T_AAAA, false);
                peer::response(vec![srv, txt, a, aaaa], vec![])
            }
            InjKind::RespSameA => {
                att(&hname, T_A, true);
                peer::response(vec![peer::addr_rec(&hname, addrs[0], 120, true)], vec![])
            }
            InjKind::ProbeWin => peer::query(0, vec![peer::q(&hname, T_ANY)], vec![], vec![peer::addr_rec(&hname, IpAddr::V4(Ipv4Addr::new(192, 168, 10, 250)), 120, false)]),
            InjKind::ProbeLose => peer::query(0, vec![peer::q(&hname, T_ANY)], vec![], vec![peer::addr_rec(&hname, IpAddr::V4(Ipv4Addr::new(192, 168, 10, 3)), 120, false)]),
            InjKind::ProbeWinInst => {
                let mut srv = srv;
                let mut txt = txt;
                srv.class = 1;
                txt.class = 1;
                peer::query(0, vec![peer::q(&iname, T_ANY)], vec![], vec![txt, srv])
            }
        };
        if matches!(inj.kind, InjKind::ProbeWin | InjKind::ProbeLose | InjKind::ProbeWinInst) {
            n_probe += 1;
        } else {
            n_resp += 1;
        }
        w.schedule(t, 0, 2, peer_src, bytes);
    }
    let t_last = reg_t + case.injections.iter().map(|i| i.at).max().unwrap_or(0);
    let t_settled = t_last + 12_000;
    w.run_until(t_settled);
    let asker: SocketAddr = SocketAddr::new(IpAddr::V4(Ipv4Addr::new(192, 168, 10, 200)), MDNS_PORT);
    let mut t = t_settled;
    let mut asked: Vec<Vec<(u64, Question)>> = vec![Vec::new()];
    for round in 0..3 {
        let fin = last_names(&w.daemons[0], &ty);
        let q = match round {
            0 => Some(peer::q(&ty, T_PTR)),
            1 => fin.as_ref().map(|(inst, _)| peer::q(inst, T_ANY)),
            _ => fin.as_ref().and_then(|(_, h)| h.as_ref()).map(|h| peer::q(h, T_ANY)),
        };
        if let Some(q) = q {
            asked[0].push((t, q.clone()));
            w.schedule(t, 0, 2, asker, peer::query(0, vec![q], vec![], vec![]));
        }
        t += 2_000;
        w.run_until(t);
    }
    let t_unreg = t;
    if case.unregister {
        let _ = w.daemons[0].unregister(&plan[0].fullname_arg.clone());
        w.run_until(t + 1_000);
    }
    let dc = DuelCase {
        n: 1,
        offsets: vec![10],
        jitters: vec![case.jitter],
        inst: case.inst,
        host: case.host,
        same_inst: true,
        same_host: true,
        v6: case.v6,
        latency: 0,
        order: 0,
        unregister: case.unregister,
        twin: 0,
    };
    let before = ctx.violations.len();
    judge_duel(&dc, ctx, &w, &plan, &asked, 1, t_settled, t_last, t_unreg, Some(&attacks));
    if ctx.violations.len() == before {
        // "same data" is no conflict: without any real attack the names stay
        let real = attacks.iter().any(|a| !a.same_data && !(a.rtype == T_AAAA && !case.v6));
        if !real && n_probe == 0 {
            if let Some((fi, Some(fh))) = last_names(&w.daemons[0], &ty) {
                if !fi.eq_ignore_case(&plan[0].inst0) || !fh.eq_ignore_case(&plan[0].host0) {
                    ctx.violation(
                        "C08/renamed-without-conflict",
                        format!("no conflicting data was ever delivered, yet the daemon ends up as {} / {}\n{}", fi.to_escaped(), fh.to_escaped(), render_log(&w.daemons[0].log, true, 150)),
                    );
                }
            }
        }
    }
    ctx.class_if(n_resp > 0, "conflicting-response-injected");
    ctx.class_if(n_resp > 0 && !attacks.iter().any(|a| !a.same_data && a.single && !(a.rtype == T_AAAA && !case.v6)), "all-record-types-attacked-together(strict)");
    ctx.class_if(n_probe > 0, "peer-probe-injected");
    for inj in &case.injections {
        let step = match inj.at {
            0..=249 => "step:before-2nd-probe",
            250..=499 => "step:before-3rd-probe",
            500..=749 => "step:after-3rd-probe",
            _ => "step:later",
        };
        ctx.class(step);
        ctx.class_if(inj.level > 0, "attack-on-renamed-name");
    }
    w.finish();
}

pub fn inject_strategy() -> BoxedStrategy<InjCase> {
    let inj = (
        prop_oneof![6 => 0u64..760, 2 => prop_oneof![Just(0u64), Just(249), Just(250), Just(499), Just(500), Just(749), Just(750)], 3 => 760u64..3000],
        prop_oneof![
            2 => Just(InjKind::RespSrv),
            1 => Just(InjKind::RespTxt),
            3 => Just(InjKind::RespA),
            1 => Just(InjKind::RespAaaa),
            7 => Just(InjKind::RespAll),
            1 => Just(InjKind::RespSameA),
            2 => Just(InjKind::ProbeWin),
            1 => Just(InjKind::ProbeLose),
            2 => Just(InjKind::ProbeWinInst),
        ],
        prop_oneof![3 => Just(0u8), 2 => Just(1u8), 1 => Just(2u8)],
    )
        .prop_map(|(at, kind, level)| Inj { at, kind, level });
    (
        prop_oneof![4 => Just(0u8), 6 => 0u8..N_INST_LABELS as u8],
        prop_oneof![4 => Just(0u8), 6 => 0u8..N_HOST_LABELS as u8],
        prop::bool::weighted(0.4),
        prop_oneof![2 => Just(0u64), 3 => 0u64..250],
        prop::collection::vec(inj, 1..5),
        prop::bool::weighted(0.4),
    )
        .prop_map(|(inst, host, v6, jitter, injections, unregister)| InjCase { inst, host, v6, jitter, injections, unregister })
        .boxed()
}

fn offset_strategy() -> BoxedStrategy<u64> {
    prop_oneof![
        3 => Just(0u64),
        2 => 0u64..=10,
        4 => 0u64..=300,
        2 => 240u64..=260,
        2 => 490u64..=510,
        2 => 740u64..=760,
        2 => 990u64..=1010,
        3 => 0u64..=3000,
        1 => 3000u64..=6000,
    ]
    .boxed()
}

pub fn duel_strategy() -> BoxedStrategy<DuelCase> {
    (
        prop_oneof![3 => Just(2usize), 2 => Just(3usize)],
        prop::collection::vec(offset_strategy(), 3),
        prop::collection::vec(prop_oneof![2 => Just(0u64), 1 => Just(249u64), 4 => 0u64..250], 3),
        prop_oneof![5 => Just(0u8), 6 => 0u8..N_INST_LABELS as u8],
        prop_oneof![5 => Just(0u8), 6 => 0u8..N_HOST_LABELS as u8],
        0u8..6,
        prop::bool::weighted(0.3),
        prop_oneof![4 => Just(0u64), 2 => 1u64..=3, 1 => 3u64..=30],
        0u8..36,
        (prop::bool::weighted(0.5), Just(0u8)),
    )
        .prop_map(|(n, offsets, jitters, inst, host, same, v6, latency, order, (unregister, twin))| DuelCase {
            n,
            offsets,
            jitters,
            inst,
            host,
            same_inst: same != 0,
            same_host: same != 1,
            v6,
            latency,
            order,
            unregister,
            twin,
        })
        .boxed()
}

/// Dense grid: two daemons, plain names, offset 0..=2000 ms in steps of 10, 3 x 3 jitters, both data orders.
fn duel_enumerated(i: u64) -> DuelCase {
    let (off, rest) = (i % 201, i / 201);
    let (ja, rest) = (rest % 3, rest / 3);
    let (jb, rest) = (rest % 3, rest / 3);
    let js = [0u64, 125, 249];
    DuelCase {
        n: 2,
        offsets: vec![0, off * 10, 0],
        jitters: vec![js[ja as usize], js[jb as usize], 0],
        inst: 0,
        host: 0,
        same_inst: true,
        same_host: true,
        v6: false,
        latency: 0,
        order: if rest % 2 == 0 { 0 } else { 7 },
        unregister: false,
        twin: 0,
    }
}
const DUEL_GRID: u64 = 201 * 3 * 3 * 2;

pub fn run(tier: Tier) -> i32 {
    let mut agg = Agg::new("C08", tier);
    agg.assume("comparison part: Probe::insert_record / Probe::tiebreaking driven through the delegation-only facade (src/verif/component.rs) under a thread-local clock; the RFC 6762 8.2 order is demanded only where RDATA is plain bytes (A, AAAA, TXT); sets with SRV records take part in the opposite-verdict and wait-one-second checks only");
    let n_sub = small_subsets().len() as u64;
    run_enumerated(
        &mut agg,
        "comparison-all-small-pairs",
        &format!("all ordered pairs of the {n_sub} subsets (size <= 2) of a 12-record pool (A/AAAA/TXT, two classes) x both insertion orders x both packet orders"),
        n_sub * n_sub * 4,
        &cmp_enumerated,
        &check_cmp,
    );
    run_part(
        &mut agg,
        &Part {
            name: "comparison",
            rule: "two record sets of 0-3 records (A, AAAA, TXT, SRV; flush bit; a second class) for one probed name, independent or derived from each other (equal, prefix, one record replaced), any insertion order on my side and any packet order on theirs, probe age, noise records for another name; non-trivial = the opposite-verdict check ran",
            cases: scale(tier.pick(1_000_000, 20_000_000)),
            max_shrink_iters: 2000,
            strategy: &cmp_strategy,
            check: &check_cmp,
        },
    );
    run_regressions::<CmpCase>(&mut agg, "comparison", &check_cmp);
    run_regressions::<CmpCase>(&mut agg, "comparison-all-small-pairs", &check_cmp);
    agg.assume("injected-conflicts part: a scripted peer instead of real daemons; a conflicting response counts as an attack on a name only if it arrives after the daemon started probing that name (or, for the registered name, after the registration), before the daemon gave the name up and before it claimed it in a response");
    agg.assume("duel part: two or three real daemons in one lock-step simulated world, one loss-free link with a fixed latency (0-30 ms); every daemon registers one service; all daemons of a case contest the same instance label and/or host label with different ports / addresses; final names are read from each daemon's own announcements; the wait after a lost comparison is demanded where both record sets are plain bytes (host names: A/AAAA)");
    run_enumerated(
        &mut agg,
        "duel-grid",
        "two daemons registering dup._http._tcp.local. / duphost.local. with different port and address: second registration 0..=2000 ms after the first in steps of 10 ms x probe jitters {0,125,249}^2 x both data orders",
        scale(DUEL_GRID),
        &duel_enumerated,
        &check_duel,
    );
    run_regressions::<DuelCase>(&mut agg, "duel", &check_duel);
    run_part(
        &mut agg,
        &Part {
            name: "duel",
            rule: "2-3 daemons, registration offsets from simultaneous to seconds apart (dense below 300 ms and around 250/500/750/1000 ms), probe jitter 0..250 each, 12 instance labels and 9 host labels (plain, existing ' (N)' / '-N' suffixes, escaped dot, backslash, non-ASCII, 59-63 byte labels, u32::MAX suffix), same instance and/or same host, IPv6, link latency, who holds the smaller data, final questions and unregister; non-trivial = at least one name was renamed",
            cases: scale(tier.pick(12_000, 400_000)),
            max_shrink_iters: 300,
            strategy: &duel_strategy,
            check: &check_duel,
        },
    );
    run_regressions::<InjCase>(&mut agg, "injected-conflicts", &check_inject);
    run_part(
        &mut agg,
        &Part {
            name: "injected-conflicts",
            rule: "one daemon registering a service (12 instance / 9 host labels, IPv4 or dual stack, probe jitter) while a scripted peer delivers 1-4 datagrams at any moment of the probing (dense over 0..760 ms and on the 250 ms steps): conflicting SRV / TXT / A / AAAA / all records for the registered name or for the first / second renamed name, the daemon's own address (no conflict), and peer probes that win or lose the comparison; non-trivial = a name was renamed",
            cases: scale(tier.pick(12_000, 400_000)),
            max_shrink_iters: 300,
            strategy: &inject_strategy,
            check: &check_inject,
        },
    );
    agg.require_class("injected-conflicts:instance-renamed", 1000);
    agg.require_class("injected-conflicts:host-renamed", 1000);
    agg.require_class("injected-conflicts:attack-on-renamed-name", 1000);
    agg.require_class("injected-conflicts:all-record-types-attacked-together(strict)", 2000);
    agg.require_class("duel:instance-renamed", 1000);
    agg.require_class("duel:host-renamed", 1000);
    agg.require_class("duel:lost-comparison-seen", 200);
    agg.require_class("duel:three-daemons", 500);
    agg.finish()
}

pub fn replay(file: &std::path::Path) -> i32 {
    if let Some(c) = replay_part::<DuelCase>("C08", "duel", file, 3, &check_duel) {
        return c;
    }
    if let Some(c) = replay_part::<DuelCase>("C08", "duel-grid", file, 3, &check_duel) {
        return c;
    }
    if let Some(c) = replay_part::<InjCase>("C08", "injected-conflicts", file, 3, &check_inject) {
        return c;
    }
    if let Some(c) = replay_part::<CmpCase>("C08", "comparison", file, 1, &check_cmp) {
        return c;
    }
    if let Some(c) = replay_part::<CmpCase>("C08", "comparison-all-small-pairs", file, 1, &check_cmp) {
        return c;
    }
    eprintln!("harness error: replay file does not belong to C08");
    2
}
