//! C18 - each interface is its own link; nothing leaks or outlives its removal (E3).

use crate::gen::*;
use crate::refdns::*;
use crate::runner::*;
use crate::sim::peer;
use crate::sim::*;
use mdns_sd::verif::SimIf;
use mdns_sd::{IfKind, ScopedIp, ServiceEvent, ServiceInfo};
use proptest::prelude::*;
use serde::{Deserialize, Serialize};
use serde_json::json;
use std::collections::{BTreeMap, BTreeSet};
use std::net::{IpAddr, SocketAddr};

const BROWSED: &str = "_http._tcp.local.";
const SVC_TY: &str = "_c18._udp.local.";
const SVC_HOST: &str = "c18host.local.";
const CHECK_MS: u64 = 1000;
/// after a change of the interface table the daemon notices at its next check
const GRACE_MS: u64 = CHECK_MS + 100;

#[derive(Clone, Debug, Serialize, Deserialize, PartialEq, Eq)]
pub enum Sel {
    All,
    V4,
    V6,
    Name(usize),
    /// the address interface k has (had) in that family at the start
    Addr(usize, bool),
    IndexV4(usize),
    IndexV6(usize),
}

#[derive(Clone, Debug, Serialize, Deserialize)]
pub enum TableOp {
    AddFam { k: usize, v6: bool },
    DelFam { k: usize, v6: bool },
    Down { k: usize },
    Up { k: usize },
    /// the interface's addresses move to another host part in the same subnets
    Move { k: usize },
    /// the prefix length of the interface's addresses changes (the addresses themselves stay): the
    /// table shows the old entry gone and a new one with the same address in one poll
    Reprefix { k: usize },
}

#[derive(Clone, Debug, Serialize, Deserialize)]
pub enum Op {
    Select { enable: bool, sel: Sel },
    Table(TableOp),
    Register,
    Unregister,
    /// the peer on interface k announces its instance over that family
    Announce { k: usize, v6: bool },
    Query { k: usize, v6: bool },
    /// a multi-homed peer (instance 'm', host 'MultiHost.local.') announces itself on interface k
    /// with the address it has there
    AnnounceMulti { k: usize, v6: bool },
    /// browse the type again: what the cache holds is reported on a new channel
    BrowseAgain,
    Advance { ms: u64 },
}

#[derive(Clone, Debug, Serialize, Deserialize)]
pub struct Case {
    pub ifs: Vec<IfSpec>,
    pub auto: bool,
    /// explicit addresses: in the subnets of these interfaces (by position, up to 3)
    pub on: Vec<bool>,
    pub svc_v4: bool,
    pub svc_v6: bool,
    pub ops: Vec<Op>,
}

#[derive(Clone, Debug, PartialEq, Eq)]
struct Entry {
    k: usize,
    v6: bool,
    host: u8,
    up: bool,
    /// a longer prefix (/25, /65): the same subnet as far as every address used here goes
    narrow: bool,
}

fn entry_ip(e: &Entry) -> IpAddr {
    if e.v6 {
        IpAddr::V6(subnet_v6(e.k, e.host as u16))
    } else {
        IpAddr::V4(subnet_v4(e.k, e.host))
    }
}

fn to_simifs(t: &[Entry]) -> Vec<SimIf> {
    t.iter()
        .map(|e| {
            let mut s = SimIf::new(if_name(e.k), if_index(e.k), entry_ip(e), if e.v6 { 64 } else { 24 } + e.narrow as u8);
            s.up = e.up;
            s
        })
        .collect()
}

/// The selections as the daemon keeps them: an address is turned into an index selection when
/// the call is made, if an interface has it then.
#[derive(Clone, Debug)]
enum MSel {
    All,
    V4,
    V6,
    Name(usize),
    Addr(IpAddr),
    Index(usize, bool),
}

fn msel_matches(s: &MSel, e: &Entry) -> bool {
    match s {
        MSel::All => true,
        MSel::V4 => !e.v6,
        MSel::V6 => e.v6,
        MSel::Name(k) => *k == e.k,
        MSel::Addr(a) => *a == entry_ip(e),
        MSel::Index(k, v6) => *k == e.k && *v6 == e.v6,
    }
}

#[derive(Clone, Debug, Default)]
struct ModelState {
    table: Vec<Entry>,
    sels: Vec<(MSel, bool)>,
}

impl ModelState {
    /// (k, v6) pairs on which the daemon is active.
    fn active(&self) -> BTreeSet<(usize, bool)> {
        self.table
            .iter()
            .filter(|e| e.up)
            .filter(|e| self.sels.iter().rev().find(|(s, _)| msel_matches(s, e)).map_or(true, |(_, on)| *on))
            .map(|e| (e.k, e.v6))
            .collect()
    }
    fn present(&self) -> BTreeSet<(usize, bool)> {
        self.table.iter().filter(|e| e.up).map(|e| (e.k, e.v6)).collect()
    }
}

/// The multi-homed peer as it announces itself on interface k: the address(es) it has on that link.
fn multi_svc(k: usize, spec: &[Entry]) -> peer::Svc {
    let mut addrs = Vec::new();
    if spec.iter().any(|e| e.k == k && !e.v6) {
        addrs.push(IpAddr::V4(subnet_v4(k, 110)));
    }
    if spec.iter().any(|e| e.k == k && e.v6) {
        addrs.push(IpAddr::V6(subnet_v6(k, 110)));
    }
    peer::Svc {
        ty: Name::from_escaped(BROWSED),
        sub: None,
        inst: b"m".to_vec(),
        host: Name::from_escaped("MultiHost.local."),
        port: 8100,
        txt: vec![0],
        addrs,
    }
}

fn peer_svc(k: usize, spec: &[Entry]) -> peer::Svc {
    let mut addrs = Vec::new();
    if spec.iter().any(|e| e.k == k && !e.v6) {
        addrs.push(IpAddr::V4(subnet_v4(k, 100)));
    }
    if spec.iter().any(|e| e.k == k && e.v6) {
        addrs.push(IpAddr::V6(subnet_v6(k, 100)));
    }
    peer::Svc {
        ty: Name::from_escaped(BROWSED),
        sub: None,
        inst: format!("p{k}").into_bytes(),
        host: Name::from_escaped(&format!("peer{k}.local.")),
        port: 8000 + k as u16,
        txt: vec![0],
        addrs,
    }
}

fn ip_k(ip: &IpAddr) -> Option<usize> {
    subnet_of(ip)
}

pub fn check(case: &Case, ctx: &mut CaseCtx) {
    let n_if = case.ifs.len();
    let mut st = ModelState::default();
    for (k, s) in case.ifs.iter().enumerate() {
        if s.v4 {
            st.table.push(Entry { k, v6: false, host: 1, up: true, narrow: false });
        }
        if s.v6 {
            st.table.push(Entry { k, v6: true, host: 1, up: true, narrow: false });
        }
    }
    let mut d = match SimDaemon::new("D", to_simifs(&st.table), T0, 18) {
        Ok(d) => d,
        Err(e) => {
            ctx.violation("C18/harness/spawn", e);
            return;
        }
    };
    let _ = d.d.set_ip_check_interval(1);
    d.h.set_jitter_default(Some(0));
    let _ = d.monitor();
    let mut w = World::new(T0);
    let di = w.add(d);
    let _ = w.daemons[di].browse(BROWSED);
    w.settle();
    // the first check of the interface table is the one armed at start-up (5 s); from then on every second
    w.advance(5100);

    // the service's explicit addresses
    let mut svc_addrs: Vec<IpAddr> = Vec::new();
    if !case.auto {
        for k in 0..3 {
            if *case.on.get(k).unwrap_or(&false) {
                if case.svc_v4 {
                    svc_addrs.push(IpAddr::V4(subnet_v4(k, 50)));
                }
                if case.svc_v6 {
                    svc_addrs.push(IpAddr::V6(subnet_v6(k, 50)));
                }
            }
        }
        if svc_addrs.is_empty() {
            svc_addrs.push(IpAddr::V4(subnet_v4(0, 50)));
        }
    }
    let make_info = || -> Option<ServiceInfo> {
        let s = svc_addrs.iter().map(|a| a.to_string()).collect::<Vec<_>>().join(",");
        let mut info = ServiceInfo::new(SVC_TY, "svc", SVC_HOST, s.as_str(), 7000, &[("a", "b")][..]).ok()?;
        if case.auto {
            info = info.enable_addr_auto();
        }
        Some(info)
    };
    let svc_full = Name::from_escaped(&format!("svc.{SVC_TY}"));
    let svc_host = Name::from_escaped(SVC_HOST);
    let svc_ty = Name::from_escaped(SVC_TY);

    // history of the model: (log position from which it holds, time, state, judged from this time on)
    let mut hist: Vec<(usize, u64, ModelState, u64)> = vec![(0, T0, st.clone(), T0)];
    let mut registered: Vec<(usize, bool)> = vec![(0, false)];
    let mut queries: Vec<(usize, u64, usize, bool)> = Vec::new();
    let mut announced_on: Vec<(usize, u64, usize, bool)> = Vec::new();
    let mut multi_on: Vec<(usize, u64, usize, bool)> = Vec::new();
    let mut skipped_announce = 0u32;
    let all_entries_spec: Vec<Entry> = {
        // every (k, family) that exists at some time, for the peers' address sets
        let mut v = st.table.clone();
        for op in &case.ops {
            if let Op::Table(TableOp::AddFam { k, v6 }) = op {
                let k = *k % n_if;
                if !v.iter().any(|e| e.k == k && e.v6 == *v6) {
                    v.push(Entry { k, v6: *v6, host: 1, up: true, narrow: false });
                }
            }
        }
        v
    };
    for op in &case.ops {
        w.settle();
        let now = w.now;
        let dm = &mut w.daemons[di];
        dm.set_now(now);
        let pos = dm.log.len();
        match op {
            Op::Select { enable, sel } => {
                let (kind, msel): (IfKind, MSel) = match sel {
                    Sel::All => (IfKind::All, MSel::All),
                    Sel::V4 => (IfKind::IPv4, MSel::V4),
                    Sel::V6 => (IfKind::IPv6, MSel::V6),
                    Sel::Name(k) => (IfKind::Name(if_name(*k % n_if).to_string()), MSel::Name(*k % n_if)),
                    Sel::Addr(k, v6) => {
                        let e = Entry { k: *k % n_if, v6: *v6, host: 1, up: true, narrow: false };
                        let ip = entry_ip(&e);
                        // resolved to an index selection if some interface has the address now
                        let m = match st.table.iter().find(|x| x.up && entry_ip(x) == ip) {
                            Some(x) => MSel::Index(x.k, x.v6),
                            None => MSel::Addr(ip),
                        };
                        (IfKind::Addr(ip), m)
                    }
                    Sel::IndexV4(k) => (IfKind::IndexV4(if_index(*k % n_if)), MSel::Index(*k % n_if, false)),
                    Sel::IndexV6(k) => (IfKind::IndexV6(if_index(*k % n_if)), MSel::Index(*k % n_if, true)),
                };
                dm.api(format!("{}_interface({kind:?})", if *enable { "enable" } else { "disable" }));
                let r = if *enable { dm.d.enable_interface(kind) } else { dm.d.disable_interface(kind) };
                if r.is_ok() {
                    st.sels.push((msel, *enable));
                    hist.push((pos, now, st.clone(), now));
                }
            }
            Op::Table(t) => {
                let before = st.table.clone();
                match t {
                    TableOp::AddFam { k, v6 } => {
                        let k = *k % n_if;
                        if !st.table.iter().any(|e| e.k == k && e.v6 == *v6) {
                            let up = st.table.iter().find(|e| e.k == k).map_or(true, |e| e.up);
                            let host = st.table.iter().find(|e| e.k == k).map_or(1, |e| e.host);
                            st.table.push(Entry { k, v6: *v6, host, up, narrow: false });
                        }
                    }
                    TableOp::DelFam { k, v6 } => {
                        let k = *k % n_if;
                        st.table.retain(|e| !(e.k == k && e.v6 == *v6));
                    }
                    TableOp::Down { k } => st.table.iter_mut().filter(|e| e.k == *k % n_if).for_each(|e| e.up = false),
                    TableOp::Up { k } => st.table.iter_mut().filter(|e| e.k == *k % n_if).for_each(|e| e.up = true),
                    TableOp::Move { k } => st.table.iter_mut().filter(|e| e.k == *k % n_if).for_each(|e| e.host = if e.host == 1 { 9 } else { 1 }),
                    TableOp::Reprefix { k } => st.table.iter_mut().filter(|e| e.k == *k % n_if).for_each(|e| e.narrow = !e.narrow),
                }
                if st.table != before {
                    dm.set_interfaces(to_simifs(&st.table));
                    hist.push((pos, now, st.clone(), now + GRACE_MS));
                    w.advance(GRACE_MS);
                }
            }
            Op::Register => {
                if let Some(info) = make_info() {
                    if dm.register(info).is_ok() {
                        registered.push((pos, true));
                    }
                }
            }
            Op::Unregister => {
                if dm.unregister(&format!("svc.{SVC_TY}")).is_ok() {
                    registered.push((pos, false));
                }
            }
            Op::Announce { k, v6 } => {
                let k = *k % n_if;
                // the network only delivers on an interface / family the daemon is active on
                // (it has left the multicast group elsewhere) - and not during a grace period
                let stable = hist.last().map_or(true, |h| now >= h.3);
                if st.active().contains(&(k, *v6)) && stable {
                    let s = peer_svc(k, &all_entries_spec);
                    let src = if *v6 { SocketAddr::new(IpAddr::V6(subnet_v6(k, 100)), MDNS_PORT) } else { SocketAddr::new(IpAddr::V4(subnet_v4(k, 100)), MDNS_PORT) };
                    dm.inject(if_index(k), src, peer::response(s.announcement(120, 4500), vec![]));
                    announced_on.push((pos, now, k, *v6));
                } else {
                    skipped_announce += 1;
                }
            }
            Op::AnnounceMulti { k, v6 } => {
                let k = *k % n_if;
                let stable = hist.last().map_or(true, |h| now >= h.3);
                if st.active().contains(&(k, *v6)) && stable {
                    let s = multi_svc(k, &all_entries_spec);
                    let src = if *v6 { SocketAddr::new(IpAddr::V6(subnet_v6(k, 110)), MDNS_PORT) } else { SocketAddr::new(IpAddr::V4(subnet_v4(k, 110)), MDNS_PORT) };
                    dm.inject(if_index(k), src, peer::response(s.announcement(120, 4500), vec![]));
                    multi_on.push((pos, now, k, *v6));
                } else {
                    skipped_announce += 1;
                }
            }
            Op::Query { k, v6 } => {
                let k = *k % n_if;
                let stable = hist.last().map_or(true, |h| now >= h.3);
                if st.active().contains(&(k, *v6)) && stable {
                    let src = if *v6 { SocketAddr::new(IpAddr::V6(subnet_v6(k, 200)), MDNS_PORT) } else { SocketAddr::new(IpAddr::V4(subnet_v4(k, 200)), MDNS_PORT) };
                    dm.inject(if_index(k), src, peer::query(0, vec![peer::q(&svc_ty, T_PTR)], vec![], vec![]));
                    queries.push((pos, now, k, *v6));
                }
            }
            Op::BrowseAgain => {
                let _ = dm.browse(BROWSED);
            }
            Op::Advance { ms } => w.advance(*ms),
        }
        w.settle();
    }
    // what is in the cache now is reported once more
    {
        let now = w.now;
        let dm = &mut w.daemons[di];
        dm.set_now(now);
        let _ = dm.browse(BROWSED);
    }
    w.settle();
    // let everything settle, then ask on every present interface / family
    w.advance(4000);
    let final_pos = w.daemons[di].log.len();
    let final_time = w.now;
    for (k, v6) in st.present() {
        let dm = &mut w.daemons[di];
        if !st.active().contains(&(k, v6)) {
            continue;
        }
        let src = if v6 { SocketAddr::new(IpAddr::V6(subnet_v6(k, 201)), MDNS_PORT) } else { SocketAddr::new(IpAddr::V4(subnet_v4(k, 201)), MDNS_PORT) };
        dm.inject(if_index(k), src, peer::query(0, vec![peer::q(&svc_ty, T_PTR)], vec![], vec![]));
    }
    w.settle();
    w.advance(1500);

    'judge: {
    let d = &w.daemons[di];
    let detail = || format!("ifs {:?} auto={} service addresses {:?}\nops: {:?}\n--- history (tail) ---\n{}", case.ifs, case.auto, svc_addrs, case.ops, render_log(&d.log, true, 60));
    macro_rules! fail {
        ($sig:expr, $($arg:tt)*) => {{
            ctx.violation($sig, format!("{}\n{}", format!($($arg)*), detail()));
            break 'judge;
        }};
    }
    if !d.alive() {
        fail!("C18/daemon-died", "{:?}", d.dead);
    }
    if w.budget_exhausted {
        fail!("C18/harness/step-budget", "step budget exhausted");
    }
    let state_at = |pos: usize| -> &(usize, u64, ModelState, u64) { hist.iter().rev().find(|h| h.0 <= pos).unwrap_or(&hist[0]) };
    let is_registered_at = |pos: usize| registered.iter().rev().find(|r| r.0 <= pos).map_or(false, |r| r.1);

    // ---- (A) every packet leaves on an interface / family the daemon is active on
    // ---- (B) ... carrying only addresses of the service that belong to that link
    let mut packets_judged = 0u64;
    let mut svc_packets = 0u64;
    for (pos, e) in d.log.iter().enumerate() {
        let Ev::Tx(tx) = &e.ev else { continue };
        let h = state_at(pos);
        if e.t < h.3 {
            continue; // grace period after a change of the interface table
        }
        let Some(ifx) = tx.if_index else { continue };
        let k = (ifx - 2) as usize;
        let v6 = !tx.v4();
        packets_judged += 1;
        if !h.2.active().contains(&(k, v6)) {
            fail!(
                "C18/packet-on-inactive-interface",
                "at +{} ms a packet left on {} ({}) although that interface / family is {}",
                e.t - T0,
                if_name(k),
                if v6 { "IPv6" } else { "IPv4" },
                if h.2.present().contains(&(k, v6)) { "disabled by the selections in force" } else { "not there (any more)" }
            );
        }
        let Some(m) = &tx.msg else { continue };
        let about_svc = m.all_records().any(|r| r.name.eq_ignore_case(&svc_full) || r.name.eq_ignore_case(&svc_host)) || m.questions.iter().any(|q| q.name.eq_ignore_case(&svc_full));
        if !about_svc {
            continue;
        }
        svc_packets += 1;
        // which addresses belong to this link: the service's addresses in the subnets of interface k
        let own: Vec<IpAddr> = h.2.table.iter().filter(|x| x.k == k && x.up).map(entry_ip).collect();
        for r in m.all_records() {
            if !r.name.eq_ignore_case(&svc_host) {
                continue;
            }
            let ip = match &r.rdata {
                RData::A(a) => IpAddr::V4(*a),
                RData::Aaaa(a) => IpAddr::V6(*a),
                _ => continue,
            };
            let ok = if case.auto {
                // with automatic addressing: an address the interface has - or had until the last
                // change (a goodbye names what was announced)
                ip_k(&ip) == Some(k) && (own.contains(&ip) || r.ttl == 0 || hist.iter().any(|hh| hh.2.table.iter().any(|x| entry_ip(x) == ip)))
            } else {
                svc_addrs.contains(&ip) && ip_k(&ip) == Some(k) && h.2.table.iter().any(|x| x.k == k && x.up && x.v6 == ip.is_ipv6())
            };
            // the recorded finding: a probe that was under way when the interface lost the address
            // family goes on carrying the address (for the two or three probes that are left)
            let stale_probe = !ok
                && !case.auto
                && !m.is_response()
                && svc_addrs.contains(&ip)
                && ip_k(&ip) == Some(k)
                && hist.iter().enumerate().any(|(i, hh)| hh.2.table.iter().any(|x| x.k == k && x.up && x.v6 == ip.is_ipv6()) && hist.get(i + 1).is_some_and(|nx| nx.1 + 2000 >= e.t));
            if stale_probe {
                ctx.violation(
                    "C18/address-of-another-link/in-a-probe-under-way-when-the-address-family-went-away",
                    format!("at +{} ms the probe on {} ({}) still carries {} although the interface lost its last address of that family less than 2 s before\n{}", e.t - T0, if_name(k), if v6 { "IPv6" } else { "IPv4" }, ip, detail()),
                );
                continue;
            }
            if !ok {
                fail!(
                    "C18/address-of-another-link",
                    "at +{} ms the packet on {} ({}) carries {} for the service host: not an address of the service in a subnet of that interface",
                    e.t - T0,
                    if_name(k),
                    if v6 { "IPv6" } else { "IPv4" },
                    ip
                );
            }
        }
    }
    // ---- (C) in the end the service is answered for exactly where it should be
    let final_state = &hist.last().unwrap().2;
    let mut answered_where: BTreeSet<(usize, bool)> = BTreeSet::new();
    for e in d.log[final_pos..].iter() {
        if let Ev::Tx(tx) = &e.ev {
            if let (Some(m), Some(ifx)) = (&tx.msg, tx.if_index) {
                if m.is_response() && m.answers.iter().any(|r| r.rtype == T_PTR && r.name.eq_ignore_case(&svc_ty) && r.ttl > 0) {
                    answered_where.insert(((ifx - 2) as usize, !tx.v4()));
                }
            }
        }
    }
    let reg_final = is_registered_at(final_pos);
    let mut expected_where: BTreeSet<(usize, bool)> = BTreeSet::new();
    if reg_final {
        for (k, v6) in final_state.active() {
            let has = if case.auto {
                true
            } else {
                svc_addrs.iter().any(|a| a.is_ipv6() == v6 && ip_k(a) == Some(k))
            };
            if has {
                expected_where.insert((k, v6));
            }
        }
    }
    // (registered within the last seconds of the history: probing may still run)
    let recently = registered.last().map_or(false, |r| r.1 && d.log.get(r.0).map_or(true, |e| e.t + 5000 > final_time));
    let settled = hist.last().map_or(true, |h| h.1 + 5000 <= final_time);
    // a service with explicit addresses is only promised where the link existed (and has existed
    // ever since) when it was registered; with automatic addressing it follows the addresses
    let reg_pos = registered.iter().rev().find(|r| r.1).map_or(0, |r| r.0);
    let must: BTreeSet<(usize, bool)> = expected_where
        .iter()
        .filter(|x| case.auto || hist.iter().filter(|h| h.0 >= reg_pos).chain(std::iter::once(state_at(reg_pos))).all(|h| h.2.active().contains(x)))
        .cloned()
        .collect();
    if !recently && settled {
        for x in must.difference(&answered_where) {
            fail!(
                "C18/service-not-answered-on-active-interface",
                "at the end the service is registered and {} ({}) is active with a matching address, yet a PTR query there got no answer (answered on: {:?})",
                if_name(x.0),
                if x.1 { "IPv6" } else { "IPv4" },
                answered_where
            );
        }
    }
    for x in answered_where.difference(&expected_where) {
        fail!(
            "C18/service-answered-where-it-should-not-be",
            "at the end a PTR query on {} ({}) was answered although the service {} there",
            if_name(x.0),
            if x.1 { "IPv6" } else { "IPv4" },
            if reg_final { "has no address of that family in that interface's subnet, or the interface is not active" } else { "is not registered" }
        );
    }
    // ---- (D) browse side: addresses in events were learned on an interface / family that has
    //          been active ever since; instances of a vanished interface are reported removed
    let mut found: BTreeMap<usize, bool> = BTreeMap::new();
    let mut stale_checked = 0u64;
    for (pos, e) in d.log.iter().enumerate() {
        match &e.ev {
            Ev::Svc { ev: ServiceEvent::ServiceFound(_, n), .. } => {
                if let Some(k) = n.strip_prefix('p').and_then(|s| s.chars().next()).and_then(|c| c.to_digit(10)) {
                    found.insert(k as usize, true);
                }
            }
            Ev::Svc { ev: ServiceEvent::ServiceRemoved(_, n), .. } => {
                if let Some(k) = n.strip_prefix('p').and_then(|s| s.chars().next()).and_then(|c| c.to_digit(10)) {
                    found.insert(k as usize, false);
                }
            }
            Ev::Svc { ev: ServiceEvent::ServiceResolved(r), .. } => {
                let h = state_at(pos);
                if e.t < h.3 {
                    continue;
                }
                for a in r.addresses.iter() {
                    let ip = a.to_ip_addr();
                    let tags: Vec<u32> = match a {
                        ScopedIp::V4(v4) => v4.interface_ids().iter().map(|i| i.index).collect(),
                        ScopedIp::V6(v6) => vec![v6.scope_id().index],
                        _ => vec![],
                    };
                    for tag in tags {
                        let k = (tag - 2) as usize;
                        let v6 = ip.is_ipv6();
                        stale_checked += 1;
                        // learned: an announcement delivered on (k, family of the packet) that carried the address;
                        // the peer's announcement carries both families' addresses, so the packet's family counts
                        let learned_from = if r.fullname.starts_with("m.") { &multi_on } else { &announced_on };
                        let ok = learned_from.iter().any(|(apos, _, ak, av6)| {
                            *ak == k
                                && *apos < pos
                                // since then the interface has not vanished, and the address's own family has not
                                // been disabled on it (what a family's removal from the table does to addresses
                                // learned there is not stated)
                                && {
                                    let _ = av6;
                                    let states: Vec<&ModelState> = std::iter::once(&state_at(*apos).2).chain(hist.iter().filter(|hh| hh.0 > *apos && hh.0 <= pos).map(|hh| &hh.2)).collect();
                                    let disabled = |s: &ModelState| s.present().contains(&(k, v6)) && !s.active().contains(&(k, v6));
                                    states.iter().all(|s| s.present().iter().any(|x| x.0 == k)) && !states.windows(2).any(|w2| w2[0].active().contains(&(k, v6)) && disabled(w2[1]))
                                }
                        });
                        if !ok {
                            fail!(
                                "C18/address-of-inactive-interface-reported",
                                "ServiceResolved({}) at +{} ms lists {} learned on {}, but no announcement was received there while {} ({}) has been active without interruption",
                                r.fullname,
                                e.t - T0,
                                ip,
                                if_name(k),
                                if_name(k),
                                if v6 { "IPv6" } else { "IPv4" }
                            );
                        }
                    }
                }
            }
            _ => {}
        }
    }
    // an interface that vanished from the table (all families gone or down): its instance is removed
    let mut vanish_checked = 0u32;
    for (hi, h) in hist.iter().enumerate() {
        if hi == 0 {
            continue;
        }
        let prev = &hist[hi - 1].2;
        for k in 0..n_if {
            // (an interface that vanishes while it is disabled altogether is not judged: the daemon
            // was not using it, and what it had learned there earlier is kept until it expires)
            let was = prev.present().iter().any(|x| x.0 == k) && prev.active().iter().any(|x| x.0 == k);
            let is = h.2.present().iter().any(|x| x.0 == k);
            if was && !is {
                // was its instance reported found (and not removed) at that point?
                let mut f = false;
                for e in d.log[..h.0].iter() {
                    match &e.ev {
                        Ev::Svc { ev: ServiceEvent::ServiceFound(_, n), .. } if n.starts_with(&format!("p{k}.")) => f = true,
                        Ev::Svc { ev: ServiceEvent::ServiceRemoved(_, n), .. } if n.starts_with(&format!("p{k}.")) => f = false,
                        _ => {}
                    }
                }
                if !f {
                    continue;
                }
                vanish_checked += 1;
                let deadline = h.1 + GRACE_MS + 50;
                let removed = d.log[h.0..].iter().any(|e| e.t <= deadline && matches!(&e.ev, Ev::Svc { ev: ServiceEvent::ServiceRemoved(_, n), .. } if n.starts_with(&format!("p{k}."))));
                if !removed && deadline < final_time {
                    fail!(
                        "C18/instance-of-vanished-interface-not-removed",
                        "{} disappeared at +{} ms; its instance p{k} had been reported found, but no ServiceRemoved came by +{} ms",
                        if_name(k),
                        h.1 - T0,
                        deadline - T0
                    );
                }
            }
        }
    }
    // ---- (E) the multi-homed instance: when an interface other than the one its PTR / SRV / TXT were
    //          first learned on disappears, it is resolved again with the addresses that are left.
    //          Judged for the first disappearance after the instance was heard on two interfaces
    //          that have both been active without interruption since the first announcement.
    let mut multi_checked = 0u32;
    if let Some((first_pos, _, home, _)) = multi_on.first().cloned() {
        'e: for (hi, h) in hist.iter().enumerate() {
            if hi == 0 || h.0 <= first_pos {
                continue;
            }
            let prev = &hist[hi - 1].2;
            for k in 0..n_if {
                let was = prev.present().iter().any(|x| x.0 == k);
                let is = h.2.present().iter().any(|x| x.0 == k);
                if !(was && !is) || k == home {
                    continue;
                }
                let heard_on_k: Vec<&(usize, u64, usize, bool)> = multi_on.iter().filter(|m| m.2 == k && m.0 < h.0).collect();
                if heard_on_k.is_empty() {
                    continue;
                }
                // nothing else happened to the two interfaces in between
                let states: Vec<&ModelState> = std::iter::once(&state_at(first_pos).2).chain(hist.iter().filter(|hh| hh.0 > first_pos && hh.0 < h.0).map(|hh| &hh.2)).collect();
                let fams = |kk: usize| -> BTreeSet<(usize, bool)> { states[0].active().into_iter().filter(|x| x.0 == kk).collect() };
                let (fh, fk) = (fams(home), fams(k));
                let quiet = !fh.is_empty() && !fk.is_empty() && states.iter().all(|s| fh.iter().chain(fk.iter()).all(|x| s.active().contains(x)) && s.table.iter().filter(|e| e.k == home || e.k == k).eq(states[0].table.iter().filter(|e| e.k == home || e.k == k)));
                let home_stays = fh.iter().all(|x| h.2.active().contains(x));
                // it was resolved with an address learned on k
                let had_k_address = d.log[..h.0].iter().any(|e| matches!(&e.ev, Ev::Svc { ev: ServiceEvent::ServiceResolved(r), .. } if r.fullname.starts_with("m.") && r.addresses.iter().any(|a| subnet_of(&a.to_ip_addr()) == Some(k))));
                if !quiet || !home_stays || !had_k_address {
                    break 'e;
                }
                multi_checked += 1;
                let deadline = h.1 + GRACE_MS + 50;
                if deadline >= final_time {
                    break 'e;
                }
                let again = d.log[h.0..].iter().any(|e| {
                    e.t <= deadline
                        && matches!(&e.ev, Ev::Svc { ev: ServiceEvent::ServiceResolved(r), .. } if r.fullname.starts_with("m.") && !r.addresses.is_empty() && r.addresses.iter().all(|a| subnet_of(&a.to_ip_addr()) != Some(k)))
                });
                if !again {
                    fail!(
                        "C18/instance-not-resolved-again-with-what-is-left",
                        "{} disappeared at +{} ms; the instance m (first heard on {}, also heard on {}) had been resolved with an address learned on {}, but no ServiceResolved without that address came by +{} ms",
                        if_name(k),
                        h.1 - T0,
                        if_name(home),
                        if_name(k),
                        if_name(k),
                        deadline - T0
                    );
                }
                break 'e;
            }
        }
    }
    ctx.class_if(multi_checked > 0, "multi-homed-instance-lost-an-interface");
    let n_sel = case.ops.iter().filter(|o| matches!(o, Op::Select { .. })).count();
    let n_tab = hist.iter().filter(|h| h.3 > h.1).count();
    ctx.class_if(n_sel > 0, "selections");
    ctx.class_if(n_sel >= 2, "overlapping-selections");
    ctx.class_if(n_tab > 0, "interface-table-changed");
    ctx.class_if(n_sel > 0 && n_tab > 0, "selections-and-table-changes");
    ctx.class_if(case.auto, "automatic-addressing");
    ctx.class_if(svc_packets > 0, "service-packets-judged");
    ctx.class_if(stale_checked > 0, "resolved-addresses-judged");
    ctx.class_if(vanish_checked > 0, "vanished-interface-with-found-instance");
    ctx.class_if(!expected_where.is_empty() && expected_where.len() < final_state.present().len(), "service-on-a-subset-of-the-interfaces");
    ctx.class(&format!("interfaces:{n_if}"));
    ctx.count("packets_judged", packets_judged);
    ctx.count("announcements_not_delivered", skipped_announce as u64);
    if n_sel + n_tab > 0 {
        ctx.nontrivial(format!("i{} s{} t{} a{} e{} v{}", n_if, n_sel.min(4), n_tab.min(4), case.auto, expected_where.len(), vanish_checked.min(2)));
    }
    if ctx.want_sample {
        ctx.sample = Some(json!({
            "ifs": format!("{:?}", case.ifs), "ops": format!("{:?}", case.ops).chars().take(600).collect::<String>(),
            "answered_on_at_the_end": format!("{answered_where:?}"), "packets_judged": packets_judged,
        }));
    }
    }
    w.finish();
}

pub fn strategy() -> BoxedStrategy<Case> {
    let sel = prop_oneof![
        2 => Just(Sel::All),
        1 => Just(Sel::V4),
        1 => Just(Sel::V6),
        3 => (0usize..3).prop_map(Sel::Name),
        2 => (0usize..3, any::<bool>()).prop_map(|(k, v6)| Sel::Addr(k, v6)),
        1 => (0usize..3).prop_map(Sel::IndexV4),
        1 => (0usize..3).prop_map(Sel::IndexV6),
    ];
    let table = prop_oneof![
        2 => (0usize..3, any::<bool>()).prop_map(|(k, v6)| TableOp::AddFam { k, v6 }),
        2 => (0usize..3, any::<bool>()).prop_map(|(k, v6)| TableOp::DelFam { k, v6 }),
        2 => (0usize..3).prop_map(|k| TableOp::Down { k }),
        2 => (0usize..3).prop_map(|k| TableOp::Up { k }),
        1 => (0usize..3).prop_map(|k| TableOp::Move { k }),
        1 => (0usize..3).prop_map(|k| TableOp::Reprefix { k }),
    ];
    let op = prop_oneof![
        5 => (any::<bool>(), sel).prop_map(|(enable, sel)| Op::Select { enable, sel }),
        4 => table.prop_map(Op::Table),
        2 => Just(Op::Register),
        1 => Just(Op::Unregister),
        4 => (0usize..3, any::<bool>()).prop_map(|(k, v6)| Op::Announce { k, v6 }),
        2 => (0usize..3, any::<bool>()).prop_map(|(k, v6)| Op::Query { k, v6 }),
        2 => (0usize..3, any::<bool>()).prop_map(|(k, v6)| Op::AnnounceMulti { k, v6 }),
        2 => Just(Op::BrowseAgain),
        3 => prop_oneof![Just(0u64), Just(500), Just(1200), 0u64..3000].prop_map(|ms| Op::Advance { ms }),
    ];
    (iftable(3), prop::bool::weighted(0.4), prop::collection::vec(any::<bool>(), 3), prop::bool::weighted(0.85), prop::bool::weighted(0.4), prop::bool::weighted(0.7), (prop::collection::vec(op, 1..10), prop::option::weighted(0.15, (any::<bool>(), any::<bool>()))))
        .prop_map(|(ifs, auto, on, svc_v4, svc_v6, early, (mut ops, multi))| {
            // some histories begin with the multi-homed peer heard on two interfaces, one of which
            // then goes away
            if let (Some((second_goes, by_down)), true) = (multi, ifs.len() >= 2) {
                let fam = |k: usize| !ifs[k].v4;
                let gone = if second_goes { 1 } else { 0 };
                let home = 1 - gone;
                ops.insert(0, Op::AnnounceMulti { k: home, v6: fam(home) });
                ops.insert(1, Op::AnnounceMulti { k: gone, v6: fam(gone) });
                ops.insert(2, Op::Advance { ms: 200 });
                if by_down {
                    ops.insert(3, Op::Table(TableOp::Down { k: gone }));
                } else {
                    ops.insert(3, Op::Table(TableOp::DelFam { k: gone, v6: false }));
                    ops.insert(4, Op::Table(TableOp::DelFam { k: gone, v6: true }));
                }
            }
            if early {
                ops.insert(0, Op::Register);
                ops.insert(1, Op::Advance { ms: 2500 });
            }
            Case {
                ifs,
                auto,
                on,
                svc_v4: svc_v4 || !svc_v6,
                svc_v6,
                ops,
            }
        })
        .boxed()
}

pub fn run(tier: Tier) -> i32 {
    let mut agg = Agg::new("C18", tier);
    agg.assume("simulation: the interface table is the hook's (set_interfaces), the daemon polls it every second; packets in the 1100 ms after a change of the table are not judged (the daemon cannot know yet); enable/disable calls count from the call on");
    agg.assume("an interface that vanishes while every family of it is disabled is not judged for the removal of what had been learned on it before; a service with explicit addresses is demanded to be answered for only on links that have been active since its registration (only automatic addressing is promised to follow addresses)");
    agg.assume("the simulated network delivers a peer's packet only on an interface / family on which the daemon is active according to the model (elsewhere it has left the multicast group); each interface has a peer instance of its own, and one multi-homed instance (upper-case host name) announces itself on every interface with the address it has there; it is judged for being resolved again after losing an interface only in histories where nothing else happened to the two interfaces involved; Predicate and loopback selections are not generated");
    run_regressions::<Case>(&mut agg, "interfaces", &check);
    run_part(
        &mut agg,
        &Part {
            name: "interfaces",
            rule: "1-3 interfaces with IPv4 and/or IPv6 on different subnets; a service with explicit addresses in a generated subset of the subnets (IPv4/IPv6) or automatic addressing; 1-9 operations: enable/disable selections of 7 kinds (all, family, name, address, index per family), interface events (family added / removed, interface down / up, address moved, prefix length changed), register / unregister, peers announcing an instance per interface, a multi-homed peer announcing on several, queries, pauses; at the end a PTR query on every active interface / family; non-trivial = a selection or an interface event took place",
            cases: scale(tier.pick(25_000, 600_000)),
            max_shrink_iters: 500,
            strategy: &strategy,
            check: &check,
        },
    );
    agg.require_class("interfaces:selections-and-table-changes", 3_000);
    agg.require_class("interfaces:overlapping-selections", 5_000);
    agg.require_class("interfaces:vanished-interface-with-found-instance", 500);
    agg.require_class("interfaces:resolved-addresses-judged", 3_000);
    agg.require_class("interfaces:service-on-a-subset-of-the-interfaces", 3_000);
    agg.require_class("interfaces:multi-homed-instance-lost-an-interface", 400);
    agg.finish()
}

pub fn replay(file: &std::path::Path) -> i32 {
    if let Some(c) = replay_part::<Case>("C18", "interfaces", file, 3, &check) {
        return c;
    }
    eprintln!("harness error: replay file does not belong to C18");
    2
}
