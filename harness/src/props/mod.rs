use crate::runner::Tier;
use std::path::Path;

pub mod c01;
pub mod browser;
pub mod c02;
pub mod c03;
pub mod c04;
pub mod c05;
pub mod c05b;
pub mod c06;
pub mod responder;
pub mod c07;
pub mod c08;
pub mod c09;
pub mod c10;
pub mod c11;
pub mod c12;
pub mod c13;
pub mod c14;
pub mod c15;
pub mod c16;
pub mod c17;
pub mod c18;
pub mod c19;
pub mod c20;
pub mod smoke;

pub fn run(id: &str, tier: Tier) -> i32 {
    match id {
        "C01" => c01::run(tier),
        "C02" => c02::run(tier),
        "C03" => c03::run(tier),
        "C04" => c04::run(tier),
        "C05" => c05::run(tier),
        "C06" => c06::run(tier),
        "C07" => c07::run(tier),
        "C08" => c08::run(tier),
        "C09" => c09::run(tier),
        "C10" => c10::run(tier),
        "C11" => c11::run(tier),
        "C12" => c12::run(tier),
        "C13" => c13::run(tier),
        "C14" => c14::run(tier),
        "C15" => c15::run(tier),
        "C16" => c16::run(tier),
        "C17" => c17::run(tier),
        "C18" => c18::run(tier),
        "C19" => c19::run(tier),
        "C20" => c20::run(tier),
        "SMOKE" => smoke::run(),
        "SMOKE2" => smoke::run_two_browses(&std::env::var("VARIANT").unwrap_or_default()),
        _ => {
            eprintln!("harness error: no check for {id}");
            2
        }
    }
}

pub fn replay(id: &str, file: &Path) -> i32 {
    match id {
        "C01" => c01::replay(file),
        "C02" => c02::replay(file),
        "C03" => c03::replay_file(file),
        "C04" => c04::replay_file(file),
        "C05" => c05::replay_file(file),
        "C06" => c06::replay(file),
        "C07" => c07::replay(file),
        "C08" => c08::replay(file),
        "C09" => c09::replay(file),
        "C10" => c10::replay(file),
        "C11" => c11::replay_file(file),
        "C12" => c12::replay(file),
        "C13" => c13::replay(file),
        "C14" => c14::replay(file),
        "C15" => c15::replay(file),
        "C16" => c16::replay(file),
        "C17" => c17::replay_file(file),
        "C18" => c18::replay(file),
        "C19" => c19::replay(file),
        "C20" => c20::replay(file),
        _ => {
            eprintln!("harness error: no check for {id}");
            2
        }
    }
}
