//! C05, part "two-listeners": one instance reported to two browses at once - its base type and a
//! subtype of it (the instance's announcement carries both PTR records). Both listeners are owed the
//! same departures.
//!
//! Oracle: (a) differential between the two listeners - both PTR records always arrive together with
//! one TTL, so every cause of removal is common to both: in every scheduling step either every open
//! listener that had the instance resolved gets ServiceRemoved, or none does (TTLs are at least 2 s: a
//! record with TTL 1 is not stored as new); (b) an expiry model of
//! the four record classes (PTR pair, SRV, TXT is not a cause, addresses) computed from the scripted
//! deliveries: a removal is never delivered while every class has more than a second left, and when
//! a class has run out, every open listener that had the instance resolved has its ServiceRemoved
//! by the end of the step forced one millisecond after that moment (or of the one after it).

use crate::gen::*;
use crate::props::c13;
use crate::runner::*;
use crate::sim::*;
use mdns_sd::ServiceEvent;
use proptest::prelude::*;
use serde::{Deserialize, Serialize};
use serde_json::json;
use std::net::{IpAddr, SocketAddr};

#[derive(Clone, Debug, Serialize, Deserialize)]
pub enum Op2 {
    /// the full announcement: both PTRs, SRV, TXT, address
    Announce { host_ttl: u32, other_ttl: u32 },
    /// 0: every record with TTL 0; 1: the SRV record only; 2: both PTR records only
    Goodbye { which: u8 },
    Advance { ms: u64 },
    /// stop_browse of the subtype (true) or of the base type (false)
    Stop { sub: bool },
}

#[derive(Clone, Debug, Serialize, Deserialize)]
pub struct Case2 {
    pub ops: Vec<Op2>,
    pub tail_ms: u64,
}

const BASE: &str = c13::TYPES[0];
const SUB: &str = c13::TYPES[3];

#[derive(Clone, Copy, Default, Debug)]
struct Model {
    ptr: Option<u64>,
    srv: Option<u64>,
    addr: Option<u64>,
}

impl Model {
    fn classes(&self) -> [(&'static str, Option<u64>); 3] {
        [("ptr-expired", self.ptr), ("srv-expired", self.srv), ("last-address-expired", self.addr)]
    }
    /// a record that arrives: its class lives until `t + ttl` (TTL 0: one more second; a goodbye
    /// for something that is not cached is not stored)
    fn feed(slot: &mut Option<u64>, t: u64, ttl: u32) {
        if ttl == 0 {
            if slot.is_some_and(|e| e > t) {
                *slot = Some(t + 1000);
            }
        } else {
            *slot = Some(t + ttl as u64 * 1000);
        }
    }
}

pub fn check(case: &Case2, ctx: &mut CaseCtx) {
    let ifs = vec![IfSpec { v4: true, v6: false }];
    let mut d = match SimDaemon::new("D", sim_ifs(&ifs), T0, 5) {
        Ok(d) => d,
        Err(e) => {
            ctx.violation("C05/harness/spawn", e);
            return;
        }
    };
    let _ = d.d.set_ip_check_interval(1_000_000);
    d.dirty = true;
    let mut w = World::new(T0);
    let di = w.add(d);
    w.settle();
    let chan_base = w.daemons[di].browse(BASE).ok();
    let chan_sub = w.daemons[di].browse(SUB).ok();
    let (Some(chan_base), Some(chan_sub)) = (chan_base, chan_sub) else {
        ctx.violation("C05/harness/browse", "browse() failed");
        w.finish();
        return;
    };
    w.settle();
    let s = c13::svc(3, 0);
    let full = s.fullname();
    let src = SocketAddr::new(IpAddr::V4(subnet_v4(0, 100)), MDNS_PORT);
    // (log position, model after the op) - the model is a step function of the log position
    let mut models: Vec<(usize, Model)> = vec![(0, Model::default())];
    let mut m = Model::default();
    let mut stops: Vec<(usize, bool)> = Vec::new();
    let force = |w: &mut World, m: &Model| {
        for (_, e) in m.classes() {
            if let Some(e) = e {
                w.daemons[di].forced.insert(e + 1);
                w.daemons[di].forced.insert(e + 2);
            }
        }
    };
    for op in &case.ops {
        w.settle();
        let now = w.now;
        let dm = &mut w.daemons[di];
        dm.set_now(now);
        let pos = dm.log.len();
        match op {
            Op2::Announce { host_ttl, other_ttl } => {
                let recs = s.announcement(*host_ttl, *other_ttl);
                dm.inject(if_index(0), src, peer::response(recs, vec![]));
                Model::feed(&mut m.ptr, now, *other_ttl);
                Model::feed(&mut m.srv, now, *host_ttl);
                Model::feed(&mut m.addr, now, *host_ttl);
            }
            Op2::Goodbye { which } => {
                let mut recs = s.announcement(0, 0);
                match which % 3 {
                    1 => recs.retain(|r| r.rtype == crate::refdns::T_SRV),
                    2 => recs.retain(|r| r.rtype == crate::refdns::T_PTR),
                    _ => {}
                }
                dm.inject(if_index(0), src, peer::response(recs, vec![]));
                if which % 3 != 1 {
                    Model::feed(&mut m.ptr, now, 0);
                }
                if which % 3 != 2 {
                    Model::feed(&mut m.srv, now, 0);
                }
                if which % 3 == 0 {
                    Model::feed(&mut m.addr, now, 0);
                }
            }
            Op2::Advance { ms } => {
                w.advance(*ms);
            }
            Op2::Stop { sub } => {
                if !stops.iter().any(|(_, s2)| s2 == sub) && dm.stop_browse(if *sub { SUB } else { BASE }).is_ok() {
                    stops.push((pos, *sub));
                }
            }
        }
        models.push((pos, m));
        force(&mut w, &m);
        w.settle();
    }
    w.advance(case.tail_ms);
    ctx.count("sim_steps", w.total_steps);
    if w.budget_exhausted || !w.daemons[di].alive() {
        ctx.violation("C05/two-listeners/daemon-died-or-ran-away", render_log(&w.daemons[di].log, true, 60));
        w.finish();
        return;
    }

    // ---- judge
    let log = &w.daemons[di].log;
    let model_at = |pos: usize| models.iter().rev().find(|(p, _)| *p <= pos).map(|(_, m)| *m).unwrap_or_default();
    // per listener: [base, sub]
    let chans = [chan_base, chan_sub];
    let mut reported = [false, false];
    let mut resolved = [false, false];
    let mut resolved_at_step_start = [false, false];
    let mut removed_in_step = [false, false];
    let mut due_steps = [0u32, 0u32];
    let mut open = [true, true];
    let mut violation: Option<(String, String)> = None;
    let mut removals = 0u64;
    let mut both_removed = 0u64;
    let mut causes: Vec<&'static str> = Vec::new();
    let mut step_start = 0usize;
    for (pos, e) in log.iter().enumerate() {
        if violation.is_some() {
            break;
        }
        for (p, sub) in &stops {
            if *p == pos {
                open[*sub as usize] = false;
                reported[*sub as usize] = false;
                resolved[*sub as usize] = false;
            }
        }
        match &e.ev {
            Ev::Svc { chan, ev } => {
                let Some(c) = chans.iter().position(|x| x == chan) else { continue };
                match ev {
                    ServiceEvent::ServiceFound(..) => reported[c] = true,
                    ServiceEvent::ServiceResolved(..) => {
                        reported[c] = true;
                        resolved[c] = true;
                    }
                    ServiceEvent::ServiceRemoved(_, n) if *n == full.to_plain() => {
                        let mm = model_at(step_start);
                        if reported[c] {
                            removals += 1;
                            let early = mm.classes().iter().all(|(_, x)| x.is_some_and(|x| x > e.t + 1000));
                            // (records that arrived in this very step may have shortened a life: the
                            // model of the step's start and of its end both have to call it early)
                            let mm2 = model_at(pos);
                            let early2 = mm2.classes().iter().all(|(_, x)| x.is_some_and(|x| x > e.t + 1000));
                            if early && early2 {
                                violation = Some((
                                    "C05/two-listeners/removed-early".into(),
                                    format!("ServiceRemoved on browse#{chan} at +{} ms although PTR, SRV and address all have more than a second left ({mm:?})", e.t - T0),
                                ));
                            }
                            for (name, x) in mm2.classes() {
                                if x.is_some_and(|x| x <= e.t) {
                                    causes.push(name);
                                }
                            }
                        }
                        reported[c] = false;
                        resolved[c] = false;
                        removed_in_step[c] = true;
                    }
                    _ => {}
                }
            }
            Ev::Step { .. } => {
                // end of a scheduling step: the events above belong to it
                let any_removed = (0..2).any(|c| removed_in_step[c] && resolved_at_step_start[c]);
                if any_removed {
                    for c in 0..2 {
                        if open[c] && resolved_at_step_start[c] && !removed_in_step[c] {
                            violation = Some((
                                format!("C05/two-listeners/removal-reached-one-listener-only/{}", if c == 1 { "subtype-missed" } else { "base-type-missed" }),
                                format!(
                                    "in the step at +{} ms the other listener got ServiceRemoved({}), browse#{} (open, instance reported) did not",
                                    e.t - T0,
                                    full.to_escaped(),
                                    chans[c]
                                ),
                            ));
                        }
                    }
                    if (0..2).all(|c| removed_in_step[c]) {
                        both_removed += 1;
                    }
                }
                // on time, against the model
                let mm = model_at(pos);
                // (the loss of the last address is not demanded separately while the PTR or the SRV
                // record is in its own final second: the instance is about to go for that cause)
                let addr_counts = match (mm.ptr, mm.srv, mm.addr) {
                    (Some(p), Some(s), Some(a)) => p > a + 1000 && s > a + 1000,
                    _ => false,
                };
                let gone = mm
                    .classes()
                    .iter()
                    .find(|(n, x)| x.is_some_and(|x| x < e.t) && (*n != "last-address-expired" || addr_counts))
                    .map(|(n, _)| *n);
                for c in 0..2 {
                    if open[c] && resolved[c] && gone.is_some() {
                        due_steps[c] += 1;
                        if due_steps[c] >= 2 && violation.is_none() {
                            violation = Some((
                                format!("C05/two-listeners/removal-missing-or-late/{}", gone.unwrap()),
                                format!("browse#{} has the instance reported at +{} ms although it is gone ({}; {mm:?}) since at least one full step", chans[c], e.t - T0, gone.unwrap()),
                            ));
                        }
                    } else {
                        due_steps[c] = 0;
                    }
                }
                resolved_at_step_start = resolved;
                removed_in_step = [false, false];
                step_start = pos;
            }
            _ => {}
        }
    }
    if let Some((sig, detail)) = violation {
        ctx.violation(sig, format!("{detail}\nops: {:?}\n--- history ---\n{}", case.ops, render_log(log, true, 70)));
        w.finish();
        return;
    }
    causes.sort();
    causes.dedup();
    for c in &causes {
        ctx.class(&format!("removal-cause:{c}"));
    }
    ctx.count("removals_judged", removals);
    ctx.class_if(both_removed > 0, "both-listeners-removed-in-one-step");
    ctx.class_if(!stops.is_empty() && removals > 0, "removal-after-a-stop-of-the-other-or-same");
    if both_removed > 0 && causes.iter().any(|c| *c != "ptr-expired") {
        ctx.nontrivial(format!("causes{causes:?} stops{} both{}", stops.len(), both_removed.min(3)));
    }
    if ctx.want_sample {
        ctx.sample = Some(json!({
            "ops": format!("{:?}", case.ops).chars().take(600).collect::<String>(),
            "removal_causes": causes,
            "history_tail": render_log(log, true, 8).lines().map(|l| l.chars().take(200).collect::<String>()).collect::<Vec<_>>(),
        }));
    }
    w.finish();
}

pub fn strategy() -> BoxedStrategy<Case2> {
    let host_ttl = prop_oneof![Just(2u32), Just(5), Just(10), Just(120), 2u32..200];
    let other_ttl = prop_oneof![Just(3u32), Just(10), Just(60), Just(4500), 2u32..5000];
    let op = prop_oneof![
        5 => (host_ttl, other_ttl).prop_map(|(host_ttl, other_ttl)| Op2::Announce { host_ttl, other_ttl }),
        2 => (0u8..3).prop_map(|which| Op2::Goodbye { which }),
        8 => prop_oneof![Just(0u64), Just(999), Just(1000), Just(1001), Just(2000), Just(5000), Just(10_000), Just(120_000), Just(121_000), Just(4_500_000), 0u64..12_000, 0u64..300_000].prop_map(|ms| Op2::Advance { ms }),
        1 => any::<bool>().prop_map(|sub| Op2::Stop { sub }),
    ];
    (proptest::collection::vec(op, 2..14), prop_oneof![Just(3_000u64), Just(130_000), Just(4_600_000)])
        .prop_map(|(mut ops, tail_ms)| {
            if !matches!(ops[0], Op2::Announce { .. }) {
                ops.insert(0, Op2::Announce { host_ttl: 120, other_ttl: 4500 });
            }
            Case2 { ops, tail_ms }
        })
        .boxed()
}
