//! Engine smoke test: prints the history of a two-daemon scenario.
use crate::sim::*;
use mdns_sd::verif::SimIf;
use mdns_sd::ServiceInfo;

pub fn run() -> i32 {
    let t = std::time::Instant::now();
    let mut w = World::new(T0);
    let a_if = vec![SimIf::new("eth0", 2, "192.168.1.10".parse().unwrap(), 24)];
    let b_if = vec![SimIf::new("eth0", 2, "192.168.1.20".parse().unwrap(), 24)];
    let mut a = SimDaemon::new("A", a_if, T0, 1).unwrap();
    let mut b = SimDaemon::new("B", b_if, T0, 2).unwrap();
    a.h.set_jitter_default(Some(100));
    a.monitor().unwrap();
    let info = ServiceInfo::new("_http._tcp.local.", "My.Web", "hosta.local.", "192.168.1.10", 8080, &[("k", "v")][..]).unwrap();
    a.register(info).unwrap();
    b.browse("_http._tcp.local.").unwrap();
    let ia = w.add(a);
    let ib = w.add(b);
    w.links.push(Link { ends: vec![(ia, 2), (ib, 2)] });
    w.advance(10_000);
    w.daemons[ia].unregister("my\\.web._http._tcp.local.").unwrap();
    w.advance(3_000);
    for d in &w.daemons {
        println!("===== daemon {} ({} steps)", d.label, d.steps);
        println!("{}", render_log(&d.log, false, 400));
    }
    println!("total steps {} in {:?}", w.total_steps, t.elapsed());
    w.finish();
    // throughput
    let t = std::time::Instant::now();
    for i in 0..200 {
        let d = SimDaemon::new("X", vec![SimIf::new("eth0", 2, "10.0.0.1".parse().unwrap(), 8)], T0, i).unwrap();
        d.finish();
    }
    println!("200 create+finish in {:?}", t.elapsed());
    0
}

/// Exploration: one instance reported to two browses at once (base type and a subtype of it).
pub fn run_two_browses(variant: &str) -> i32 {
    let mut w = World::new(T0);
    let a_if = vec![SimIf::new("eth0", 2, "192.168.1.10".parse().unwrap(), 24)];
    let b_if = vec![SimIf::new("eth0", 2, "192.168.1.20".parse().unwrap(), 24)];
    let mut a = SimDaemon::new("A", a_if, T0, 1).unwrap();
    let mut b = SimDaemon::new("B", b_if, T0, 2).unwrap();
    let _ = a.d.set_ip_check_interval(1_000_000);
    let _ = b.d.set_ip_check_interval(1_000_000);
    let info = ServiceInfo::new("_printer._sub._http._tcp.local.", "web", "hosta.local.", "192.168.1.10", 8080, &[("k", "v")][..]).unwrap();
    a.register(info).unwrap();
    b.browse("_http._tcp.local.").unwrap();
    b.browse("_printer._sub._http._tcp.local.").unwrap();
    let ia = w.add(a);
    let ib = w.add(b);
    w.links.push(Link { ends: vec![(ia, 2), (ib, 2)] });
    w.advance(10_000);
    match variant {
        "goodbye" => {
            w.daemons[ia].unregister("web._http._tcp.local.").unwrap();
            w.advance(3_000);
        }
        "expire" => {
            w.links.clear();
            w.advance(5_000_000);
        }
        "stop-sub-then-goodbye" => {
            w.daemons[ib].stop_browse("_printer._sub._http._tcp.local.").unwrap();
            w.advance(2_000);
            w.daemons[ia].unregister("web._http._tcp.local.").unwrap();
            w.advance(3_000);
        }
        "stop-base-then-goodbye" => {
            w.daemons[ib].stop_browse("_http._tcp.local.").unwrap();
            w.advance(2_000);
            w.daemons[ia].unregister("web._http._tcp.local.").unwrap();
            w.advance(3_000);
        }
        "stop-sub-then-expire" => {
            w.daemons[ib].stop_browse("_printer._sub._http._tcp.local.").unwrap();
            w.advance(2_000);
            w.links.clear();
            w.advance(5_000_000);
        }
        "stop-base-then-expire" => {
            w.daemons[ib].stop_browse("_http._tcp.local.").unwrap();
            w.advance(2_000);
            w.links.clear();
            w.advance(5_000_000);
        }
        _ => {}
    }
    let d = &w.daemons[ib];
    println!("===== daemon {} ({} steps) variant {variant}", d.label, d.steps);
    for l in render_log(&d.log, true, 4000).lines() {
        if l.contains("EVENT") || l.contains("API") || l.contains("api") {
            println!("{}", l.chars().take(220).collect::<String>());
        }
    }
    w.finish();
    0
}
