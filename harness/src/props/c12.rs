//! C12 - the daemon wakes itself for all time-driven work and never spins (E3, metamorphic).

use crate::gen::*;
use crate::props::c13::{svc, HOSTNAMES};
use crate::refdns::*;
use crate::runner::*;
use crate::sim::{peer, *};
use mdns_sd::{DaemonEvent, HostnameResolutionEvent, ServiceEvent, ServiceInfo};
use proptest::prelude::*;
use serde::{Deserialize, Serialize};
use serde_json::json;
use std::collections::BTreeMap;
use std::net::{IpAddr, SocketAddr};

#[derive(Clone, Debug, Serialize, Deserialize)]
pub enum Op {
    Register { i: usize },
    Unregister { i: usize },
    Browse { ty: usize },
    StopBrowse { ty: usize },
    Resolve { host: usize, timeout_ms: Option<u64> },
    StopResolve { host: usize },
    Verify { ty: usize, inst: usize, timeout_ms: u64 },
    Announce { ty: usize, inst: usize, ttl: u32 },
    Goodbye { ty: usize, inst: usize },
    HostAddr { host: usize, ttl: u32 },
    /// a response claiming the instance name of registration i with other data
    Conflict { i: usize },
    /// a simultaneous probe for registration i's instance name; `we_lose`: its data is later
    ProbeTie { i: usize, we_lose: bool },
    SetIpCheck { secs: u32 },
    Advance { ms: u64 },
    /// a service with automatic addressing (it follows the interfaces)
    RegisterAuto { i: usize },
    /// one more interface shows up in the table (the periodic check finds it)
    NewInterface,
}

#[derive(Clone, Debug, Serialize, Deserialize)]
pub struct Case {
    pub ifs: Vec<IfSpec>,
    pub jitter: u64,
    pub ops: Vec<Op>,
    pub tail_ms: u64,
    /// extra idle wake-ups every X ms in the second run
    pub chatty_ms: u64,
}

fn src_for(ifs: &[IfSpec], k: usize, h: u8) -> SocketAddr {
    if ifs[k].v4 {
        SocketAddr::new(IpAddr::V4(subnet_v4(k, h)), MDNS_PORT)
    } else {
        SocketAddr::new(IpAddr::V6(subnet_v6(k, h as u16)), MDNS_PORT)
    }
}

fn reg_name(i: usize) -> String {
    format!("reg{i}._http._tcp.local.")
}

pub fn execute(case: &Case, chatty: Option<u64>, seed: u64) -> Result<World, String> {
    let mut d = SimDaemon::new("D", sim_ifs(&case.ifs), T0, seed)?;
    d.h.set_jitter_default(Some(case.jitter));
    let _ = d.monitor();
    d.set_chatty(chatty);
    let mut w = World::new(T0);
    w.step_budget = 300_000;
    let di = w.add(d);
    for op in &case.ops {
        w.settle();
        let now = w.now;
        let dm = &mut w.daemons[di];
        dm.set_now(now);
        match op {
            Op::Register { i } => {
                let a = if case.ifs[0].v4 {
                    IpAddr::V4(subnet_v4(0, 70 + *i as u8))
                } else {
                    IpAddr::V6(subnet_v6(0, 70 + *i as u16))
                };
                if let Ok(info) = ServiceInfo::new("_http._tcp.local.", &format!("reg{i}"), &format!("reghost{i}.local."), a.to_string().as_str(), 2000 + *i as u16, None) {
                    let _ = dm.register(info);
                }
            }
            Op::Unregister { i } => {
                let _ = dm.unregister(&reg_name(*i));
            }
            Op::RegisterAuto { i } => {
                if let Ok(info) = ServiceInfo::new("_http._tcp.local.", &format!("auto{i}"), &format!("autohost{i}.local."), "", 2100 + *i as u16, None) {
                    let _ = dm.register(info.enable_addr_auto());
                }
            }
            Op::NewInterface => {
                let mut ifs = case.ifs.clone();
                ifs.push(IfSpec { v4: true, v6: false });
                dm.set_interfaces(sim_ifs(&ifs));
                dm.api("a further interface appears".to_string());
            }
            Op::Browse { ty } => {
                let _ = dm.browse(TYPES[*ty % TYPES.len()]);
            }
            Op::StopBrowse { ty } => {
                let _ = dm.stop_browse(TYPES[*ty % TYPES.len()]);
            }
            Op::Resolve { host, timeout_ms } => {
                let _ = dm.resolve_hostname(HOSTNAMES[*host % HOSTNAMES.len()], *timeout_ms);
            }
            Op::StopResolve { host } => {
                let _ = dm.stop_resolve_hostname(HOSTNAMES[*host % HOSTNAMES.len()]);
            }
            Op::Verify { ty, inst, timeout_ms } => {
                let s = svc(*ty, *inst);
                let _ = dm.verify(&s.fullname().to_plain(), *timeout_ms);
            }
            Op::Announce { ty, inst, ttl } => {
                let s = svc(*ty, *inst);
                let bytes = peer::response(s.announcement((*ttl).max(2), (*ttl).max(2)), vec![]);
                dm.inject(if_index(0), src_for(&case.ifs, 0, 100 + *inst as u8), bytes);
            }
            Op::Goodbye { ty, inst } => {
                let s = svc(*ty, *inst);
                let bytes = peer::response(s.announcement(0, 0), vec![]);
                dm.inject(if_index(0), src_for(&case.ifs, 0, 100 + *inst as u8), bytes);
            }
            Op::HostAddr { host, ttl } => {
                let name = Name::from_escaped(HOSTNAMES[*host % HOSTNAMES.len()]);
                let a = if case.ifs[0].v4 {
                    IpAddr::V4(subnet_v4(0, 150 + *host as u8))
                } else {
                    IpAddr::V6(subnet_v6(0, 150 + *host as u16))
                };
                dm.inject(if_index(0), src_for(&case.ifs, 0, 150 + *host as u8), peer::response(vec![peer::addr_rec(&name, a, *ttl, true)], vec![]));
            }
            Op::Conflict { i } => {
                let rec = Record {
                    name: Name::from_escaped(&reg_name(*i)),
                    rtype: T_SRV,
                    class: 1 | FLUSH,
                    ttl: 120,
                    rdata: RData::Srv {
                        priority: 0,
                        weight: 0,
                        port: 9,
                        target: Name::from_escaped("somebody-else.local."),
                    },
                };
                dm.inject(if_index(0), src_for(&case.ifs, 0, 99), peer::response(vec![rec], vec![]));
            }
            Op::ProbeTie { i, we_lose } => {
                let name = Name::from_escaped(&reg_name(*i));
                let rec = Record {
                    name: name.clone(),
                    rtype: T_SRV,
                    class: 1,
                    ttl: 120,
                    rdata: RData::Srv {
                        priority: if *we_lose { 65535 } else { 0 },
                        weight: 0,
                        port: if *we_lose { 65535 } else { 0 },
                        target: Name::from_escaped(if *we_lose { "zzzz.local." } else { "a.local." }),
                    },
                };
                // for the host name too, so that both of our probes are treated alike
                dm.inject(if_index(0), src_for(&case.ifs, 0, 98), peer::query(0, vec![peer::q(&name, T_ANY)], vec![], vec![rec]));
            }
            Op::SetIpCheck { secs } => {
                let _ = dm.d.set_ip_check_interval(*secs);
                dm.api(format!("set_ip_check_interval({secs})"));
            }
            Op::Advance { ms } => w.advance(*ms),
        }
        w.settle();
        if w.budget_exhausted {
            break;
        }
    }
    if !w.budget_exhausted {
        w.advance(case.tail_ms);
    }
    Ok(w)
}

/// Order-insensitive identity of an observable action.
fn action_key(e: &Entry) -> Option<String> {
    match &e.ev {
        Ev::Tx(tx) => {
            let m = tx.msg.as_ref()?;
            let mut qs: Vec<String> = m.questions.iter().map(|q| format!("{} {}", q.name.lower().to_escaped(), type_name(q.qtype))).collect();
            qs.sort();
            qs.dedup();
            let is_query = !m.is_response();
            let mut rs: Vec<String> = m
                .all_records()
                .map(|r| {
                    let mut r2 = r.clone();
                    r2.name = r2.name.lower();
                    if is_query {
                        r2.ttl = 0; // remaining TTLs of known answers are not part of the identity
                    }
                    render_record(&r2)
                })
                .collect();
            rs.sort();
            Some(format!(
                "TX {} {} {} Q{:?} R{:?}",
                tx.if_name,
                if tx.unicast { "unicast" } else if tx.v4() { "v4" } else { "v6" },
                if is_query { "query" } else { "response" },
                qs,
                rs
            ))
        }
        Ev::Svc { chan, ev } => Some(match ev {
            ServiceEvent::SearchStarted(_) => return None, // repeats with every retransmission; the packet is the action
            other => format!("EV browse#{chan} {}", render_service_event(other)),
        }),
        Ev::Host { chan, ev } => Some(match ev {
            HostnameResolutionEvent::SearchStarted(_) => return None,
            HostnameResolutionEvent::AddressesFound(h, a) | HostnameResolutionEvent::AddressesRemoved(h, a) => {
                let mut v: Vec<String> = a.iter().map(|x| x.to_ip_addr().to_string()).collect();
                v.sort();
                format!("EV host#{chan} {} {h} {v:?}", if matches!(ev, HostnameResolutionEvent::AddressesFound(..)) { "found" } else { "removed" })
            }
            other => format!("EV host#{chan} {other:?}"),
        }),
        Ev::Mon(ev) => match ev {
            DaemonEvent::Announce(n, _) => Some(format!("EV monitor Announce({n})")),
            DaemonEvent::NameChange(c) => Some(format!("EV monitor NameChange({} -> {} {:?})", c.original, c.new_name, c.rr_type)),
            DaemonEvent::IpAdd(_) | DaemonEvent::IpDel(_) => Some(format!("EV monitor {ev:?}")),
            _ => None,
        },
        Ev::Unreg { name, ok } => Some(format!("REPLY unregister {name} {ok}")),
        _ => None,
    }
}

fn actions(w: &World) -> BTreeMap<String, Vec<u64>> {
    let mut m: BTreeMap<String, Vec<u64>> = BTreeMap::new();
    for e in &w.daemons[0].log {
        if let Some(k) = action_key(e) {
            m.entry(k).or_default().push(e.t);
        }
    }
    m
}

/// (key, k, t_exact or None, t_chatty) for actions that happen later - or not at all - without
/// the extra wake-ups.
fn late_actions(exact: &World, chatty: &World) -> Vec<(String, usize, Option<u64>, u64)> {
    let a = actions(exact);
    let b = actions(chatty);
    let mut out = Vec::new();
    for (key, tc) in &b {
        let te = a.get(key).cloned().unwrap_or_default();
        for (k, t) in tc.iter().enumerate() {
            match te.get(k) {
                Some(x) if x <= t => {}
                Some(x) => out.push((key.clone(), k, Some(*x), *t)),
                None => out.push((key.clone(), k, None, *t)),
            }
        }
    }
    out
}

fn classify_late(key: &str) -> String {
    let kind = if key.starts_with("TX") {
        if key.contains(" query ") {
            if key.contains(" ANY") {
                "probe-or-resolve-query"
            } else {
                "query"
            }
        } else if key.contains(" 0 ") && key.contains("PTR 0 ") {
            "goodbye"
        } else {
            "response-or-announcement"
        }
    } else if key.contains("ServiceRemoved") {
        "ServiceRemoved"
    } else if key.contains("ServiceResolved") {
        "ServiceResolved"
    } else if key.contains("removed") {
        "AddressesRemoved"
    } else if key.contains("SearchTimeout") || key.contains("SearchStopped") {
        "search-end"
    } else if key.contains("Announce") {
        "Announce"
    } else if key.contains("NameChange") {
        "NameChange"
    } else {
        "other"
    };
    kind.to_string()
}

/// Longest run of iterations that produced nothing, consumed no input and asked to be woken at
/// or before the current time; and when it ended.
fn worst_idle_run(log: &[Entry]) -> (u64, u64) {
    let mut run_len = 0u64;
    let mut worst = 0u64;
    let mut worst_at = 0u64;
    let mut prev_was_output = false;
    for e in log.iter() {
        match &e.ev {
            Ev::Step { requested_wake, had_input } => {
                let idle = !*had_input && !prev_was_output;
                if idle && requested_wake.is_some_and(|w| w <= e.t) {
                    run_len += 1;
                    if run_len > worst {
                        worst = run_len;
                        worst_at = e.t;
                    }
                } else {
                    run_len = 0;
                }
                prev_was_output = false;
            }
            Ev::Tx(_) | Ev::Svc { .. } | Ev::Host { .. } | Ev::Mon(_) | Ev::Unreg { .. } => prev_was_output = true,
            _ => {}
        }
    }
    (worst, worst_at)
}

pub fn check(case: &Case, ctx: &mut CaseCtx) {
    let exact = match execute(case, None, 12) {
        Ok(w) => w,
        Err(e) => {
            ctx.violation("C12/harness/spawn", e);
            return;
        }
    };
    ctx.count("sim_steps", exact.total_steps);
    let d = &exact.daemons[0];
    let ops_text = case.ops.iter().map(|o| format!("{o:?}")).collect::<Vec<_>>().join("; ");
    if let Some(m) = &d.dead {
        ctx.violation(format!("C12/daemon-died/{}", m.split(": ").next().unwrap_or("")), format!("daemon died: {m}\nops: {ops_text}\n{}", render_log(&d.log, true, 40)));
        exact.finish();
        return;
    }
    // ---- oracle 2: no spin
    let (worst, worst_at) = worst_idle_run(&d.log);
    let zero_interval = case.ops.iter().any(|o| matches!(o, Op::SetIpCheck { secs: 0 }));
    if worst >= 20 || exact.budget_exhausted {
        ctx.violation(
            if zero_interval { "C12/spin/interface-check-interval-zero" } else { "C12/spin" },
            format!(
                "{} consecutive iterations (around +{} ms) did no work and asked to be woken at or before the current time{}\nops: {ops_text}\n--- history (with steps) ---\n{}",
                worst,
                worst_at.saturating_sub(T0),
                if exact.budget_exhausted { " (step budget exhausted)" } else { "" },
                render_log(&d.log, false, 40)
            ),
        );
        exact.finish();
        return;
    }
    // ---- oracle 1: nothing happens later (or only) without extra wake-ups
    let chatty = match execute(case, Some(case.chatty_ms), 12) {
        Ok(w) => w,
        Err(e) => {
            ctx.violation("C12/harness/spawn", e);
            exact.finish();
            return;
        }
    };
    ctx.count("sim_steps", chatty.total_steps);
    let late = late_actions(&exact, &chatty);
    if !late.is_empty() && chatty.daemons[0].dead.is_none() {
        // confirm with fresh daemon threads (other hash seeds): the same action must be late again
        let e2 = execute(case, None, 13);
        let c2 = execute(case, Some(case.chatty_ms), 13);
        if let (Ok(e2), Ok(c2)) = (e2, c2) {
            let late2 = late_actions(&e2, &c2);
            if let Some((key, k, te, tc)) = late.iter().find(|l| late2.iter().any(|m| m.0 == l.0 && m.1 == l.1)) {
                let kind = classify_late(key);
                ctx.violation(
                    format!("C12/late/{kind}"),
                    format!(
                        "occurrence #{} of action [{}] happens at +{} ms when the daemon is also woken every {} ms, but {} when it is woken only as it asks\nops: {ops_text}\n--- silent run ---\n{}\n--- run with extra wake-ups ---\n{}",
                        k + 1,
                        key.chars().take(300).collect::<String>(),
                        tc - T0,
                        case.chatty_ms,
                        match te {
                            Some(t) => format!("only at +{} ms", t - T0),
                            None => "never within the horizon".to_string(),
                        },
                        render_log(&exact.daemons[0].log, true, 40),
                        render_log(&chatty.daemons[0].log, true, 40)
                    ),
                );
            }
            e2.finish();
            c2.finish();
        }
    }
    // classification
    let kinds: Vec<&str> = {
        let mut k = Vec::new();
        for o in &case.ops {
            k.push(match o {
                Op::Register { .. } => "probe+announce",
                Op::Unregister { .. } => "goodbye-repeat",
                Op::Browse { .. } => "browse-retransmission",
                Op::Resolve { timeout_ms: Some(_), .. } => "hostname-timeout",
                Op::Resolve { .. } => "hostname-retransmission",
                Op::Verify { .. } => "verify-deadline",
                Op::Announce { .. } | Op::HostAddr { .. } => "refresh+expiry",
                Op::Goodbye { .. } => "goodbye-expiry",
                Op::Conflict { .. } => "rename-probe",
                Op::ProbeTie { we_lose: true, .. } => "tiebreak-retry",
                Op::SetIpCheck { .. } => "interface-check",
                _ => continue,
            });
        }
        k.sort();
        k.dedup();
        k
    };
    for k in &kinds {
        ctx.class(&format!("timed-work:{k}"));
    }
    ctx.class_if(zero_interval, "interface-check-interval-zero");
    ctx.class_if(kinds.len() >= 3, ">=3-kinds-of-timed-work");
    if kinds.len() >= 3 {
        ctx.nontrivial(format!("{kinds:?} x{} tail{}", case.chatty_ms, case.tail_ms / 10_000));
    }
    if ctx.want_sample {
        ctx.sample = Some(json!({
            "ops": case.ops.iter().map(|o| format!("{o:?}")).collect::<Vec<_>>(),
            "chatty_ms": case.chatty_ms,
            "actions_compared": actions(&exact).values().map(|v| v.len()).sum::<usize>(),
        }));
    }
    exact.finish();
    chatty.finish();
}

pub fn strategy() -> BoxedStrategy<Case> {
    let ttl = prop_oneof![Just(2u32), Just(5), Just(10), 2u32..30];
    let op = prop_oneof![
        3 => (0usize..2).prop_map(|i| Op::Register { i }),
        1 => (0usize..2).prop_map(|i| Op::Unregister { i }),
        3 => (0usize..2).prop_map(|ty| Op::Browse { ty }),
        1 => (0usize..2).prop_map(|ty| Op::StopBrowse { ty }),
        2 => (0usize..2, proptest::option::weighted(0.5, prop_oneof![Just(700u64), Just(2500), 1u64..20_000])).prop_map(|(host, timeout_ms)| Op::Resolve { host, timeout_ms }),
        1 => (0usize..2).prop_map(|host| Op::StopResolve { host }),
        2 => (0usize..2, 0usize..2, prop_oneof![Just(0u64), Just(1500), Just(10_000), 0u64..12_000]).prop_map(|(ty, inst, timeout_ms)| Op::Verify { ty, inst, timeout_ms }),
        4 => (0usize..2, 0usize..2, ttl.clone()).prop_map(|(ty, inst, ttl)| Op::Announce { ty, inst, ttl }),
        1 => (0usize..2, 0usize..2).prop_map(|(ty, inst)| Op::Goodbye { ty, inst }),
        2 => (0usize..2, ttl).prop_map(|(host, ttl)| Op::HostAddr { host, ttl }),
        1 => (0usize..2).prop_map(|i| Op::Conflict { i }),
        2 => (0usize..2, any::<bool>()).prop_map(|(i, we_lose)| Op::ProbeTie { i, we_lose }),
        1 => prop_oneof![Just(0u32), Just(1), Just(5), Just(1_000_000)].prop_map(|secs| Op::SetIpCheck { secs }),
        6 => prop_oneof![Just(0u64), Just(100), Just(300), Just(600), Just(1100), 0u64..3000, 0u64..15_000].prop_map(|ms| Op::Advance { ms }),
        1 => (0usize..2).prop_map(|i| Op::RegisterAuto { i }),
        1 => Just(Op::NewInterface),
    ];
    (
        iftable(2),
        prop_oneof![Just(0u64), Just(100), 0u64..250],
        proptest::collection::vec(op, 1..14),
        prop_oneof![Just(8_000u64), Just(25_000), Just(45_000)],
        prop_oneof![Just(10u64), Just(37), Just(50), Just(100)],
        proptest::bool::weighted(0.6),
    )
        .prop_map(|(ifs, jitter, mut ops, tail_ms, chatty_ms, quiet_poll)| {
            if quiet_poll && !ops.iter().any(|o| matches!(o, Op::SetIpCheck { .. })) {
                // take the periodic interface check out of the way so that nothing else wakes the loop
                ops.insert(0, Op::SetIpCheck { secs: 1_000_000 });
            }
            Case {
                ifs,
                jitter,
                ops,
                tail_ms,
                chatty_ms,
            }
        })
        .boxed()
}

/// Long silent runs: the spin oracle over hours of virtual time.
fn long_strategy() -> BoxedStrategy<Case> {
    strategy()
        .prop_map(|mut c| {
            c.tail_ms = 3 * 3600 * 1000;
            c.chatty_ms = 0;
            c
        })
        .boxed()
}

fn check_long(case: &Case, ctx: &mut CaseCtx) {
    let exact = match execute(case, None, 12) {
        Ok(w) => w,
        Err(e) => {
            ctx.violation("C12/harness/spawn", e);
            return;
        }
    };
    ctx.count("sim_steps", exact.total_steps);
    let d = &exact.daemons[0];
    let ops_text = case.ops.iter().map(|o| format!("{o:?}")).collect::<Vec<_>>().join("; ");
    let (worst, _) = worst_idle_run(&d.log);
    let zero_interval = case.ops.iter().any(|o| matches!(o, Op::SetIpCheck { secs: 0 }));
    if worst >= 20 || exact.budget_exhausted {
        ctx.violation(
            if zero_interval { "C12/spin/interface-check-interval-zero" } else { "C12/spin" },
            format!("{worst} consecutive idle iterations asked to be woken at or before the current time{}\nops: {ops_text}\n{}", if exact.budget_exhausted { " (step budget exhausted)" } else { "" }, render_log(&d.log, false, 30)),
        );
    }
    // iterations per virtual hour: bounded by actions + interface checks + constant
    let outputs = d.log.iter().filter(|e| matches!(e.ev, Ev::Tx(_) | Ev::Svc { .. } | Ev::Host { .. } | Ev::Mon(_) | Ev::Api(_) | Ev::Rx { .. })).count() as u64;
    let hours = (case.tail_ms / 3_600_000).max(1);
    let polls = if case.ops.iter().any(|o| matches!(o, Op::SetIpCheck { secs: 1_000_000 })) && !case.ops.iter().any(|o| matches!(o, Op::SetIpCheck { secs: 1 | 5 })) { 0 } else { hours * 3600 + 3600 };
    if !exact.budget_exhausted && d.steps > 4 * outputs + polls + 200 {
        ctx.violation(
            "C12/too-many-iterations",
            format!("{} iterations for {} observable actions over {} h (interface checks allowed for: {})\nops: {ops_text}", d.steps, outputs, hours, polls),
        );
    }
    ctx.class_if(zero_interval, "interface-check-interval-zero");
    ctx.class("long-silent-run");
    ctx.nontrivial(format!("long {:?}", case.ops.iter().map(std::mem::discriminant).collect::<Vec<_>>().len()));
    exact.finish();
}

pub fn run(tier: Tier) -> i32 {
    let mut agg = Agg::new("C12", tier);
    agg.assume("metamorphic relation: with correct timers an extra wake-up with nothing due is a no-op, so the run woken only as it asks and the run additionally woken every X ms produce the same actions at the same virtual times; an action that is later or missing in the silent run was due without a timer (confirmed on a second pair of fresh daemons before it is reported)");
    agg.assume("action identity ignores the order of questions/records inside a packet, remaining TTLs of known answers and SearchStarted events");
    agg.assume("spin = at least 20 consecutive iterations that produce nothing, consumed no input and ask to be woken at or before the current time");
    run_regressions::<Case>(&mut agg, "silent-vs-chatty", &check);
    run_part(
        &mut agg,
        &Part {
            name: "silent-vs-chatty",
            rule: "API sequences (register, unregister, browse, stop, resolve_hostname with/without timeout, verify, set_ip_check_interval in {0,1,5,1e6}) and packet histories (announcements with TTL 2..30 s, goodbyes, address answers, conflicts, won and lost simultaneous probes) run twice - woken only as the daemon asks, and additionally every 10..100 ms - over 8..45 s of virtual time after the last op; \
                   non-trivial = >=3 distinct kinds of pending timed work",
            cases: scale(tier.pick(6_000, 150_000)),
            max_shrink_iters: 300,
            strategy: &strategy,
            check: &check,
        },
    );
    run_regressions::<Case>(&mut agg, "long-silent", &check_long);
    run_part(
        &mut agg,
        &Part {
            name: "long-silent",
            rule: "the same generated scenarios observed for 3 h of virtual time woken only as the daemon asks: no run of idle iterations asking for an immediate wake-up, iterations bounded by actions + interface checks",
            cases: scale(tier.pick(2_000, 40_000)),
            max_shrink_iters: 200,
            strategy: &long_strategy,
            check: &check_long,
        },
    );
    agg.require_class("silent-vs-chatty:>=3-kinds-of-timed-work", 2000);
    agg.require_class("silent-vs-chatty:timed-work:tiebreak-retry", 300);
    agg.require_class("silent-vs-chatty:timed-work:verify-deadline", 300);
    agg.require_class("silent-vs-chatty:interface-check-interval-zero", 100);
    agg.finish()
}

pub fn replay(file: &std::path::Path) -> i32 {
    if let Some(c) = replay_part::<Case>("C12", "silent-vs-chatty", file, 3, &check) {
        return c;
    }
    if let Some(c) = replay_part::<Case>("C12", "long-silent", file, 1, &check_long) {
        return c;
    }
    eprintln!("harness error: replay file does not belong to C12");
    2
}
