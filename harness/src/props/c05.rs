//! C05 - departed services are reported removed, on time and only when true (E3).

use crate::gen::*;
use crate::props::browser::*;
use crate::props::c03::{announcement, inst_strategy};
use crate::refdns::*;
use crate::runner::*;
use crate::sim::wire;
use crate::sim::*;
use mdns_sd::ServiceEvent;
use proptest::prelude::*;
use serde_json::json;

pub fn check(case: &Case, ctx: &mut CaseCtx) {
    let run = match execute(case, 5) {
        Ok(r) => r,
        Err(e) => {
            ctx.violation("C05/harness/spawn", e);
            return;
        }
    };
    ctx.count("sim_steps", run.world.total_steps);
    if !common_failures("C05", case, &run, ctx) {
        judge(case, &run, ctx);
    }
    run.world.finish();
}

#[derive(Clone, Default)]
struct IState {
    reported: bool,
    resolved: bool,
    /// consecutive steps during which a removal has been due
    due_steps: u32,
    due_cause: &'static str,
    due_since: u64,
    /// log position of the last removal (None: not removed since last report)
    removed_pos: Option<usize>,
    /// when the instance was (re)reported after having been absent
    t_report: u64,
    removals: u32,
}

/// Is the instance still there according to cache `c` at time `t`? Returns the first cause why not.
fn gone_cause(c: &RefCache, ty: &Name, inst: &Name, was_resolved: bool, t_report: u64, t: u64) -> Option<&'static str> {
    if !c.ptr_live(ty, inst, t, false) {
        let goodbye = c.entries.iter().any(|e| e.rtype == T_PTR && e.name == *ty && wire::ptr_target_rdata(&e.rdata).is_some_and(|n| n == *inst) && e.goodbye && t >= e.expires_at);
        return Some(if goodbye { "goodbye" } else { "ptr-expired" });
    }
    // SRV records it had when it was reported, or got since
    let had_srv = c.srvs(inst).any(|e| e.expires_at > t_report);
    let live_srvs: Vec<&CEntry> = c.srvs(inst).filter(|e| t < e.expires_at).collect();
    if had_srv && live_srvs.is_empty() {
        let e = c.srvs(inst).filter(|e| e.expires_at > t_report).last().unwrap();
        return Some(if e.goodbye {
            "goodbye"
        } else if e.shortened {
            "verify-deadline-or-flush"
        } else {
            "srv-expired"
        });
    }
    if was_resolved && !live_srvs.is_empty() {
        // the last address of its host ran out
        let any_addr = live_srvs.iter().any(|s| {
            let h = wire::srv_of_rdata(&s.rdata).unwrap();
            let r = c.addrs(&h).any(|a| t < a.expires_at);
            r
        });
        // (while the PTR or every SRV is in its own final second the instance is about to be
        // removed for that cause anyway; the loss of the address is then not demanded separately)
        // the moment the last address ran out
        let e_addr = live_srvs
            .iter()
            .flat_map(|s| {
                let h = wire::srv_of_rdata(&s.rdata).unwrap();
                c.addrs(&h).map(|a| a.expires_at).collect::<Vec<_>>()
            })
            .max()
            .unwrap_or(t);
        // (a copy that arrives in the very millisecond of the expiry may be read after the eviction ran)
        let solid_then = |e: &CEntry| e.received_at < e_addr && e_addr + 1000 < e.expires_at && !e.goodbye;
        let ptr_solid = c.entries.iter().any(|e| e.rtype == T_PTR && e.name == *ty && wire::ptr_target_rdata(&e.rdata).is_some_and(|n| n == *inst) && solid_then(e));
        let srv_solid = live_srvs.iter().any(|s| solid_then(s));
        if !any_addr && ptr_solid && srv_solid {
            return Some("last-address-expired");
        }
    }
    None
}

fn judge(case: &Case, run: &Run, ctx: &mut CaseCtx) {
    let d = &run.world.daemons[0];
    let n = case.insts.len();
    let names: Vec<(Name, Name)> = case
        .insts
        .iter()
        .map(|i| {
            let st = InstState { def: i.clone(), port: 0, txt_ver: 0, host: 0 };
            (st.ty_name(), st.fullname())
        })
        .collect();
    let mut st: Vec<IState> = vec![IState::default(); n];
    let mut violation: Option<(String, String)> = None;
    let mut causes_seen: Vec<&'static str> = Vec::new();
    let mut removals_ok = 0u64;
    // the lower-bound cache as it was before the datagrams of the current iteration
    let mut before_iter: RefCache = RefCache::default();
    replay3(case, &d.log, |pos, e, _upper, lower, mid| {
        if violation.is_some() {
            return;
        }
        let t = e.t;
        if matches!(e.ev, Ev::Step { .. }) {
            before_iter = lower.clone();
        }
        match &e.ev {
            Ev::Api(s) if s.starts_with("stop_browse(") => {
                // the channel of that type ended: its instances are no longer "reported"
                for (i, (ty, _)) in names.iter().enumerate() {
                    if s.contains(&ty.to_escaped()) {
                        st[i] = IState::default();
                    }
                }
            }
            Ev::Svc { ev, .. } => match ev {
                ServiceEvent::ServiceFound(_, full) | ServiceEvent::ServiceRemoved(_, full) => {
                    let Some((i, name)) = inst_by_plain(case, full) else { return };
                    let is_removed = matches!(ev, ServiceEvent::ServiceRemoved(..));
                    if !is_removed {
                        if !st[i].reported {
                            st[i].t_report = t;
                        }
                        st[i].reported = true;
                        st[i].removed_pos = None;
                        st[i].due_steps = 0;
                        return;
                    }
                    // ---- never early
                    if st[i].reported {
                        let ty = &names[i].0;
                        let ptr = lower.ptr_live(ty, &name, t, true);
                        let srvs: Vec<&CEntry> = lower.srvs(&name).filter(|e| e.certainly_live(t)).collect();
                        let all_srv_hosts_have_addr = !srvs.is_empty()
                            && srvs.iter().all(|s| {
                                let h = wire::srv_of_rdata(&s.rdata).unwrap();
                                let r = lower.addrs(&h).any(|a| a.certainly_live(t));
                                r
                            });
                        // several datagrams may be handled in one iteration and events are
                        // emitted in between: the instance must have been complete before them too
                        let complete_before = {
                            let b = &before_iter;
                            let srvs_b: Vec<&CEntry> = b.srvs(&name).filter(|e| e.certainly_live(t)).collect();
                            b.ptr_live(ty, &name, t, true)
                                && !srvs_b.is_empty()
                                && srvs_b.iter().all(|s| {
                                    let h = wire::srv_of_rdata(&s.rdata).unwrap();
                                    let r = b.addrs(&h).any(|a| a.certainly_live(t));
                                    r
                                })
                        };
                        if ptr && all_srv_hosts_have_addr && complete_before {
                            violation = Some((
                                "C05/removed-early".into(),
                                format!("ServiceRemoved({full}) at +{} ms although its PTR, {} SRV record(s) and an address of each SRV's host are live for more than another second", t - T0, srvs.len()),
                            ));
                            return;
                        }
                        // the cause, as the reference cache sees it at this moment
                        if let Some(cause) = gone_cause(mid, ty, &name, st[i].resolved, st[i].t_report, t) {
                            removals_ok += 1;
                            causes_seen.push(cause);
                        }
                    }
                    st[i].reported = false;
                    st[i].resolved = false;
                    st[i].due_steps = 0;
                    st[i].removed_pos = Some(pos);
                    st[i].removals += 1;
                }
                ServiceEvent::ServiceResolved(r) => {
                    let Some((i, name)) = inst_by_plain(case, &r.fullname) else { return };
                    // ---- final: nothing after a removal unless new records arrived
                    if let Some(rp) = st[i].removed_pos {
                        let host = Name::from_escaped(&r.host);
                        // datagrams consumed by the iteration that removed it count as "new"
                        let iter_start = d.log[..rp].iter().rposition(|x| matches!(x.ev, Ev::Step { .. })).map(|p| p + 1).unwrap_or(0);
                        let news = d.log[iter_start..pos].iter().any(|x| match &x.ev {
                            Ev::Rx { msg: Some(m), .. } => m.all_records().any(|rec| rec.name == name || rec.name.eq_ignore_case(&host) || wire::ptr_target(rec).is_some_and(|n| *n == name)),
                            _ => false,
                        });
                        if !news {
                            violation = Some((
                                "C05/resolved-after-removed-without-new-records".into(),
                                format!("ServiceResolved({}) at +{} ms follows its ServiceRemoved although no record of it arrived in between", r.fullname, t - T0),
                            ));
                            return;
                        }
                    }
                    if !st[i].reported {
                        st[i].t_report = t;
                    }
                    st[i].reported = true;
                    st[i].resolved = true;
                    st[i].removed_pos = None;
                }
                _ => {}
            },
            Ev::Step { .. } => {
                // ---- on time: a removal that is due must have been delivered by the end of the
                // step taken at that moment, or of the one after it
                for i in 0..n {
                    if !st[i].reported {
                        continue;
                    }
                    let (ty, name) = &names[i];
                    match gone_cause(mid, ty, name, st[i].resolved, st[i].t_report, t) {
                        None => st[i].due_steps = 0,
                        Some(cause) => {
                            if st[i].due_steps == 0 {
                                st[i].due_cause = cause;
                                st[i].due_since = t;
                            }
                            st[i].due_steps += 1;
                            if st[i].due_steps >= 2 {
                                violation = Some((
                                    format!("C05/removal-missing-or-late/{}", st[i].due_cause),
                                    format!(
                                        "instance {} was reported and is gone since +{} ms ({}), but no ServiceRemoved was delivered by the end of the following step (+{} ms)",
                                        name.to_escaped(),
                                        st[i].due_since - T0,
                                        st[i].due_cause,
                                        t - T0
                                    ),
                                ));
                                return;
                            }
                        }
                    }
                }
            }
            _ => {}
        }
    });
    if let Some((sig, detail)) = violation {
        ctx.violation(sig, format!("{detail}\nops: {}\n--- history ---\n{}", ops_text(case), render_log(&d.log, true, 70)));
        return;
    }
    causes_seen.sort();
    causes_seen.dedup();
    for c in &causes_seen {
        ctx.class(&format!("removal-cause:{c}"));
    }
    ctx.count("removals_judged_on_time", removals_ok);
    ctx.class_if(st.iter().any(|s| s.removals > 0), "some-ServiceRemoved");
    let deep = causes_seen.iter().any(|c| matches!(*c, "ptr-expired" | "srv-expired" | "last-address-expired" | "verify-deadline-or-flush"));
    if deep {
        ctx.nontrivial(format!("n{} causes{:?} ifs{}", n, causes_seen, case.ifs.len()));
    }
    if ctx.want_sample {
        ctx.sample = Some(json!({
            "scenario": ops_text(case).chars().take(900).collect::<String>(),
            "removal_causes": causes_seen,
            "history_tail": render_log(&d.log, true, 8).lines().map(|l| l.chars().take(200).collect::<String>()).collect::<Vec<_>>(),
        }));
    }
}

pub fn strategy() -> BoxedStrategy<Case> {
    let ttl = prop_oneof![1 => Just(1u32), 2 => Just(2), 2 => Just(5), 2 => Just(10), 1 => Just(60), 3 => Just(120), 3 => Just(4500), 1 => 1u32..300];
    let goodbye = (0usize..2, 0usize..3, 0u8..4, 1u8..3).prop_map(|(k, inst, which, copies)| {
        let recs: Vec<RecSel> = announcement(inst, 0, 0, &[0, 1, 2, 3])
            .into_iter()
            .filter(|r| match which {
                0 => true,
                1 => r.kind == Kind::Ptr,
                2 => r.kind == Kind::Srv,
                _ => matches!(r.kind, Kind::Addr(_)),
            })
            .collect();
        Op::Deliver { k, recs, copies }
    });
    let announce = (0usize..2, 0usize..3, ttl.clone(), ttl, proptest::collection::vec(0u8..4, 1..3), 1u8..3)
        .prop_map(|(k, inst, h, o, addrs, copies)| Op::Deliver { k, recs: announcement(inst, h, o, &addrs), copies });
    let op = prop_oneof![
        6 => announce,
        3 => goodbye,
        9 => prop_oneof![Just(0u64), Just(999), Just(1000), Just(1001), Just(2000), Just(5000), Just(10_000), Just(60_000), Just(120_000), Just(121_000), Just(4_500_000), Just(4_501_000), 0u64..12_000, 0u64..300_000].prop_map(|ms| Op::Advance { ms }),
        2 => (0usize..3, prop_oneof![Just(0u64), Just(1), Just(1000), Just(3000), Just(10_000), 0u64..30_000]).prop_map(|(inst, timeout_ms)| Op::Verify { inst, timeout_ms }),
        2 => (any::<bool>(), prop_oneof![Just(0u64), Just(100), Just(700)]).prop_map(|(on, delay_ms)| Op::Responder { on, delay_ms, mute: 0 }),
    ];
    (
        iftable(2),
        prop_oneof![3 => Just(vec![0usize]), 2 => Just(vec![0usize, 1])],
        proptest::collection::vec(inst_strategy(false), 1..=3),
        proptest::collection::vec(op, 2..20),
        prop_oneof![Just(3_000u64), Just(130_000), Just(4_600_000)],
    )
        .prop_map(|(ifs, browse, mut insts, ops, tail_ms)| {
            for i in 0..insts.len() {
                for j in 0..i {
                    if insts[i].label.to_lowercase() == insts[j].label.to_lowercase() && insts[i].ty == insts[j].ty {
                        insts[i].label = format!("{}{}", insts[i].label, i);
                    }
                }
            }
            // every instance belongs to a browsed type, so that every datagram is "for us" and
            // the three reference caches coincide
            for i in insts.iter_mut() {
                if !browse.contains(&(i.ty % 2)) {
                    i.ty = browse[0];
                }
            }
            for i in 0..insts.len() {
                for j in 0..i {
                    if insts[i].label.to_lowercase() == insts[j].label.to_lowercase() && insts[i].ty % 2 == insts[j].ty % 2 {
                        insts[i].label = format!("{}x{}", insts[i].label, i);
                    }
                }
            }
            Case {
                ifs,
                browse,
                accept_unsolicited: false,
                insts,
                ops,
                tail_ms,
                forced_wakes: true,
                resolve_hosts: vec![],
            }
        })
        .boxed()
}

pub fn run(tier: Tier) -> i32 {
    let mut agg = Agg::new("C05", tier);
    agg.assume("simulation: scripted responders only; the daemon is woken when it asks and additionally at every expiry the reference cache computes (so the check does not lean on C12); clients drain their channels; interface check interval very large");
    agg.assume("a removal is demanded when the reference cache holding every received record (with verify applied) has lost the instance's PTR, its last SRV, or - for a resolved instance - the last address of every live SRV's host; it must be on the channel by the end of the step taken at that moment or of the next one. Only the first cause after the instance was last reported is demanded");
    agg.assume("instances keep their host and port for the whole history (one SRV record per instance at a time): which of several live SRV records counts is not stated; updates are C03's domain");
    agg.assume("'early' = PTR, at least one SRV, and an address of every live SRV's host all have more than one second left in the lower-bound cache");
    run_regressions::<Case>(&mut agg, "departures", &check);
    run_part(
        &mut agg,
        &Part {
            name: "departures",
            rule: "announcements (TTL 1 s..4500 s) of 1-3 instances on 1-2 hosts followed by goodbyes (all / PTR only / SRV only / addresses only; duplicated or not), silence, refreshes answered or ignored by a scripted responder, verify requests (timeout 0..30 s) answered or not; horizons up to 75 min; \
                   non-trivial = a removal judged on time whose cause is TTL run-out of the PTR, the last SRV or the last address, or a verify deadline",
            cases: scale(tier.pick(25_000, 700_000)),
            max_shrink_iters: 1000,
            strategy: &strategy,
            check: &check,
        },
    );
    agg.assume("part two-listeners: both PTR records (type and subtype) of the instance always arrive together with one TTL, so every cause of removal is common to the two listeners; no responder (refresh queries stay unanswered); the daemon is additionally woken 1 and 2 ms after every expiry the model computes");
    run_regressions::<crate::props::c05b::Case2>(&mut agg, "two-listeners", &crate::props::c05b::check);
    run_part(
        &mut agg,
        &Part {
            name: "two-listeners",
            rule: "one instance announced with the PTR of its type and the PTR of a subtype, browsed under both at once: announcements (host TTL 1..200 s, other TTL 1..5000 s), goodbyes (all records / SRV only / both PTRs), silence, stop_browse of either search; oracle = the two listeners get ServiceRemoved in the same step or not at all, never early and never later than the step after the expiry the model computes; \
                   non-trivial = both listeners were told of a removal in one step whose cause is not only the PTR's TTL",
            cases: scale(tier.pick(8_000, 300_000)),
            max_shrink_iters: 1000,
            strategy: &crate::props::c05b::strategy,
            check: &crate::props::c05b::check,
        },
    );
    agg.require_class("two-listeners:both-listeners-removed-in-one-step", 500);
    agg.require_class("two-listeners:removal-cause:srv-expired", 300);
    agg.require_class("departures:removal-cause:goodbye", 1000);
    agg.require_class("departures:removal-cause:srv-expired", 500);
    agg.require_class("departures:removal-cause:ptr-expired", 300);
    agg.require_class("departures:removal-cause:last-address-expired", 100);
    agg.require_class("departures:removal-cause:verify-deadline-or-flush", 100);
    agg.finish()
}

pub fn replay_file(file: &std::path::Path) -> i32 {
    if let Some(r) = replay_part::<crate::props::c05b::Case2>("C05", "two-listeners", file, 5, &crate::props::c05b::check) {
        return r;
    }
    replay_part::<Case>("C05", "departures", file, 5, &check).unwrap_or_else(|| {
        eprintln!("harness error: replay file does not belong to C05");
        2
    })
}
