//! C20 - state stays bounded: expired data is forgotten, unrequested data not kept (E3).

use crate::gen::*;
use crate::props::c01;
use crate::refdns::*;
use crate::runner::*;
use crate::sim::peer;
use crate::sim::*;
use mdns_sd::ServiceInfo;
use proptest::prelude::*;
use serde::{Deserialize, Serialize};
use serde_json::json;
use std::collections::{BTreeSet, HashMap};
use std::net::{IpAddr, SocketAddr};

const TYPES3: [&str; 3] = ["_http._tcp.local.", "_ipp._tcp.local.", "_nobody._udp.local."];
/// what can be browsed: the first two types and a subtype of the first
const BROWSABLE: [&str; 3] = ["_http._tcp.local.", "_ipp._tcp.local.", "_printer._sub._http._tcp.local."];
const HOSTS2: [&str; 2] = ["Printer-7.local.", "scanner.local."];

#[derive(Clone, Debug, Serialize, Deserialize)]
pub enum Traffic {
    /// full announcements of distinct instances of a type (0/1 may be browsed, 2 never is)
    Announce { ty: usize, ttl: u32 },
    /// SRV / TXT / A / AAAA / NSEC of distinct names without any PTR
    NoPtr { ttl: u32 },
    /// the same instance announced and withdrawn over and over
    Flap { ty: usize },
    /// addresses for a host name (0/1 may be searched for, 2.. never)
    HostAddr { host: usize, ttl: u32 },
    /// queries and probes for distinct names
    Queries,
    /// the C01 datagram families
    Hostile { seed: u64 },
    /// subtype PTRs of distinct subtypes
    Subtypes { ty: usize, ttl: u32 },
    /// distinct instances announced the way a question for the browsable subtype is answered
    /// (subtype PTR, SRV, TXT, address; no PTR of the base type)
    SubAnnounce { ttl: u32 },
}

#[derive(Clone, Debug, Serialize, Deserialize)]
pub enum Op {
    Browse { ty: usize },
    StopBrowse { ty: usize },
    Resolve { host: usize, timeout_ms: Option<u64> },
    StopResolve { host: usize },
    Register { inst: usize },
    Unregister { inst: usize },
    /// `count` datagrams of one kind, `gap_ms` apart
    Flood { traffic: Traffic, count: u32, gap_ms: u64 },
    Advance { ms: u64 },
}

#[derive(Clone, Debug, Serialize, Deserialize)]
pub struct Case {
    pub ifs: Vec<IfSpec>,
    pub ops: Vec<Op>,
}

fn src(ifs: &[IfSpec], h: u8) -> SocketAddr {
    if ifs[0].v4 {
        SocketAddr::new(IpAddr::V4(subnet_v4(0, h)), MDNS_PORT)
    } else {
        SocketAddr::new(IpAddr::V6(subnet_v6(0, h as u16)), MDNS_PORT)
    }
}

fn addr_for(ifs: &[IfSpec], h: u8) -> IpAddr {
    if ifs[0].v4 {
        IpAddr::V4(subnet_v4(0, h))
    } else {
        IpAddr::V6(subnet_v6(0, h as u16))
    }
}

const METRICS: [&str; 6] = ["cached-ptr", "cached-srv", "cached-txt", "cached-addr", "cached-nsec", "cached-subtype"];

pub fn check(case: &Case, ctx: &mut CaseCtx) {
    let mut d = match SimDaemon::new("D", sim_ifs(&case.ifs), T0, 20) {
        Ok(d) => d,
        Err(e) => {
            ctx.violation("C20/harness/spawn", e);
            return;
        }
    };
    // the periodic interface check stays at its default (5 s): it is the one timer allowed at rest
    d.h.set_jitter_default(Some(0));
    let mut w = World::new(T0);
    let di = w.add(d);
    let mut seq: u32 = 0;
    let mut browsed: BTreeSet<usize> = BTreeSet::new();
    let mut searched: BTreeSet<usize> = BTreeSet::new();
    let mut deadlines: std::collections::BTreeMap<usize, u64> = Default::default();
    let mut registered: BTreeSet<usize> = BTreeSet::new();
    // records that entered while a search cared about them: (name kind, expiry)
    let mut needed_peak: u64 = 0;
    let mut needed_now: Vec<(u64, u64, usize)> = Vec::new(); // (expires_at, number of records, type or 10 + host)
    // records that arrived in datagrams without any PTR answer: the recorded finding (they are cached whatever is searched for)
    let mut noptr_now: Vec<(u64, u64)> = Vec::new();
    let mut soft: Option<(String, String)> = None;
    let mut soft2: Option<(String, String)> = None;
    // every received copy of a record that is (or may be) cached: (its expiry, copies)
    let mut copies_now: Vec<(u64, u64)> = Vec::new();
    let mut unrelated_packets: u64 = 0;
    let mut max_ttl_ms: u64 = 0;
    let mut worst: Option<(String, String)> = None;
    let mut samples: Vec<serde_json::Value> = Vec::new();
    let mut floods = 0u32;
    let mut metric_checks = 0u32;

    // compares the daemon's own metrics with what the searches and registrations need
    let hostile_seen = case.ops.iter().any(|o| matches!(o, Op::Flood { traffic: Traffic::Hostile { .. }, .. }));
    let mut probe = |w: &mut World, what: &str, needed_records: u64, noptr_records: u64, copies: u64, searches: u64, regs: u64, unrelated: u64, worst: &mut Option<(String, String)>, soft: &mut Option<(String, String)>, soft2: &mut Option<(String, String)>, samples: &mut Vec<serde_json::Value>| {
        let now = w.now;
        let dm = &mut w.daemons[di];
        dm.set_now(now);
        let Some(m) = dm.metrics() else { return };
        let cached: i64 = METRICS.iter().map(|k| m.get(*k).copied().unwrap_or(0)).sum();
        let timers = m.get("timer").copied().unwrap_or(0);
        // every needed record may be cached, with a handful of timers each; every search and
        // registration has a few timers and retransmissions of its own
        let cache_bound = needed_records as i64;
        let timer_bound = 6 * (needed_records + noptr_records) as i64 + 8 * (searches + regs) as i64 + 8;
        if samples.len() < 6 {
            samples.push(json!({"at": what, "cached": cached, "timers": timers, "needed_records": needed_records, "searches": searches, "registrations": regs, "unrelated_datagrams_so_far": unrelated}));
        }
        if cached > cache_bound && cached <= cache_bound + noptr_records as i64 {
            if soft.is_none() {
                *soft = Some((
                    "C20/cache-holds-unrequested-records/from-datagrams-without-a-ptr-answer".into(),
                    format!(
                        "{what}: the daemon's metrics report {cached} cached records ({}) where the open searches account for at most {cache_bound}; the rest came in datagrams without any PTR answer ({noptr_records} such records are within their TTL)",
                        METRICS.iter().map(|k| format!("{k}={}", m.get(*k).copied().unwrap_or(0))).collect::<Vec<_>>().join(" ")
                    ),
                ));
            }
        } else if cached > cache_bound && hostile_seen {
            // the hostile datagram families share a small pool of names: a record cached from a
            // datagram without a PTR answer is kept alive by later copies in other datagrams, so the
            // excess cannot be told apart from the recorded finding
            if soft.is_none() {
                *soft = Some(("C20/cache-holds-unrequested-records/from-datagrams-without-a-ptr-answer".into(), format!("{what}: {cached} cached records after hostile datagram families (records cached from datagrams without a PTR answer, refreshed by later copies)")));
            }
        } else if cached > cache_bound && worst.is_none() {
            *worst = Some((
                "C20/cache-holds-unrequested-records".into(),
                format!(
                    "{what}: the daemon's metrics report {cached} cached records ({}) where the open searches account for at most {cache_bound}; {unrelated} datagrams nobody asked for were delivered so far",
                    METRICS.iter().map(|k| format!("{k}={}", m.get(*k).copied().unwrap_or(0))).collect::<Vec<_>>().join(" ")
                ),
            ));
        }
        if timers > timer_bound && timers <= timer_bound + 4 * copies as i64 {
            if soft2.is_none() {
                *soft2 = Some((
                    "C20/timers-grow-with-traffic/one-set-of-timers-per-received-copy".into(),
                    format!("{what}: {timers} pending timers with {needed_records} needed records, {searches} searches, {regs} registrations; {copies} copies of cached records were received within their TTL, each adding its own timers"),
                ));
            }
        } else if timers > timer_bound && worst.is_none() {
            *worst = Some(("C20/timers-grow-with-traffic".into(), format!("{what}: {timers} pending timers with {needed_records} needed records, {searches} searches, {regs} registrations ({unrelated} unrelated datagrams so far)")));
        }
    };

    for op in &case.ops {
        w.settle();
        let now = w.now;
        needed_now.retain(|x| x.0 > now);
        // a search with a timeout ends on its own
        for (h, t) in deadlines.clone() {
            if now >= t {
                searched.remove(&h);
                deadlines.remove(&h);
            }
        }
        let dm = &mut w.daemons[di];
        dm.set_now(now);
        match op {
            Op::Browse { ty } => {
                if dm.browse(BROWSABLE[*ty % 3]).is_ok() {
                    browsed.insert(*ty % 3);
                }
            }
            Op::StopBrowse { ty } => {
                if dm.stop_browse(BROWSABLE[*ty % 3]).is_ok() {
                    browsed.remove(&(*ty % 3));
                    // what was cached for it is forgotten
                    needed_now.retain(|x| x.2 != *ty % 3);
                    w.settle();
                    let now = w.now;
                    needed_now.retain(|x| x.0 > now);
                    noptr_now.retain(|x| x.0 > now);
                    copies_now.retain(|x| x.0 > now);
                    let n: u64 = needed_now.iter().map(|x| x.1).sum();
                    let np: u64 = noptr_now.iter().map(|x| x.1).sum();
                    let cp: u64 = copies_now.iter().map(|x| x.1).sum();
                    metric_checks += 1;
                    probe(&mut w, &format!("after stop_browse({})", BROWSABLE[*ty % 3]), n, np, cp, (browsed.len() + searched.len()) as u64, registered.len() as u64 * case.ifs.len() as u64 * 2, unrelated_packets, &mut worst, &mut soft, &mut soft2, &mut samples);
                }
            }
            Op::Resolve { host, timeout_ms } => {
                if dm.resolve_hostname(HOSTS2[*host % 2], *timeout_ms).is_ok() {
                    searched.insert(*host % 2);
                    match timeout_ms {
                        Some(t) => deadlines.insert(*host % 2, now + *t),
                        None => deadlines.remove(&(*host % 2)),
                    };
                }
            }
            Op::StopResolve { host } => {
                if dm.stop_resolve_hostname(HOSTS2[*host % 2]).is_ok() {
                    searched.remove(&(*host % 2));
                }
            }
            Op::Register { inst } => {
                let ip = addr_for(&case.ifs, 60 + (*inst % 2) as u8);
                if let Ok(info) = ServiceInfo::new("_mine._udp.local.", &format!("mine{}", inst % 2), &format!("minehost{}.local.", inst % 2), ip, 9000, &[("a", "b")][..]) {
                    if dm.register(info).is_ok() {
                        registered.insert(*inst % 2);
                    }
                }
            }
            Op::Unregister { inst } => {
                if dm.unregister(&format!("mine{}._mine._udp.local.", inst % 2)).is_ok() {
                    registered.remove(&(*inst % 2));
                }
            }
            Op::Flood { traffic, count, gap_ms } => {
                floods += 1;
                for i in 0..*count {
                    seq += 1;
                    let now = w.now;
                    let dm = &mut w.daemons[di];
                    dm.set_now(now);
                    let s = src(&case.ifs, 100 + (seq % 100) as u8);
                    let mk_svc = |ty: usize, n: u32| peer::Svc {
                        ty: Name::from_escaped(TYPES3[ty % 3]),
                        sub: None,
                        inst: format!("i{n}").into_bytes(),
                        host: Name::from_escaped(&format!("h{n}.local.")),
                        port: 80,
                        txt: vec![0],
                        addrs: vec![addr_for(&case.ifs, 100 + (n % 100) as u8)],
                    };
                    // how many records of this datagram an open search accounts for, and until when
                    let mut needed: u64 = 0;
                    let mut needed_for: usize = 99;
                    let mut ttl_ms: u64 = 0;
                    let bytes = match traffic {
                        Traffic::Announce { ty, ttl } => {
                            let sv = mk_svc(*ty, seq);
                            let t = (*ttl).max(2);
                            if *ty % 3 < 2 && browsed.contains(&(*ty % 3)) {
                                needed = 4;
                                needed_for = *ty % 3;
                            }
                            ttl_ms = t as u64 * 1000;
                            peer::response(sv.announcement(t.min(120), t), vec![])
                        }
                        Traffic::SubAnnounce { ttl } => {
                            let mut sv = mk_svc(0, seq);
                            sv.sub = Some(b"_printer".to_vec());
                            sv.inst = format!("s{seq}").into_bytes();
                            let t = (*ttl).max(2);
                            if browsed.contains(&2) {
                                // (the metrics count the instance's subtype entry as well)
                                needed = 5;
                                needed_for = 2;
                            }
                            ttl_ms = t as u64 * 1000;
                            let mut recs = sv.announcement(t.min(120), t);
                            recs.retain(|r| !(r.rtype == T_PTR && r.name == sv.ty));
                            peer::response(recs, vec![])
                        }
                        Traffic::NoPtr { ttl } => {
                            let sv = mk_svc(2, seq);
                            let t = (*ttl).max(2);
                            ttl_ms = t as u64 * 1000;
                            let mut recs = vec![sv.srv(t, true), sv.txt_rec(t, true)];
                            recs.extend(sv.addr_recs(t, true));
                            recs.push(Record { name: sv.fullname(), rtype: T_NSEC, class: 1 | FLUSH, ttl: t, rdata: RData::Nsec(sv.fullname(), vec![0, 5, 0, 0, 0x80, 0, 0x40]) });
                            peer::response(recs, vec![])
                        }
                        Traffic::Flap { ty } => {
                            let sv = mk_svc(*ty, 1_000_007 + (*ty % 3) as u32); // (names of their own, per type: no overlap with the other floods, nor between a browsed and a foreign type)
                            if *ty % 3 < 2 && browsed.contains(&(*ty % 3)) {
                                needed = 4;
                                needed_for = *ty % 3;
                            }
                            ttl_ms = 120_000;
                            if i % 2 == 0 {
                                peer::response(sv.announcement(120, 120), vec![])
                            } else {
                                needed = 0;
                                peer::response(sv.announcement(0, 0), vec![])
                            }
                        }
                        Traffic::HostAddr { host, ttl } => {
                            let t = (*ttl).max(2);
                            ttl_ms = t as u64 * 1000;
                            let name = if *host < 2 { Name::from_escaped(HOSTS2[*host]) } else { Name::from_escaped(&format!("stranger{}.local.", seq)) };
                            if *host < 2 && searched.contains(host) {
                                needed = 1;
                                needed_for = 10 + *host;
                            }
                            peer::response(vec![peer::addr_rec(&name, addr_for(&case.ifs, 150 + (seq % 50) as u8), t, true)], vec![])
                        }
                        Traffic::Queries => {
                            let sv = mk_svc(seq as usize, seq);
                            if seq % 2 == 0 {
                                peer::query(0, vec![peer::q(&sv.fullname(), T_ANY), peer::q(&sv.host, T_A)], vec![sv.ptr(4500)], vec![])
                            } else {
                                peer::query(0, vec![peer::q(&sv.fullname(), T_ANY)], vec![], vec![sv.srv(120, false)])
                            }
                        }
                        Traffic::Hostile { seed } => {
                            use proptest::strategy::{Strategy, ValueTree};
                            use proptest::test_runner::{Config, RngAlgorithm, TestRng, TestRunner};
                            let mut bytes = [0u8; 32];
                            bytes[..8].copy_from_slice(&seed.to_le_bytes());
                            bytes[8..12].copy_from_slice(&seq.to_le_bytes());
                            let mut runner = TestRunner::new_with_rng(Config::default(), TestRng::from_seed(RngAlgorithm::ChaCha, &bytes));
                            match c01::strategy().new_tree(&mut runner) {
                                Ok(t) => t.current().bytes,
                                Err(_) => vec![0; 12],
                            }
                        }
                        Traffic::Subtypes { ty, ttl } => {
                            let sv = mk_svc(*ty, 2_000_003);
                            let t = (*ttl).max(2);
                            ttl_ms = t as u64 * 1000;
                            let mut n = Name(vec![format!("_s{seq}").into_bytes(), b"_sub".to_vec()]);
                            n.0.extend(sv.ty.0.iter().cloned());
                            peer::response(vec![Record { name: n, rtype: T_PTR, class: 1, ttl: t, rdata: RData::Ptr(sv.fullname()) }], vec![])
                        }
                    };
                    if needed == 0 {
                        unrelated_packets += 1;
                    } else {
                        needed_now.push((now + ttl_ms, needed, needed_for));
                    }
                    if let Ok(v) = mdns_sd::verif::codec::decode(&bytes, if_name(0), if_index(0)) {
                        if v.flags & QR != 0 {
                            let all: Vec<&mdns_sd::verif::codec::RecordView> = v.answers.iter().chain(v.authorities.iter()).chain(v.additionals.iter()).collect();
                            let longest = all.iter().map(|r| r.ttl.max(1) as u64 * 1000).max().unwrap_or(0);
                            copies_now.push((now + longest.min(u32::MAX as u64 * 1000), all.len() as u64));
                        }
                    }
                    // records of a datagram without a PTR answer (the recorded finding), as the crate's own decoder sees them
                    if let Ok(v) = mdns_sd::verif::codec::decode(&bytes, if_name(0), if_index(0)) {
                        let is_resp = v.flags & QR != 0;
                        if is_resp && !v.answers.iter().any(|r| r.rtype == T_PTR) {
                            let recs: Vec<&mdns_sd::verif::codec::RecordView> = v.answers.iter().chain(v.authorities.iter()).chain(v.additionals.iter()).filter(|r| [T_A, T_AAAA, T_SRV, T_TXT, T_NSEC, T_PTR].contains(&r.rtype)).collect();
                            let n_rec = recs.len() as u64;
                            let n_needed = needed.min(n_rec);
                            let longest = recs.iter().map(|r| r.ttl.max(1) as u64 * 1000).max().unwrap_or(0);
                            if n_rec > n_needed {
                                noptr_now.push((now + longest.min(u32::MAX as u64 * 1000), n_rec - n_needed));
                                max_ttl_ms = max_ttl_ms.max(longest.min(5_000_000));
                            }
                        }
                    }
                    max_ttl_ms = max_ttl_ms.max(ttl_ms);
                    dm.inject(if_index(0), s, bytes);
                    if *gap_ms > 0 {
                        w.advance(*gap_ms);
                    } else if i % 16 == 15 {
                        w.settle();
                    }
                }
                w.settle();
                let now = w.now;
                needed_now.retain(|x| x.0 > now);
                noptr_now.retain(|x| x.0 > now);
                let n: u64 = needed_now.iter().map(|x| x.1).sum();
                let np: u64 = noptr_now.iter().map(|x| x.1).sum();
                needed_peak = needed_peak.max(n);
                metric_checks += 1;
                copies_now.retain(|x| x.0 > now);
                let cp: u64 = copies_now.iter().map(|x| x.1).sum();
                probe(&mut w, &format!("after a flood of {count} x {traffic:?}"), n, np, cp, (browsed.len() + searched.len()) as u64, registered.len() as u64 * case.ifs.len() as u64 * 2, unrelated_packets, &mut worst, &mut soft, &mut soft2, &mut samples);
            }
            Op::Advance { ms } => w.advance(*ms),
        }
        if !w.daemons[di].alive() {
            break;
        }
    }
    let detail = |w: &World| format!("ops: {:?}\n--- history (tail) ---\n{}", case.ops, render_log(&w.daemons[di].log, true, 25));
    if !w.daemons[di].alive() {
        ctx.violation("C20/daemon-died", format!("{:?}\n{}", w.daemons[di].dead, detail(&w)));
        w.finish();
        return;
    }
    if let Some((sig, text)) = worst {
        ctx.violation(sig, format!("{text}\n{}", detail(&w)));
        w.finish();
        return;
    }
    // (the recorded finding does not end the judgement of the case)
    if let Some((sig, text)) = soft {
        ctx.violation(sig, format!("{text}\n{}", detail(&w)));
    }
    if let Some((sig, text)) = soft2 {
        ctx.violation(sig, format!("{text}\n{}", detail(&w)));
    }
    // ---- at rest: every search stopped, every TTL passed
    {
        let now = w.now;
        let dm = &mut w.daemons[di];
        dm.set_now(now);
        for t in browsed.iter() {
            let _ = dm.stop_browse(BROWSABLE[*t]);
        }
        for h in searched.iter() {
            // (a search that has a timeout is left to end by it)
            if !deadlines.contains_key(h) {
                let _ = dm.stop_resolve_hostname(HOSTS2[*h]);
            }
        }
    }
    w.settle();
    w.advance(max_ttl_ms.max(120_000) + 15_000);
    let now = w.now;
    let dm = &mut w.daemons[di];
    dm.set_now(now);
    let m1 = dm.metrics();
    w.advance(3_600_000);
    let now = w.now;
    let dm = &mut w.daemons[di];
    dm.set_now(now);
    let m2 = dm.metrics();
    let (Some(m1), Some(m2)): (Option<HashMap<String, i64>>, Option<HashMap<String, i64>>) = (m1, m2) else {
        ctx.violation("C20/harness/metrics", format!("get_metrics() gave nothing\n{}", detail(&w)));
        w.finish();
        return;
    };
    let left: Vec<String> = METRICS.iter().filter(|k| m1.get(**k).copied().unwrap_or(0) != 0).map(|k| format!("{k}={}", m1[*k])).collect();
    let left_total: i64 = METRICS.iter().map(|k| m1.get(*k).copied().unwrap_or(0)).sum();
    // (records from datagrams without a PTR answer whose TTL is longer than the wait: the recorded finding)
    let rest_time = w.now - 3_600_000;
    let long_lived: u64 = noptr_now.iter().filter(|x| x.0 > rest_time).map(|x| x.1).sum();
    if !left.is_empty() && (left_total <= long_lived as i64 || hostile_seen) {
        ctx.violation(
            "C20/cache-holds-unrequested-records/from-datagrams-without-a-ptr-answer",
            format!("at rest the metrics report {} : records from datagrams without a PTR answer whose TTL has not passed yet\n{}", left.join(", "), detail(&w)),
        );
    } else if !left.is_empty() {
        ctx.violation(
            "C20/records-left-after-every-ttl-passed",
            format!("all searches were stopped and {} s passed (every record's TTL and more), yet the metrics report {}\n{}", (max_ttl_ms.max(120_000) + 15_000) / 1000, left.join(", "), detail(&w)),
        );
        w.finish();
        return;
    }
    // timers: the periodic interface check, and what the registrations keep (nothing periodic)
    let t1 = m1.get("timer").copied().unwrap_or(0);
    let t2 = m2.get("timer").copied().unwrap_or(0);
    let allowed = 1 + if long_lived > 0 || hostile_seen { 6 * (long_lived as i64).max(left_total) } else { 0 };
    // timers of record copies whose TTL reaches beyond the wait stay in the heap even when the
    // records themselves are forgotten (stop_browse): stale, but not growing
    let far_copies: u64 = copies_now.iter().filter(|x| x.0 > rest_time).map(|x| x.1).sum();
    let stale_allowed = allowed + 4 * far_copies as i64;
    if t1 > allowed && (t2 <= allowed || (t1 <= stale_allowed && t2 <= t1)) {
        // stale timers of stopped searches and of superseded record copies stay until their time comes
        ctx.violation(
            "C20/timers-left-at-rest/stale-timers-until-their-time-comes",
            format!("at rest (no search, every TTL passed) the metrics report {t1} pending timers; an hour later {t2}: timers of stopped searches (their next retransmission, up to an hour ahead) and of forgotten records with long TTLs are not taken back\n{}", detail(&w)),
        );
    } else if t1 > allowed || t2 > t1.max(allowed) {
        ctx.violation(
            "C20/timers-left-at-rest",
            format!("at rest (no search, every TTL passed) the metrics report {t1} pending timers, an hour later {t2}; only the periodic interface check should remain\n{}", detail(&w)),
        );
        w.finish();
        return;
    }
    ctx.class_if(floods > 0, "flooded");
    ctx.class_if(unrelated_packets >= 100, ">=100-unrelated-datagrams");
    ctx.class_if(unrelated_packets >= 1000, ">=1000-unrelated-datagrams");
    ctx.class_if(needed_peak > 0, "traffic-for-an-open-search");
    ctx.class_if(!browsed.is_empty() || !searched.is_empty(), "searches-open-at-the-end");
    ctx.class_if(!registered.is_empty(), "registration-at-rest");
    ctx.count("unrelated_datagrams", unrelated_packets);
    ctx.count("metric_checks", metric_checks as u64);
    if floods > 0 {
        ctx.nontrivial(format!("f{} u{} n{} s{} r{}", floods.min(4), (unrelated_packets / 100).min(20), needed_peak.min(8), browsed.len() + searched.len(), registered.len()));
    }
    if ctx.want_sample {
        ctx.sample = Some(json!({"ops": format!("{:?}", case.ops).chars().take(500).collect::<String>(), "metric_samples": samples, "at_rest": {"timer": t1, "timer_an_hour_later": t2}}));
    }
    w.finish();
}

fn traffic() -> BoxedStrategy<Traffic> {
    let ttl = prop_oneof![Just(2u32), Just(10), Just(120), Just(4500), 2u32..300];
    prop_oneof![
        3 => (0usize..3, ttl.clone()).prop_map(|(ty, ttl)| Traffic::Announce { ty, ttl }),
        3 => ttl.clone().prop_map(|ttl| Traffic::NoPtr { ttl }),
        2 => (0usize..3).prop_map(|ty| Traffic::Flap { ty }),
        2 => (0usize..4, ttl.clone()).prop_map(|(host, ttl)| Traffic::HostAddr { host, ttl }),
        1 => Just(Traffic::Queries),
        2 => any::<u64>().prop_map(|seed| Traffic::Hostile { seed }),
        1 => (0usize..3, ttl.clone()).prop_map(|(ty, ttl)| Traffic::Subtypes { ty, ttl }),
        2 => ttl.prop_map(|ttl| Traffic::SubAnnounce { ttl }),
    ]
    .boxed()
}

pub fn strategy() -> BoxedStrategy<Case> {
    let op = prop_oneof![
        3 => (0usize..3).prop_map(|ty| Op::Browse { ty }),
        2 => (0usize..3).prop_map(|ty| Op::StopBrowse { ty }),
        2 => (0usize..2, prop::option::weighted(0.4, prop_oneof![Just(500u64), Just(5000)])).prop_map(|(host, timeout_ms)| Op::Resolve { host, timeout_ms }),
        1 => (0usize..2).prop_map(|host| Op::StopResolve { host }),
        1 => (0usize..2).prop_map(|inst| Op::Register { inst }),
        1 => (0usize..2).prop_map(|inst| Op::Unregister { inst }),
        8 => (traffic(), prop_oneof![3 => 1u32..20, 3 => 20u32..200, 1 => 200u32..1500], prop_oneof![3 => Just(0u64), 1 => Just(1), 1 => Just(50), 1 => Just(1000)]).prop_map(|(traffic, count, gap_ms)| Op::Flood { traffic, count, gap_ms }),
        3 => prop_oneof![Just(1000u64), Just(60_000), Just(3_600_000), 0u64..200_000].prop_map(|ms| Op::Advance { ms }),
    ];
    (iftable(2), prop::collection::vec(op, 1..9), prop::bool::weighted(0.5), 0usize..2)
        .prop_map(|(ifs, mut ops, early, ty)| {
            // half of the histories start with a search, so that much of the traffic meets one
            if early {
                ops.insert(0, Op::Browse { ty });
                ops.insert(1, Op::Resolve { host: ty, timeout_ms: None });
            }
            Case { ifs, ops }
        })
        .boxed()
}

pub fn run(tier: Tier) -> i32 {
    let mut agg = Agg::new("C20", tier);
    agg.assume("the sizes are the daemon's own: get_metrics() cached-ptr/srv/txt/addr/nsec/subtype and timer; 'needed' = records of datagrams that an open search accounts for (an announcement of a browsed type: its 4 records; an address of a searched host name), counted until their TTL or until the search is stopped");
    agg.assume("bounds: cached records <= needed records; pending timers <= 6 per needed record + 8 per search and per registration and interface family + 8; at rest (every search stopped, the longest TTL + 15 s passed) no cached records and one timer (the periodic interface check), not growing over another hour");
    run_regressions::<Case>(&mut agg, "traffic", &check);
    run_part(
        &mut agg,
        &Part {
            name: "traffic",
            rule: "1-8 operations: browses / host name searches / registrations started and stopped, floods of 1-1500 datagrams (announcements of browsed and never-browsed types with distinct instance names, SRV/TXT/A/NSEC of distinct names without a PTR, one instance flapping between announcement and goodbye, addresses of searched and of strange host names, queries and probes for distinct names, the C01 hostile datagram families, subtype PTRs of distinct subtypes; TTL 2 s..75 min; back to back or 1 ms..1 s apart) and pauses up to an hour; the metrics are read after every flood, after every stop_browse and at rest; non-trivial = a flood took place",
            cases: scale(tier.pick(2_500, 80_000)),
            max_shrink_iters: 300,
            strategy: &strategy,
            check: &check,
        },
    );
    agg.require_class("traffic:>=100-unrelated-datagrams", 250);
    agg.require_class("traffic:traffic-for-an-open-search", 150);
    agg.finish()
}

pub fn replay(file: &std::path::Path) -> i32 {
    if let Some(c) = replay_part::<Case>("C20", "traffic", file, 3, &check) {
        return c;
    }
    eprintln!("harness error: replay file does not belong to C20");
    2
}
