//! C03 - a resolved service only ever shows live data that was actually received (E3).

use crate::gen::*;
use crate::props::browser::*;
use crate::refdns::*;
use crate::runner::*;
use crate::sim::*;
use mdns_sd::{ScopedIp, ServiceEvent};
use proptest::prelude::*;
use serde_json::json;
use std::net::IpAddr;

pub fn check(case: &Case, ctx: &mut CaseCtx) {
    let run = match execute(case, 3) {
        Ok(r) => r,
        Err(e) => {
            ctx.violation("C03/harness/spawn", e);
            return;
        }
    };
    ctx.count("sim_steps", run.world.total_steps);
    if !common_failures("C03", case, &run, ctx) {
        judge(case, &run, ctx);
    }
    run.world.finish();
}

fn why_dead(e: &CEntry, t: u64) -> &'static str {
    if e.goodbye {
        "withdrawn-by-goodbye"
    } else if t >= e.expires_at && e.shortened {
        "displaced-by-cache-flush-or-verify"
    } else {
        "past-its-ttl"
    }
}

fn judge(case: &Case, run: &Run, ctx: &mut CaseCtx) {
    let d = &run.world.daemons[0];
    let mut violation: Option<(String, String)> = None;
    let mut resolved_events = 0u64;
    let mut hazard_events = 0u64;
    let mut shapes: Vec<String> = Vec::new();
    replay(case, &d.log, |_pos, e, upper, _lower| {
        if violation.is_some() {
            return;
        }
        let Ev::Svc { ev: ServiceEvent::ServiceResolved(r), .. } = &e.ev else { return };
        let t = e.t;
        resolved_events += 1;
        let mut fail = |sig: String, detail: String| {
            if violation.is_none() {
                violation = Some((sig, format!("at +{} ms: {}\n{detail}", t - T0, render_service_event(&ServiceEvent::ServiceResolved(r.clone())))));
            }
        };
        let Some((_, name)) = inst_by_plain(case, &r.fullname) else {
            fail("C03/resolved/unknown-instance".into(), "no responder in the scenario ever advertised this name".into());
            return;
        };
        if r.host.is_empty() || r.addresses.is_empty() {
            fail("C03/resolved/without-host-or-address".into(), String::new());
            return;
        }
        // SRV
        let srv_match = |e: &&CEntry| matches!(&e.rdata, RData::Srv { port, target, .. } if *port == r.port && target.to_plain().eq_ignore_ascii_case(&r.host));
        let live_srv = upper.srvs(&name).filter(srv_match).any(|e| e.possibly_live(t));
        if !live_srv {
            match upper.srvs(&name).filter(srv_match).last() {
                Some(dead) => fail(
                    format!("C03/resolved/srv/{}", why_dead(dead, t)),
                    format!("host/port come from an SRV received at +{} ms with TTL {} (expired/withdrawn at +{} ms)", dead.received_at - T0, dead.ttl, dead.expires_at - T0),
                ),
                None => fail("C03/resolved/srv/never-received".into(), "no SRV with that host and port was ever received for the instance".into()),
            }
            return;
        }
        let host = Name::from_escaped(&r.host);
        // addresses
        for a in r.addresses.iter() {
            let ip = a.to_ip_addr();
            let tags: Vec<u32> = match a {
                ScopedIp::V4(v4) => v4.interface_ids().iter().map(|i| i.index).collect(),
                ScopedIp::V6(v6) => vec![v6.scope_id().index],
                _ => vec![],
            };
            let is_ip = |e: &&CEntry| match (&e.rdata, ip) {
                (RData::A(x), IpAddr::V4(y)) => *x == y,
                (RData::Aaaa(x), IpAddr::V6(y)) => *x == y,
                _ => false,
            };
            if !upper.addrs(&host).filter(is_ip).any(|e| e.possibly_live(t)) {
                match upper.addrs(&host).filter(is_ip).last() {
                    Some(dead) => fail(
                        format!("C03/resolved/address/{}", why_dead(dead, t)),
                        format!("address {ip} comes from a record received at +{} ms with TTL {} (expired/withdrawn at +{} ms)", dead.received_at - T0, dead.ttl, dead.expires_at - T0),
                    ),
                    None => fail("C03/resolved/address/never-received".into(), format!("address {ip} was never received for host {}", r.host)),
                }
                return;
            }
            for tag in tags {
                if !upper.addrs(&host).filter(is_ip).any(|e| e.possibly_live(t) && e.if_index == tag) {
                    fail(
                        "C03/resolved/address/tagged-with-interface-it-was-not-received-on".into(),
                        format!("address {ip} is tagged with interface index {tag}, live copies were received on {:?}", upper.addrs(&host).filter(is_ip).filter(|e| e.possibly_live(t)).map(|e| e.if_index).collect::<Vec<_>>()),
                    );
                    return;
                }
            }
        }
        // TXT
        let props: Vec<TxtAttr> = r.txt_properties.iter().map(|p| (p.key().as_bytes().to_vec(), p.val().map(|v| v.to_vec()))).collect();
        if !props.is_empty() {
            let decodes = |e: &&CEntry| matches!(&e.rdata, RData::Txt(b) if txt_first_wins(&txt_decode(b, false)) == props || txt_first_wins(&txt_decode(b, true)) == props);
            if !upper.txts(&name).filter(decodes).any(|e| e.possibly_live(t)) {
                match upper.txts(&name).filter(decodes).last() {
                    Some(dead) => fail(
                        format!("C03/resolved/txt/{}", why_dead(dead, t)),
                        format!("TXT properties come from a record received at +{} ms with TTL {} (expired/withdrawn at +{} ms)", dead.received_at - T0, dead.ttl, dead.expires_at - T0),
                    ),
                    None => fail("C03/resolved/txt/never-received".into(), "no TXT record with these properties was ever received".into()),
                }
                return;
            }
        }
        // was the staleness hazard present?
        let relevant = upper
            .entries
            .iter()
            .filter(|e| e.name == name || e.name.eq_ignore_case(&host) || matches!(&e.rdata, RData::Ptr(n) if *n == name));
        let hazard = relevant.clone().any(|e| !e.possibly_live(t) || e.shortened);
        if hazard {
            hazard_events += 1;
            let kinds: Vec<&str> = relevant.filter(|e| !e.possibly_live(t) || e.shortened).map(|e| why_dead(e, t)).collect();
            let mut k: Vec<String> = kinds.iter().map(|s| s.to_string()).collect();
            k.sort();
            k.dedup();
            shapes.push(format!("{k:?} a{} txt{}", r.addresses.len(), props.len()));
        }
    });
    if let Some((sig, detail)) = violation {
        ctx.violation(sig, format!("{detail}\nops: {}\n--- history ---\n{}", ops_text(case), render_log(&d.log, true, 60)));
        return;
    }
    ctx.count("resolved_events", resolved_events);
    ctx.count("resolved_events_with_stale_record_around", hazard_events);
    ctx.class_if(resolved_events > 0, "some-ServiceResolved");
    ctx.class_if(hazard_events > 0, "resolved-after-a-record-expired-or-was-withdrawn-or-displaced");
    ctx.class_if(case.ifs.len() >= 2, ">=2-interfaces");
    ctx.class_if(case.ops.iter().any(|o| matches!(o, Op::Update { .. })), "update");
    if hazard_events > 0 {
        shapes.sort();
        shapes.dedup();
        ctx.nontrivial(format!("n{} {:?}", case.insts.len(), shapes.iter().take(3).collect::<Vec<_>>()));
    }
    if ctx.want_sample {
        ctx.sample = Some(json!({
            "scenario": ops_text(case).chars().take(900).collect::<String>(),
            "resolved_events": resolved_events,
            "history_tail": render_log(&d.log, true, 8).lines().map(|l| l.chars().take(220).collect::<String>()).collect::<Vec<_>>(),
        }));
    }
}

pub fn inst_strategy(foreign: bool) -> BoxedStrategy<InstDef> {
    (
        if foreign { (0usize..3).boxed() } else { (0usize..2).boxed() },
        prop_oneof![4 => simple_label(), 1 => "[A-Z][a-z]{1,4} [a-z]{1,4}"],
        0usize..NHOSTS,
        1u16..60000,
    )
        .prop_map(|(ty, label, host, port)| InstDef { ty, label, host, port })
        .boxed()
}

pub fn ttl_strategy() -> BoxedStrategy<u32> {
    prop_oneof![2 => Just(0u32), 1 => Just(1), 2 => Just(2), 2 => Just(3), 2 => Just(5), 2 => Just(10), 1 => Just(60), 2 => Just(120), 2 => Just(4500), 1 => 1u32..200].boxed()
}

pub fn recsel_strategy(ttl: BoxedStrategy<u32>) -> BoxedStrategy<RecSel> {
    (
        0usize..3,
        prop_oneof![3 => Just(Kind::Ptr), 3 => Just(Kind::Srv), 2 => Just(Kind::Txt), 2 => Just(Kind::Addr(0)), 1 => Just(Kind::Addr(1)), 1 => Just(Kind::Addr(2)), 1 => Just(Kind::Addr(3))],
        ttl,
        proptest::bool::weighted(0.9),
        prop_oneof![6 => Just(0u8), 1 => Just(1u8), 2 => Just(2u8)],
    )
        .prop_map(|(inst, kind, ttl, flush_as_usual, section)| RecSel {
            inst,
            kind,
            ttl,
            flush_as_usual,
            section,
        })
        .boxed()
}

/// A full, conventional announcement of one instance.
pub fn announcement(inst: usize, host_ttl: u32, other_ttl: u32, addrs: &[u8]) -> Vec<RecSel> {
    let mut v = vec![
        RecSel { inst, kind: Kind::Ptr, ttl: other_ttl, flush_as_usual: true, section: 0 },
        RecSel { inst, kind: Kind::Srv, ttl: host_ttl, flush_as_usual: true, section: 0 },
        RecSel { inst, kind: Kind::Txt, ttl: other_ttl, flush_as_usual: true, section: 0 },
    ];
    for a in addrs {
        v.push(RecSel { inst, kind: Kind::Addr(*a), ttl: host_ttl, flush_as_usual: true, section: 0 });
    }
    v
}

pub fn strategy() -> BoxedStrategy<Case> {
    let deliver = prop_oneof![
        // whole announcements (the common case on a real network)
        3 => (0usize..2, 0usize..3, ttl_strategy(), ttl_strategy(), proptest::collection::vec(0u8..4, 1..3), 1u8..3)
            .prop_map(|(k, inst, h, o, addrs, copies)| Op::Deliver { k, recs: announcement(inst, h, o, &addrs), copies }),
        // arbitrary subsets
        4 => (0usize..2, proptest::collection::vec(recsel_strategy(ttl_strategy()), 1..6), 1u8..3).prop_map(|(k, recs, copies)| Op::Deliver { k, recs, copies }),
    ];
    let op = prop_oneof![
        8 => deliver,
        2 => (0usize..3, 0u8..3).prop_map(|(inst, what)| Op::Update { inst, what }),
        8 => prop_oneof![Just(0u64), Just(500), Just(999), Just(1000), Just(1001), Just(1500), Just(2000), Just(3000), Just(5000), Just(10_000), Just(120_000), 0u64..12_000, 0u64..200_000].prop_map(|ms| Op::Advance { ms }),
        1 => (0usize..3, prop_oneof![Just(0u64), Just(1000), Just(3000), 0u64..12_000]).prop_map(|(inst, timeout_ms)| Op::Verify { inst, timeout_ms }),
        1 => (0usize..2).prop_map(|ty| Op::Rebrowse { ty }),
        1 => (0usize..2).prop_map(|ty| Op::StopStart { ty }),
        1 => (any::<bool>(), prop_oneof![Just(0u64), Just(100), Just(700)]).prop_map(|(on, delay_ms)| Op::Responder { on, delay_ms, mute: 0 }),
    ];
    (
        iftable(2),
        prop_oneof![3 => Just(vec![0usize]), 2 => Just(vec![0usize, 1])],
        proptest::bool::weighted(0.1),
        proptest::collection::vec(inst_strategy(false), 1..=3),
        proptest::collection::vec(op, 2..24),
        prop_oneof![Just(3_000u64), Just(15_000), Just(130_000)],
        proptest::bool::weighted(0.3),
    )
        .prop_map(|(ifs, browse, accept_unsolicited, mut insts, ops, tail_ms, forced_wakes)| {
            for i in 0..insts.len() {
                for j in 0..i {
                    if insts[i].label.to_lowercase() == insts[j].label.to_lowercase() && insts[i].ty == insts[j].ty {
                        insts[i].label = format!("{}{}", insts[i].label, i);
                    }
                }
            }
            Case {
                ifs,
                browse,
                accept_unsolicited,
                insts,
                ops,
                tail_ms,
                forced_wakes,
                resolve_hosts: vec![],
            }
        })
        .boxed()
}

pub fn run(tier: Tier) -> i32 {
    let mut agg = Agg::new("C03", tier);
    agg.assume("simulation: scripted responders only, exact wake-ups (plus forced wake-ups at model expiries in ~30 % of cases), clients drain their channels, interface check interval very large");
    agg.assume("'may be used' is judged against an upper bound of the cache: every record of every received datagram, each until its TTL runs out (TTL 0: withdrawn at once), cache-flush displacement one second after the flushing record; verify calls do not shorten the upper bound");
    run_regressions::<Case>(&mut agg, "histories", &check);
    run_part(
        &mut agg,
        &Part {
            name: "histories",
            rule: "sequences of response packets (whole announcements and arbitrary record subsets in any section, TTL 0..4500 s, compliant and non-compliant cache-flush bits, updates of port/TXT/host, goodbyes, duplicates, two interfaces, instances sharing hosts), time advances around TTL boundaries, verify, browse again, stop+browse, an optional responder answering the daemon's queries; every ServiceResolved is checked against the records that may still be used at that instant; \
                   non-trivial = a ServiceResolved emitted after some record of that instance or its host had expired, been withdrawn or been displaced",
            cases: scale(tier.pick(30_000, 900_000)),
            max_shrink_iters: 1000,
            strategy: &strategy,
            check: &check,
        },
    );
    agg.require_class("histories:some-ServiceResolved", 5000);
    agg.require_class("histories:resolved-after-a-record-expired-or-was-withdrawn-or-displaced", 1500);
    agg.finish()
}

pub fn replay_file(file: &std::path::Path) -> i32 {
    replay_part::<Case>("C03", "histories", file, 5, &check).unwrap_or_else(|| {
        eprintln!("harness error: replay file does not belong to C03");
        2
    })
}
