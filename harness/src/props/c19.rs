//! C19 - repeated queries back off: 1 s, 2 s, 4 s ... capped at one hour (E3).

use crate::gen::*;
use crate::props::c13::{self, ChanKind, Op, HOSTNAMES};
use crate::refdns::*;
use crate::runner::*;
use crate::sim::wire;
use crate::sim::*;
use mdns_sd::ServiceEvent;
use proptest::prelude::*;
use serde_json::json;
use std::collections::BTreeSet;

/// Query times of a search started at `t0`, up to (excluding) `end`.
fn schedule(t0: u64, end: u64) -> Vec<u64> {
    let mut v = Vec::new();
    let mut t = t0;
    let mut delay = 1u64;
    while t < end {
        v.push(t);
        t += delay * 1000;
        delay = (delay * 2).min(3600);
    }
    v
}

/// Refresh marks (80/85/90/95 %) of a record received at `r` with `ttl` seconds.
fn marks(r: u64, ttl: u32, all_four: bool) -> Vec<u64> {
    let ttl = if ttl == 0 { 1 } else { ttl } as u64;
    let pcts: &[u64] = if all_four { &[80, 85, 90, 95] } else { &[80] };
    pcts.iter().map(|p| r + ttl * p * 10).collect()
}

pub fn check(case: &c13::Case, ctx: &mut CaseCtx) {
    let run = match c13::execute(case, 19) {
        Ok(r) => r,
        Err(e) => {
            ctx.violation("C19/harness/spawn", e);
            return;
        }
    };
    ctx.count("sim_steps", run.world.total_steps);
    judge(case, &run, ctx);
    run.world.finish();
}

fn judge(case: &c13::Case, run: &c13::Run, ctx: &mut CaseCtx) {
    let d = &run.world.daemons[run.di];
    macro_rules! fail {
        ($sig:expr, $($arg:tt)*) => {{
            ctx.violation($sig.to_string(), format!("{}\n--- ops ---\n{}\n--- history ---\n{}", format!($($arg)*),
                case.ops.iter().map(|o| format!("{o:?}")).collect::<Vec<_>>().join("; "), render_log(&d.log, true, 60)));
            return;
        }};
    }
    if let Some(m) = &d.dead {
        fail!(format!("C19/daemon-died/{}", m.split(": ").next().unwrap_or("")), "daemon died: {m}");
    }
    if run.world.budget_exhausted {
        fail!("C19/harness/step-budget", "simulation step budget exhausted");
    }
    let sent = match wire::index(&d.log) {
        Ok(s) => s,
        Err(pos) => fail!("C19/wire/unparsable-packet", "packet at log position {pos} is rejected by the reference decoder"),
    };
    let horizon = d.log.last().map(|e| e.t).unwrap_or(T0) + 1;
    let time_at = |pos: usize| -> u64 { d.log.get(pos).map(|e| e.t).unwrap_or(horizon) };

    // received records: (log pos, time, record)
    let mut rx: Vec<(usize, u64, &Record)> = Vec::new();
    for (pos, e) in d.log.iter().enumerate() {
        if let Ev::Rx { msg: Some(m), .. } = &e.ev {
            if m.is_response() {
                for r in m.all_records() {
                    rx.push((pos, e.t, r));
                }
            }
        }
    }
    // the queries, one per (iteration, question)
    let mut seen: BTreeSet<(u64, Name, u16)> = BTreeSet::new();
    let mut queries: Vec<(usize, u64, u64, Name, u16)> = Vec::new(); // pos, iter, t, name, qtype
    for p in sent.iter().filter(|p| !p.m.is_response()) {
        for q in &p.m.questions {
            let key = (p.iter, q.name.lower(), q.qtype);
            if seen.insert(key) {
                queries.push((p.pos, p.iter, p.t, q.name.lower(), q.qtype));
            }
        }
    }

    // refresh marks that passed while only a cache-only browse was open are made up for when a
    // querying browse takes over (one mark per loop iteration, i.e. within a few ms of that call)
    let late_refresh = |t: u64, pos: usize| -> bool {
        run.browse_chans.iter().any(|c| matches!(c.kind, ChanKind::Browse { cache_only: true, .. }) && c.opened < pos)
            && (run.browse_chans.iter().any(|c| {
                matches!(c.kind, ChanKind::Browse { cache_only: false, .. }) && {
                    let to = time_at(c.opened);
                    t >= to && t <= to + 3
                }
            })
                // ... or when an answer has just connected the record to a querying browse (an SRV
                // of a browsed instance naming a host whose address only the cache-only browse held)
                || d.log[..pos].iter().rev().take_while(|e| e.t + 3 >= t).any(|e| matches!(&e.ev, Ev::Rx { msg: Some(m), .. } if m.is_response())))
    };
    let mut long_search = false;
    let mut reissued = false;
    let mut total_scheduled = 0u64;

    // ---- browse searches
    for ty in 0..TYPES.len() {
        let tyname = Name::from_escaped(TYPES[ty]).lower();
        let mut sched: BTreeSet<u64> = BTreeSet::new();
        let mut open_intervals: Vec<(usize, usize)> = Vec::new();
        for c in &run.browse_chans {
            let ChanKind::Browse { ty: t2, cache_only: false } = c.kind else { continue };
            if t2 != ty {
                continue;
            }
            let t0 = time_at(c.opened);
            let mut end_pos = usize::MAX;
            if let Some(s) = c.stopped {
                end_pos = end_pos.min(s.0);
            }
            if let Some(r) = c.replaced {
                end_pos = end_pos.min(r);
                reissued = true;
            }
            let end_t = if end_pos == usize::MAX { horizon } else { time_at(end_pos) };
            let s = schedule(t0, horizon);
            // a scheduled time counts while the search is open: its step comes before the
            // stop/replace call in the log
            let mut n = 0;
            for t in s {
                // (the interpreter lets everything due at an instant run before it makes the
                // next call, so a query due exactly when the stop is called still leaves)
                if t <= end_t {
                    sched.insert(t);
                    n += 1;
                }
            }
            if n >= 13 {
                long_search = true;
            }
            open_intervals.push((c.opened, end_pos));
        }
        total_scheduled += sched.len() as u64;
        // every query for (T, PTR) is scheduled or a refresh of a cached PTR of T
        for (pos, _, t, name, qtype) in queries.iter().filter(|q| q.3 == tyname && q.4 == T_PTR) {
            if sched.contains(t) {
                // must come from an open search at that log position too
                if open_intervals.iter().any(|(a, b)| pos >= a && pos < b) {
                    continue;
                }
            }
            // refresh mark of the latest copy of some PTR of this type
            let refresh_ok = {
                let mut ok = false;
                let mut latest: Vec<(&Record, u64, u32)> = Vec::new();
                for (rp, rt, r) in rx.iter().filter(|x| x.0 < *pos && x.2.rtype == T_PTR && x.2.name.lower() == tyname) {
                    let _ = rp;
                    if let Some(e) = latest.iter_mut().find(|e| e.0.rdata == r.rdata && e.0.class == r.class && e.0.name == r.name) {
                        *e = (r, *rt, r.ttl);
                    } else {
                        latest.push((r, *rt, r.ttl));
                    }
                }
                for (_, rt, ttl) in latest {
                    if marks(rt, ttl, true).contains(t) {
                        ok = true;
                    }
                    // marks that passed while only a cache-only browse held the type are made up
                    // for, one per loop iteration, when a querying browse takes over
                    let ttl_ms = ttl.max(1) as u64 * 1000;
                    if late_refresh(*t, *pos) && *t >= rt + ttl_ms / 100 * 80 && *t < rt + ttl_ms {
                        ok = true;
                    }
                }
                ok && open_intervals.iter().any(|(a, b)| pos >= a && pos < b)
            };
            if refresh_ok {
                continue;
            }
            let _ = (name, qtype);
            let after_rebrowse = run.browse_chans.iter().any(|c| matches!(c.kind, ChanKind::Browse { ty: t2, cache_only: false } if t2 == ty) && c.replaced.is_some_and(|r| r <= *pos));
            fail!(
                if after_rebrowse { "C19/browse/extra-query/old-schedule-after-browse-again" } else { "C19/browse/extra-query" },
                "PTR query for {} at +{} ms is neither on the back-off schedule {:?}... of an open browse nor a refresh of a cached PTR",
                TYPES[ty], t - T0, sched.iter().take(8).map(|x| x - T0).collect::<Vec<_>>());
        }
        // completeness
        for s in &sched {
            if !queries.iter().any(|q| q.3 == tyname && q.4 == T_PTR && q.2 == *s) {
                fail!("C19/browse/scheduled-query-missing", "browse of {}: no PTR query at +{} ms (schedule {:?}...)", TYPES[ty], s - T0, sched.iter().take(10).map(|x| x - T0).collect::<Vec<_>>());
            }
        }
    }
    // ---- hostname searches
    for host in 0..HOSTNAMES.len() {
        let hname = Name::from_escaped(HOSTNAMES[host]).lower();
        let mut sched: BTreeSet<u64> = BTreeSet::new();
        let mut open_intervals: Vec<(usize, usize, u64)> = Vec::new();
        for c in &run.host_chans {
            let ChanKind::Host { host: h2 } = c.kind else { continue };
            if h2 != host {
                continue;
            }
            let t0 = time_at(c.opened);
            let mut end_pos = usize::MAX;
            if let Some(s) = c.stopped {
                end_pos = end_pos.min(s.0);
            }
            let mut end_t = if end_pos == usize::MAX { horizon } else { time_at(end_pos) };
            if let Some(tmo) = c.timeout_at {
                end_t = end_t.min(tmo);
            }
            let mut n = 0;
            let stop_t = if end_pos == usize::MAX { horizon } else { time_at(end_pos) };
            for t in schedule(t0, horizon) {
                // explicit stop: inclusive (see above); timeout: the crate only schedules a
                // retransmission strictly before the timeout
                if t <= stop_t && c.timeout_at.is_none_or(|tmo| t < tmo || t == t0) {
                    sched.insert(t);
                    n += 1;
                }
            }
            if n >= 13 {
                long_search = true;
            }
            open_intervals.push((c.opened, end_pos, c.timeout_at.unwrap_or(u64::MAX).max(t0 + 1)));
        }
        total_scheduled += sched.len() as u64;
        for (pos, _, t, _, qtype) in queries.iter().filter(|q| q.3 == hname && (q.4 == T_A || q.4 == T_AAAA)) {
            let open = open_intervals.iter().any(|(a, b, et)| pos >= a && pos < b && t < et);
            if sched.contains(t) && open {
                continue;
            }
            // refresh at 80 % of the latest copy of an address record of this host
            let mut latest: Vec<(&Record, u64)> = Vec::new();
            for (_, rt, r) in rx.iter().filter(|x| x.0 < *pos && (x.2.rtype == T_A || x.2.rtype == T_AAAA) && x.2.name.lower() == hname) {
                // copies that differ in the letter case of the owner are separate cache entries
                if let Some(e) = latest.iter_mut().find(|e| e.0.rdata == r.rdata && e.0.name == r.name && e.0.class == r.class) {
                    *e = (r, *rt);
                } else {
                    latest.push((r, *rt));
                }
            }
            let refresh_ok = open && latest.iter().any(|(r, rt)| r.rtype == *qtype && marks(*rt, r.ttl, true).contains(t));
            if refresh_ok {
                continue;
            }
            fail!("C19/hostname/extra-query", "{} query for {} at +{} ms is neither on the back-off schedule {:?}... of an open search nor a refresh (80-95 %) of a cached address",
                type_name(*qtype), HOSTNAMES[host], t - T0, sched.iter().take(8).map(|x| x - T0).collect::<Vec<_>>());
        }
        for s in &sched {
            for qt in [T_A, T_AAAA] {
                if !queries.iter().any(|q| q.3 == hname && q.4 == qt && q.2 == *s) {
                    fail!("C19/hostname/scheduled-query-missing", "search for {}: no {} query at +{} ms (schedule {:?}...)", HOSTNAMES[host], type_name(qt), s - T0, sched.iter().take(10).map(|x| x - T0).collect::<Vec<_>>());
                }
            }
        }
    }
    // ---- everything else: follow-ups and refreshes for instances and their hosts
    let type_names: Vec<Name> = TYPES.iter().map(|t| Name::from_escaped(t).lower()).collect();
    let host_names: Vec<Name> = HOSTNAMES.iter().map(|t| Name::from_escaped(t).lower()).collect();
    let mut followups: Vec<(Name, u16, u64)> = Vec::new();
    for (pos, _, t, name, qtype) in queries.iter() {
        if type_names.contains(name) || host_names.contains(name) {
            continue;
        }
        // a refresh mark of the latest copy of a record owned by that name
        let mut latest: Vec<(&Record, u64)> = Vec::new();
        for (_, rt, r) in rx.iter().filter(|x| x.0 < *pos && x.2.name.lower() == *name) {
            if let Some(e) = latest.iter_mut().find(|e| e.0.rtype == r.rtype && e.0.rdata == r.rdata && e.0.name == r.name && e.0.class == r.class) {
                *e = (r, *rt);
            } else {
                latest.push((r, *rt));
            }
        }
        // A/AAAA are asked together when an address is refreshed, SRV/TXT/ANY when an
        // instance record is
        let type_ok = |r: &Record| {
            let addr = |t: u16| t == T_A || t == T_AAAA;
            let inst = |t: u16| t == T_SRV || t == T_TXT || t == T_ANY;
            *qtype == T_ANY || r.rtype == *qtype || (addr(r.rtype) && addr(*qtype)) || (inst(r.rtype) && inst(*qtype))
        };
        if latest.iter().any(|(r, rt)| type_ok(r) && marks(*rt, r.ttl, true).contains(t)) {
            continue;
        }
        if late_refresh(*t, *pos) && latest.iter().any(|(r, rt)| type_ok(r) && *t >= rt + r.ttl.max(1) as u64 * 800 && *t < rt + r.ttl.max(1) as u64 * 1000) {
            continue;
        }
        // follow-up window: within 1500 ms after a record naming it (PTR target / SRV target / owner) arrived,
        // or after the instance was (re)reported found
        let named_at: Vec<u64> = rx
            .iter()
            .filter(|x| x.0 < *pos && (x.2.name.lower() == *name || wire::ptr_target(x.2).is_some_and(|n| n.lower() == *name) || wire::srv_of(x.2).is_some_and(|(_, h)| h.lower() == *name)))
            .map(|x| x.1)
            .chain(d.log[..*pos].iter().filter_map(|e| match &e.ev {
                Ev::Svc { ev: ServiceEvent::ServiceFound(_, n), .. } if Name::from_escaped(n).lower() == *name || true => Some(e.t),
                _ => None,
            }))
            .collect();
        // ... or after such a record ran out (the instance is then resolved again)
        let expired_at: Vec<u64> = rx
            .iter()
            .filter(|x| x.0 < *pos && (x.2.name.lower() == *name || wire::srv_of(x.2).is_some_and(|(_, h)| h.lower() == *name)))
            .map(|x| x.1 + (x.2.ttl.max(1) as u64) * 1000)
            .collect();
        if named_at.iter().chain(expired_at.iter()).any(|f| *t > *f && *t <= *f + 2000) {
            followups.push((name.clone(), *qtype, *t));
            continue;
        }
        fail!("C19/other/extra-query", "{} query for {} at +{} ms is neither a refresh of a cached record nor a follow-up for a newly found instance", type_name(*qtype), name.to_escaped(), t - T0);
    }
    // at most three follow-ups per question within any 2 s
    for (name, qtype, t) in &followups {
        let n = followups.iter().filter(|f| f.0 == *name && f.1 == *qtype && f.2 >= *t && f.2 < *t + 2000).count();
        // (a host shared by several unresolved instances is asked for by each of them)
        let sharers: BTreeSet<Name> = rx.iter().filter(|x| wire::srv_of(x.2).is_some_and(|(_, h)| h.lower() == *name)).map(|x| x.2.name.lower()).collect();
        // (an instance reported found once more - to the channel of a browse that was issued again
        // after a cache-only browse had ended the earlier chain - is newly found once more)
        let found_again = d
            .log
            .iter()
            .filter(|e| e.t + 2000 > *t && e.t < *t + 2000)
            .filter(|e| matches!(&e.ev, Ev::Svc { ev: ServiceEvent::ServiceFound(_, n2), .. } if Name::from_escaped(n2).lower() == *name || sharers.contains(&Name::from_escaped(n2).lower())))
            .count();
        if n > 3 * sharers.len().max(1) * found_again.max(1) {
            fail!("C19/other/more-than-three-follow-ups", "{} follow-up queries for {} {} within 2 s from +{} ms", n, name.to_escaped(), type_name(*qtype), t - T0);
        }
    }
    // ... and at most three tries (moments with follow-up questions about the instance or the
    // host of its SRV) while an instance stays found and unresolved: the chain is not started
    // again by later records of the same instance
    let mut periods_judged = 0u32;
    {
        let found: Vec<(usize, u64, Name)> = d
            .log
            .iter()
            .enumerate()
            .filter_map(|(p, e)| match &e.ev {
                Ev::Svc { ev: ServiceEvent::ServiceFound(_, n), .. } => Some((p, e.t, Name::from_escaped(n).lower())),
                _ => None,
            })
            .collect();
        for (p0, t0, inst) in &found {
            // the period ends with the next event about the instance, a stop / new browse, or the end
            let end = d.log[*p0 + 1..]
                .iter()
                .find_map(|e| match &e.ev {
                    Ev::Svc { ev: ServiceEvent::ServiceResolved(r), .. } if Name::from_escaped(&r.fullname).lower() == *inst => Some(e.t),
                    Ev::Svc { ev: ServiceEvent::ServiceRemoved(_, n), .. } | Ev::Svc { ev: ServiceEvent::ServiceFound(_, n), .. } if Name::from_escaped(n).lower() == *inst => Some(e.t),
                    Ev::Api(a) if a.starts_with("stop_browse") || a.starts_with("browse") || a.starts_with("shutdown") => Some(e.t),
                    _ => None,
                })
                .unwrap_or(u64::MAX);
            // (host questions count only where no other instance shares the host)
            let hosts: Vec<Name> = rx
                .iter()
                .filter(|x| x.2.name.lower() == *inst)
                .filter_map(|x| wire::srv_of(x.2).map(|(_, h)| h.lower()))
                .filter(|h| !rx.iter().any(|y| y.2.name.lower() != *inst && wire::srv_of(y.2).is_some_and(|(_, h2)| h2.lower() == *h)))
                .collect();
            let mut times: Vec<u64> = followups.iter().filter(|f| f.2 > *t0 && f.2 <= end && (f.0 == *inst || hosts.contains(&f.0))).map(|f| f.2).collect();
            times.sort();
            times.dedup();
            if end > *t0 + 1600 {
                periods_judged += 1;
            }
            if times.len() > 3 {
                fail!(
                    "C19/other/follow-up-chain-started-again",
                    "{} was reported found at +{} ms and stayed unresolved; follow-up questions about it left at {:?} (+ms): {} tries instead of at most three",
                    inst.to_escaped(),
                    t0 - T0,
                    times.iter().map(|x| x - T0).collect::<Vec<_>>(),
                    times.len()
                );
            }
        }
    }
    ctx.class_if(periods_judged > 0, "unresolved-instance-observed->1.6s");
    ctx.class_if(long_search, "search-through->=12-retransmissions");
    ctx.class_if(reissued, "browse-again-mid-schedule");
    ctx.class_if(run.host_chans.iter().any(|c| c.timeout_at.is_some()), "hostname-search-with-timeout");
    ctx.class_if(!followups.is_empty(), "follow-up-queries");
    ctx.count("scheduled_queries", total_scheduled);
    if long_search || reissued {
        ctx.nontrivial(format!(
            "b{} h{} long{} re{} stops{} q{}",
            run.browse_chans.len().min(5),
            run.host_chans.len().min(4),
            long_search,
            reissued,
            run.browse_chans.iter().filter(|c| c.stopped.is_some()).count().min(3),
            (queries.len() / 10).min(20)
        ));
    }
    if ctx.want_sample {
        ctx.sample = Some(json!({
            "ops": case.ops.iter().map(|o| format!("{o:?}")).collect::<Vec<_>>(),
            "tail_ms": case.tail_ms,
            "query_times_s": queries.iter().take(40).map(|q| format!("{} {} +{}s", q.3.to_escaped(), type_name(q.4), (q.2 - T0) / 1000)).collect::<Vec<_>>(),
        }));
    }
}

pub fn strategy() -> BoxedStrategy<c13::Case> {
    let op = prop_oneof![
        5 => (0usize..3).prop_map(|ty| Op::Browse { ty }),
        2 => (0usize..3).prop_map(|ty| Op::StopBrowse { ty }),
        1 => (0usize..3).prop_map(|ty| Op::BrowseCache { ty }),
        3 => (0usize..3, 0u8..4, proptest::option::weighted(0.3, prop_oneof![Just(500u64), Just(5000), Just(1000), Just(3000), Just(7000), Just(15_000), 1u64..400_000])).prop_map(|(host, case_var, timeout_ms)| Op::Resolve { host, case_var, timeout_ms }),
        1 => (0usize..3, 0u8..4).prop_map(|(host, case_var)| Op::StopResolve { host, case_var }),
        3 => (0usize..3, 0usize..3, prop_oneof![Just(120u32), Just(4500), Just(10), 2u32..5000]).prop_map(|(ty, inst, ttl)| Op::Announce { ty, inst, ttl, part: 0 }),
        2 => (0usize..3, 0usize..3, prop_oneof![Just(120u32), Just(4500), 20u32..5000], 1u8..4).prop_map(|(ty, inst, ttl, part)| Op::Announce { ty, inst, ttl, part }),
        1 => (0usize..3, 0usize..3).prop_map(|(ty, inst)| Op::Goodbye { ty, inst }),
        2 => (0usize..3, 0u8..4, prop_oneof![Just(120u32), 2u32..5000]).prop_map(|(host, case_var, ttl)| Op::HostAddr { host, case_var, ttl }),
        6 => prop_oneof![Just(0u64), Just(1500), Just(10_000), Just(100_000), 0u64..5000, 0u64..3_000_000, 0u64..40_000_000].prop_map(|ms| Op::Advance { ms }),
    ];
    (
        iftable(2),
        proptest::collection::vec(op, 1..14),
        prop_oneof![Just(86_400_000u64), Just(200_000_000), Just(20_000_000), 1_000_000u64..260_000_000],
    )
        .prop_map(|(ifs, mut ops, tail_ms)| {
            if !ops.iter().any(|o| matches!(o, Op::Browse { .. } | Op::Resolve { .. })) {
                ops.insert(0, Op::Browse { ty: 0 });
            }
            c13::Case {
                ifs,
                ops,
                tail_ms,
                accept_unsolicited: false,
            }
        })
        .boxed()
}

pub fn run(tier: Tier) -> i32 {
    let mut agg = Agg::new("C19", tier);
    agg.assume("simulation: silent network except scripted responders, exact wake-ups, interface check interval set very large, no interface changes, no verify calls");
    agg.assume("a follow-up is any query for an instance or its host within 2 s after a record naming it arrived or an instance was reported found; at most three per question in 2 s");
    agg.assume("two hostname searches for one name are never open at the same time (semantics not stated)");
    run_regressions::<c13::Case>(&mut agg, "searches", &check);
    run_part(
        &mut agg,
        &Part {
            name: "searches",
            rule: "1-3 browses and 0-3 hostname searches started / stopped / re-issued at generated times, with and without responders (announcements with TTL 2..5000 s, goodbyes, address answers), observed over virtual horizons of hours to 3 days; every query is attributed to the back-off schedule of an open search, a refresh mark of a cached record, or a follow-up; every scheduled time must carry its query; \
                   non-trivial = a search observed through >=12 retransmissions (past the one-hour cap) or re-issued mid-schedule",
            cases: scale(tier.pick(24_000, 400_000)),
            max_shrink_iters: 600,
            strategy: &strategy,
            check: &check,
        },
    );
    agg.require_class("searches:search-through->=12-retransmissions", 2000);
    agg.require_class("searches:browse-again-mid-schedule", 300);
    agg.finish()
}

pub fn replay(file: &std::path::Path) -> i32 {
    replay_part::<c13::Case>("C19", "searches", file, 5, &check).unwrap_or_else(|| {
        eprintln!("harness error: replay file does not belong to C19");
        2
    })
}
