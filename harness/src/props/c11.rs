//! C11 - records live for their TTL, refresh at 80/85/90/95 %, obey cache-flush (E2 + E3).

use crate::gen::*;
use crate::props::browser::{self as br, Kind, Op as BOp, RecSel};
use crate::props::c03::announcement;
use crate::refdns::*;
use crate::runner::*;
use crate::sim::wire;
use crate::sim::*;
use mdns_sd::verif::codec::{RDataSpec, RecordSpec};
use mdns_sd::verif::component::{Cache, Rec};
use mdns_sd::verif::{set_thread_clock, SimIf};
use mdns_sd::ServiceEvent;
use proptest::prelude::*;
use serde::{Deserialize, Serialize};
use serde_json::json;

const T: u64 = 1_700_000_000_000;

// ---------------------------------------------------------------------------------------------
// (a) E2: one record's life: expiry and refresh marks
// ---------------------------------------------------------------------------------------------

#[derive(Clone, Debug, Serialize, Deserialize)]
pub struct LifeCase {
    pub ttl: u32,
    /// observation times as parts-per-million of the lifetime (sorted by the check), plus offsets
    pub obs: Vec<(u32, i8)>,
    /// a fresh copy arrives after this many observations
    pub reset_after: Option<usize>,
}

fn spec(ttl: u32) -> RecordSpec {
    RecordSpec {
        name: "x._http._tcp.local.".into(),
        class: 0x8001,
        ttl,
        rdata: RDataSpec::Srv {
            priority: 0,
            weight: 0,
            port: 80,
            host: "h.local.".into(),
        },
        now: 0,
    }
}

fn check_life(c: &LifeCase, ctx: &mut CaseCtx) {
    let r = std::panic::catch_unwind(|| life_inner(c));
    set_thread_clock(None);
    match r {
        Err(_) => {
            let msg = mdns_sd::verif::take_last_panic().unwrap_or_default();
            ctx.violation(format!("C11/record/panic/{}", msg.split(": ").next().unwrap_or("")), format!("{c:?}: {msg}"));
        }
        Ok(Err((sig, detail))) => ctx.violation(sig, format!("{c:?}: {detail}")),
        Ok(Ok((crossed, skipped))) => {
            ctx.class_if(crossed >= 2, ">=2-marks-crossed");
            ctx.class_if(skipped, "observation-skips-a-mark");
            ctx.class_if(c.reset_after.is_some(), "fresh-copy");
            if crossed >= 2 {
                ctx.nontrivial(format!("ttl{} crossed{} skipped{} reset{}", c.ttl.min(50), crossed, skipped, c.reset_after.is_some()));
            }
            if ctx.want_sample {
                ctx.sample = Some(json!({"case": format!("{c:?}"), "marks_crossed": crossed}));
            }
        }
    }
}

fn life_inner(c: &LifeCase) -> Result<(u32, bool), (String, String)> {
    let life = c.ttl as u64 * 1000;
    set_thread_clock(Some(T));
    let mut rec = Rec::new(&spec(c.ttl));
    let v = rec.view();
    if v.created != T || v.expires != T + life {
        return Err(("C11/record/created-or-expiry".into(), format!("created {} expires {}", v.created, v.expires)));
    }
    let mut base = T;
    let marks = |base: u64| -> [u64; 4] { [80u64, 85, 90, 95].map(|p| base + c.ttl as u64 * p * 10) };
    // expiry predicate at the boundaries
    for now in [T, T + 1, T + life - 1, T + life, T + life + 1, marks(T)[0] - 1, marks(T)[0], marks(T)[3] + 1] {
        let want = now >= T + life;
        if rec.is_expired(now) != want {
            return Err(("C11/record/is-expired-boundary".into(), format!("is_expired({}) = {} (lifetime {} ms)", now - T, !want, life)));
        }
    }
    // observation sequence
    let mut times: Vec<u64> = c.obs.iter().map(|(ppm, off)| (T + (life as u128 * *ppm as u128 / 1_000_000) as u64).saturating_add_signed(*off as i64)).collect();
    times.sort();
    let mut positives_per_mark = [0u32; 4];
    let mut crossed = 0u32;
    let mut skipped = false;
    let mut positives = 0u32;
    let mut last_pos_mark: Option<usize> = None;
    for (i, now) in times.iter().enumerate() {
        if c.reset_after == Some(i) {
            // a fresh copy of the record arrives now
            set_thread_clock(Some(*now));
            let fresh = Rec::new(&spec(c.ttl));
            rec.reset_ttl(&fresh);
            base = *now;
            positives_per_mark = [0; 4];
            positives = 0;
            last_pos_mark = None;
            let v = rec.view();
            if v.expires != base + life || v.created != base {
                return Err(("C11/record/fresh-copy-does-not-restart-lifetime".into(), format!("after reset at +{}: created +{} expires +{}", now - T, v.created - T, v.expires - T)));
            }
            continue;
        }
        let m = marks(base);
        let due = rec.refresh_maybe(*now);
        let expired = *now >= base + life;
        if due && expired {
            return Err(("C11/refresh/after-expiry".into(), format!("refresh at +{} ms, expiry +{} ms", now - base, life)));
        }
        // how many marks have passed by `now`
        let passed = m.iter().filter(|x| **x <= *now).count();
        if due {
            positives += 1;
            if positives as usize > passed {
                return Err(("C11/refresh/before-its-mark".into(), format!("positive #{positives} at +{} ms but only {passed} mark(s) have passed (marks {:?})", now - base, m.map(|x| x - base))));
            }
            if positives > 4 {
                return Err(("C11/refresh/more-than-four".into(), format!("{positives} refreshes in one lifetime")));
            }
            let idx = positives as usize - 1;
            positives_per_mark[idx] += 1;
            if passed > idx + 1 {
                skipped = true;
            }
            last_pos_mark = Some(idx);
            crossed = crossed.max(positives);
        } else if !expired && passed > positives as usize && c.ttl > 1 {
            // a mark has passed that was not yet answered for: the record must ask
            return Err(("C11/refresh/mark-passed-without-refresh".into(), format!("at +{} ms {passed} mark(s) have passed (marks {:?}) but only {positives} refresh(es) were due so far", now - base, m.map(|x| x - base))));
        }
    }
    let _ = (positives_per_mark, last_pos_mark);
    Ok((crossed, skipped))
}

fn life_strategy(max_ttl: u32) -> BoxedStrategy<LifeCase> {
    let ppm = prop_oneof![
        4 => 0u32..1_100_000,
        2 => prop_oneof![Just(800_000u32), Just(850_000), Just(900_000), Just(950_000), Just(1_000_000)],
        2 => 780_000u32..1_010_000,
    ];
    (
        prop_oneof![6 => 1u32..=max_ttl, 1 => Just(120u32), 1 => Just(4500), 1 => prop_oneof![Just(u32::MAX), Just(1u32 << 31), Just(u32::MAX / 1000), any::<u32>()]],
        proptest::collection::vec((ppm, prop_oneof![Just(0i8), Just(-1), Just(1), any::<i8>()]), 1..9),
        proptest::option::weighted(0.25, 0usize..8),
    )
        .prop_map(|(ttl, obs, reset_after)| LifeCase { ttl: ttl.max(1), obs, reset_after })
        .boxed()
}

// exhaustive: every TTL 1..=N, observations exactly at and around every mark
fn life_enumerated(i: u64) -> LifeCase {
    let ttl = (i / 4 + 1) as u32;
    let variant = i % 4;
    let obs: Vec<(u32, i8)> = match variant {
        // every mark exactly, then expiry
        0 => vec![(800_000, 0), (850_000, 0), (900_000, 0), (950_000, 0), (1_000_000, 0)],
        // one ms before each mark, then one after the last, then one before expiry
        1 => vec![(800_000, -1), (850_000, -1), (900_000, -1), (950_000, -1), (950_000, 1), (1_000_000, -1)],
        // skipping: first look at 92 %, then 96 %, 97 %, 98 %, 99 %
        2 => vec![(920_000, 0), (960_000, 0), (970_000, 0), (980_000, 0), (990_000, 0), (1_000_000, 1)],
        // early looks only, then after expiry
        _ => vec![(0, 0), (500_000, 0), (799_000, 0), (1_000_000, 0), (1_050_000, 0)],
    };
    LifeCase { ttl, obs, reset_after: None }
}

// ---------------------------------------------------------------------------------------------
// (b) E2: cache-flush on pairs of records
// ---------------------------------------------------------------------------------------------

#[derive(Clone, Debug, Serialize, Deserialize)]
pub struct FlushCase {
    /// 0 SRV, 1 TXT, 2 A, 3 AAAA, 4 PTR
    pub kind: u8,
    pub old_ttl: u32,
    pub new_ttl: u32,
    /// age of the old record when the new one arrives (ms)
    pub age_ms: u64,
    pub new_has_flush_bit: bool,
    pub same_name: bool,
    pub same_class: bool,
    pub same_interface: bool,
    pub same_rdata: bool,
    /// a third record of the same burst arrives `burst_gap_ms` after the new one, with the flush bit
    pub burst_gap_ms: Option<u64>,
}

fn flush_rec(kind: u8, name_alt: bool, class_alt: bool, flush: bool, ttl: u32, rdata_alt: u8, if_alt: bool) -> (Rec, SimIf) {
    let class = (if class_alt { 3 } else { 1 }) | if flush { 0x8000 } else { 0 };
    let inst = if name_alt { "other._http._tcp.local." } else { "inst._http._tcp.local." };
    let host = if name_alt { "g.local." } else { "h.local." };
    let intf = if if_alt {
        SimIf::new("eth1", 3, "192.168.11.1".parse().unwrap(), 24)
    } else {
        SimIf::new("eth0", 2, "192.168.10.1".parse().unwrap(), 24)
    };
    let rec = match kind {
        0 => Rec::new(&RecordSpec {
            name: inst.into(),
            class,
            ttl,
            rdata: RDataSpec::Srv {
                priority: 0,
                weight: 0,
                port: 80 + rdata_alt as u16,
                host: "h.local.".into(),
            },
            now: 0,
        }),
        1 => Rec::new(&RecordSpec {
            name: inst.into(),
            class,
            ttl,
            rdata: RDataSpec::Txt(vec![1, b'a' + rdata_alt]),
            now: 0,
        }),
        2 => Rec::new_addr(host, class, ttl, format!("10.0.0.{}", 1 + rdata_alt).parse().unwrap(), &intf.name, intf.index),
        3 => Rec::new_addr(host, class, ttl, format!("fd00::{}", 1 + rdata_alt).parse().unwrap(), &intf.name, intf.index),
        _ => Rec::new(&RecordSpec {
            name: if name_alt { "_ipp._tcp.local." } else { "_http._tcp.local." }.into(),
            class,
            ttl,
            rdata: RDataSpec::Ptr(format!("i{rdata_alt}._http._tcp.local.")),
            now: 0,
        }),
    };
    (rec, intf)
}

fn check_flush(c: &FlushCase, ctx: &mut CaseCtx) {
    let r = std::panic::catch_unwind(|| flush_inner(c));
    set_thread_clock(None);
    match r {
        Err(_) => {
            let msg = mdns_sd::verif::take_last_panic().unwrap_or_default();
            ctx.violation(format!("C11/flush/panic/{}", msg.split(": ").next().unwrap_or("")), format!("{c:?}: {msg}"));
        }
        Ok(Err((sig, detail))) => ctx.violation(sig, format!("{c:?}: {detail}")),
        Ok(Ok(flushed)) => {
            let near = (c.age_ms as i64 - 1000).abs() <= 10;
            ctx.class_if(near, "age-within-10ms-of-1s");
            ctx.class_if(flushed, "old-record-flushed");
            ctx.class_if(c.burst_gap_ms.is_some(), "burst");
            if near || flushed {
                ctx.nontrivial(format!("k{} near{} fl{} n{} c{} i{} r{} b{:?}", c.kind, near, flushed, c.same_name, c.same_class, c.same_interface, c.same_rdata, c.burst_gap_ms.map(|g| g / 500)));
            }
            if ctx.want_sample {
                ctx.sample = Some(json!({"case": format!("{c:?}"), "old_record_expiry_moved_to_1s_later": flushed}));
            }
        }
    }
}

fn flush_inner(c: &FlushCase) -> Result<bool, (String, String)> {
    let mut cache = Cache::new();
    let is_addr = c.kind == 2 || c.kind == 3;
    if c.old_ttl <= 1 {
        // not kept in the first place (see below: what a goodbye for an unknown record looks like)
        return Ok(false);
    }
    set_thread_clock(Some(T));
    let (old, intf_old) = flush_rec(c.kind, false, false, true, c.old_ttl, 0, false);
    cache.add_or_update(&intf_old, old, true);
    let t_new = T + c.age_ms;
    set_thread_clock(Some(t_new));
    let (new, intf_new) = flush_rec(c.kind, !c.same_name, !c.same_class, c.new_has_flush_bit, c.new_ttl, if c.same_rdata { 0 } else { 1 }, is_addr && !c.same_interface);
    let out = cache.add_or_update(&intf_new, new, true);
    let lookup = |cache: &Cache| -> Vec<mdns_sd::verif::component::CachedView> {
        match c.kind {
            0 => cache.get_srv("inst._http._tcp.local."),
            1 => cache.get_txt("inst._http._tcp.local."),
            2 | 3 => cache.get_addr("h.local."),
            _ => cache.get_ptr("_http._tcp.local."),
        }
    };
    let old_expiry_orig = T + c.old_ttl as u64 * 1000;
    let views = lookup(&cache);
    // the old record: created at T (unless the new one was an identical copy, which restarts it)
    let identical = c.same_name && c.same_class && c.same_rdata && c.new_has_flush_bit && (!is_addr || c.same_interface);
    // which view is which: by class, cache-flush bit and RDATA variant
    use mdns_sd::verif::codec::RDataView;
    let rdata_alt = |v: &mdns_sd::verif::component::CachedView| -> u8 {
        match &v.rec.rdata {
            RDataView::Srv { port, .. } => (*port - 80) as u8,
            RDataView::Txt(t) => t[1] - b'a',
            RDataView::A(a) => a.octets()[3] - 1,
            RDataView::Aaaa(a) => (a.segments()[7] - 1) as u8,
            RDataView::Ptr(p) => p.as_bytes()[1] - b'0',
            _ => 9,
        }
    };
    let is_old = |v: &&mdns_sd::verif::component::CachedView| v.rec.class == 1 && v.rec.cache_flush && rdata_alt(v) == 0 && (!is_addr || v.src_if_index == 2);
    let new_alt = if c.same_rdata { 0 } else { 1 };
    let is_new = |v: &&mdns_sd::verif::component::CachedView| {
        v.rec.class == (if c.same_class { 1 } else { 3 }) && v.rec.cache_flush == c.new_has_flush_bit && rdata_alt(v) == new_alt && (!is_addr || v.src_if_index == if c.same_interface { 2 } else { 3 })
    };
    let old_view = views.iter().find(is_old);
    let old_alive_at_arrival = t_new < old_expiry_orig;
    let should_flush = c.new_has_flush_bit && c.same_name && c.same_class && (!is_addr || c.same_interface) && c.age_ms > 1000 && old_expiry_orig > t_new + 1000 && !identical;
    let mut flushed = false;
    if identical {
        // a fresh copy: lifetime restarts from the new TTL
        let v = views.iter().find(is_old);
        match v {
            Some(v) if v.rec.created == t_new && v.rec.expires == t_new + c.new_ttl as u64 * 1000 => {}
            other => return Err(("C11/flush/identical-copy-does-not-restart".into(), format!("views {other:?}"))),
        }
    } else if let Some(ov) = old_view {
        if should_flush {
            if ov.rec.expires != t_new + 1000 {
                return Err(("C11/flush/old-record-not-expired-one-second-later".into(), format!("old record expires at +{} ms, flushing record arrived at +{} ms", ov.rec.expires - T, c.age_ms)));
            }
            if !out.timers.contains(&(t_new + 1000)) {
                return Err(("C11/flush/no-timer-for-flushed-record".into(), format!("timers {:?}", out.timers)));
            }
            flushed = true;
        } else if c.age_ms != 1000 && old_alive_at_arrival && old_expiry_orig != t_new + 1000 {
            // (at exactly one second either verdict is accepted)
            if ov.rec.expires != old_expiry_orig {
                let why = if !c.new_has_flush_bit {
                    "without-flush-bit"
                } else if !c.same_name {
                    "other-name"
                } else if !c.same_class {
                    "other-class"
                } else if is_addr && !c.same_interface {
                    "other-interface"
                } else if c.age_ms < 1000 {
                    "younger-than-1s"
                } else {
                    "other"
                };
                return Err((format!("C11/flush/old-record-cut-short/{why}"), format!("old record now expires at +{} ms instead of +{} ms", ov.rec.expires - T, old_expiry_orig - T)));
            }
        }
    } else if c.same_name && old_alive_at_arrival {
        return Err(("C11/flush/old-record-vanished".into(), format!("views {views:?}")));
    }
    // the new record keeps its own TTL
    if c.same_name && !identical {
        match views.iter().find(is_new) {
            Some(v) if v.rec.created == t_new && v.rec.expires == t_new + c.new_ttl as u64 * 1000 => {}
            // a record with one second to live that is not in the cache is what a goodbye
            // (TTL 0) for an unknown record looks like after decoding: it is not kept
            None if c.new_ttl <= 1 => {}
            other => return Err(("C11/flush/new-record-lifetime".into(), format!("new record view {other:?}"))),
        }
    }
    // a third record of the same burst (younger than one second relative to the new one) must not cut the new one short
    if let Some(gap) = c.burst_gap_ms {
        let t3 = t_new + gap;
        set_thread_clock(Some(t3));
        let (third, intf3) = flush_rec(c.kind, !c.same_name, !c.same_class, true, c.new_ttl, 2, is_addr && !c.same_interface);
        cache.add_or_update(&intf3, third, true);
        let views = if c.same_name { lookup(&cache) } else { Vec::new() };
        if let Some(v) = views.iter().find(is_new) {
            let orig = t_new + c.new_ttl as u64 * 1000;
            let may = gap > 1000 && orig > t3 + 1000 && c.new_has_flush_bit.max(true);
            if gap < 1000 && v.rec.expires != orig && t3 < orig {
                return Err(("C11/flush/record-of-same-burst-cut-short".into(), format!("record created +{} ms now expires +{} ms after a further record {} ms later", c.age_ms, v.rec.expires - T, gap)));
            }
            let _ = may;
        }
    }
    Ok(flushed)
}

fn flush_strategy() -> BoxedStrategy<FlushCase> {
    (
        0u8..5,
        prop_oneof![Just(2u32), Just(3), Just(10), Just(120), Just(4500), Just(u32::MAX), 1u32..5000],
        prop_oneof![Just(1u32), Just(2), Just(120), Just(4500), 1u32..5000],
        prop_oneof![3 => 990u64..1011, 1 => Just(0u64), 1 => Just(999), 1 => Just(1000), 1 => Just(1001), 2 => 0u64..3000, 2 => 0u64..200_000],
        proptest::bool::weighted(0.85),
        proptest::bool::weighted(0.85),
        proptest::bool::weighted(0.85),
        proptest::bool::weighted(0.7),
        proptest::bool::weighted(0.3),
        proptest::option::weighted(0.3, prop_oneof![Just(0u64), Just(500), Just(999), 0u64..1000, 1001u64..3000]),
    )
        .prop_map(|(kind, old_ttl, new_ttl, age_ms, new_has_flush_bit, same_name, same_class, same_interface, same_rdata, burst_gap_ms)| FlushCase {
            kind,
            old_ttl,
            new_ttl,
            age_ms,
            new_has_flush_bit,
            same_name,
            same_class,
            same_interface,
            same_rdata,
            burst_gap_ms,
        })
        .boxed()
}

// ---------------------------------------------------------------------------------------------
// (c) E3: refresh queries on the wire
// ---------------------------------------------------------------------------------------------

fn check_wire(case: &br::Case, ctx: &mut CaseCtx) {
    let run = match br::execute(case, 11) {
        Ok(r) => r,
        Err(e) => {
            ctx.violation("C11/harness/spawn", e);
            return;
        }
    };
    ctx.count("sim_steps", run.world.total_steps);
    if !br::common_failures("C11", case, &run, ctx) {
        judge_wire(case, &run, ctx);
    }
    run.world.finish();
}

fn judge_wire(case: &br::Case, run: &br::Run, ctx: &mut CaseCtx) {
    let d = &run.world.daemons[0];
    let end_t = d.log.last().map(|e| e.t).unwrap_or(T0);
    let browsed = br::browsed_names(case);
    macro_rules! fail {
        ($sig:expr, $($arg:tt)*) => {{
            ctx.violation($sig.to_string(), format!("{}\nops: {}\n--- history ---\n{}", format!($($arg)*), br::ops_text(case), render_log(&d.log, true, 60)));
            return;
        }};
    }
    // all received record copies in order
    let mut copies: Vec<(usize, u64, &Record)> = Vec::new();
    for (pos, e) in d.log.iter().enumerate() {
        if let Ev::Rx { msg: Some(m), .. } = &e.ev {
            if m.is_response() {
                for r in m.all_records() {
                    copies.push((pos, e.t, r));
                }
            }
        }
    }
    let queries: Vec<(u64, &Message)> = d
        .log
        .iter()
        .filter_map(|e| match &e.ev {
            Ev::Tx(tx) => tx.msg.as_ref().filter(|m| !m.is_response()).map(|m| (e.t, m)),
            _ => None,
        })
        .collect();
    let asked = |t: u64, name: &Name, types: &[u16]| queries.iter().any(|(qt, m)| *qt == t && m.questions.iter().any(|q| types.contains(&q.qtype) && q.name.eq_ignore_case(name)));
    // instance found times, for "a search that needs it is open"
    let found_at = |inst: &Name, t: u64| {
        let mut f = false;
        for e in d.log.iter().filter(|e| e.t <= t) {
            match &e.ev {
                Ev::Svc { ev: ServiceEvent::ServiceFound(_, n), .. } if *n == inst.to_plain() => f = true,
                Ev::Svc { ev: ServiceEvent::ServiceRemoved(_, n), .. } if *n == inst.to_plain() => f = false,
                _ => {}
            }
        }
        f
    };
    let mut marks_checked = 0u64;
    let mut restarted = 0u64;
    for (ci, (pos, r_at, rec)) in copies.iter().enumerate() {
        if rec.ttl < 5 {
            continue;
        }
        let life = rec.ttl as u64 * 1000;
        // the next copy of the same record, or anything that may cut it short (a cache-flush record of
        // the same name and type, a goodbye), ends the judgement of this copy
        let next = copies[ci + 1..].iter().find(|(_, _, r2)| r2.name.eq_ignore_case(&rec.name) && r2.rtype == rec.rtype && (r2.rdata == rec.rdata || r2.flush())).map(|x| x.1);
        if next.is_some() {
            restarted += 1;
        }
        let horizon = next.unwrap_or(u64::MAX).min(r_at + life).min(end_t);
        // what question refreshes it, and is a search that needs it open?
        let (qname, qtypes, needed): (Name, Vec<u16>, Box<dyn Fn(u64) -> bool>) = match rec.rtype {
            T_PTR => {
                if !browsed.contains(&rec.name) {
                    continue;
                }
                (rec.name.clone(), vec![T_PTR], Box::new(|_| true))
            }
            T_SRV | T_TXT => {
                let inst = rec.name.clone();
                let i2 = inst.clone();
                (inst, vec![rec.rtype, T_ANY], Box::new(move |t| found_at(&i2, t)))
            }
            T_A | T_AAAA => {
                // needed while an instance that is found has an SRV pointing at this host
                let host = rec.name.clone();
                let copies2 = &copies;
                let h2 = host.clone();
                let pos = *pos;
                (
                    host,
                    vec![rec.rtype],
                    Box::new(move |t| {
                        let _ = pos;
                        copies2.iter().enumerate().any(|(j, (_, t2, r2))| {
                            let is_srv_to_host = r2.rtype == T_SRV && wire::srv_of(r2).is_some_and(|(_, h)| h.eq_ignore_case(&h2));
                            // the latest copy of that SRV record (or a cache-flush replacement) before t
                            let superseded = copies2[j + 1..].iter().any(|(_, t3, r3)| *t3 <= t && r3.rtype == T_SRV && r3.name == r2.name && (r3.rdata == r2.rdata || r3.flush()));
                            is_srv_to_host && *t2 <= t && !superseded && r2.ttl > 0 && t < *t2 + r2.ttl as u64 * 1000 && found_at(&r2.name, t)
                        })
                    }),
                )
            }
            _ => continue,
        };
        for (k, pct) in [80u64, 85, 90, 95].iter().enumerate() {
            let m = r_at + rec.ttl as u64 * pct * 10;
            if m >= horizon {
                break;
            }
            // a host name search for the owner (open from the start to the end in these histories)
            // needs the address at its 80 % mark; the later marks are demanded for the records of a
            // browsed service only
            let by_host_search = matches!(rec.rtype, T_A | T_AAAA) && case.resolve_hosts.iter().any(|h| br::host_name(*h).eq_ignore_case(&rec.name));
            if !(needed(m) || (by_host_search && k == 0)) {
                continue;
            }
            // (without a host name search, a record whose 80 % mark fell into a time when no browsed
            // service needed it has no timer left for its later marks: it is asked for at the next
            // wake-up instead, which this rule does not demand)
            if k > 0 && !by_host_search && !needed(r_at + rec.ttl as u64 * 800) {
                continue;
            }
            // the record must have been cached at all: for non-PTR records that is the case when the
            // instance was found by then (its PTR came in a datagram for us)
            marks_checked += 1;
            if !asked(m, &qname, &qtypes) {
                fail!(
                    format!("C11/wire/no-refresh-query-at-{pct}-percent/{}", type_name(rec.rtype)),
                    "{} received at +{} ms: no {} query for {} at +{} ms ({pct} % of its life, mark #{}) although the search that needs it is open and no fresh copy had arrived",
                    render_record(rec), r_at - T0, type_name(qtypes[0]), qname.to_escaped(), m - T0, k + 1);
            }
        }
    }
    ctx.count("refresh_marks_checked", marks_checked);
    ctx.class_if(marks_checked >= 2, ">=2-marks-crossed-on-the-wire");
    ctx.class_if(restarted > 0, "fresh-copy-restarts-schedule");
    if marks_checked >= 2 {
        ctx.nontrivial(format!("marks{} restarted{} n{}", marks_checked.min(12), restarted.min(4), case.insts.len()));
    }
    if ctx.want_sample {
        ctx.sample = Some(json!({"scenario": br::ops_text(case).chars().take(600).collect::<String>(), "refresh_marks_checked": marks_checked}));
    }
}

fn wire_strategy() -> BoxedStrategy<br::Case> {
    let ttl = prop_oneof![Just(10u32), Just(20), Just(60), Just(120), 5u32..200];
    let announce = (0usize..2, ttl.clone(), ttl, proptest::collection::vec(0u8..3, 1..3)).prop_map(|(inst, h, o, addrs)| BOp::Deliver { k: 0, recs: announcement(inst, h, o, &addrs), copies: 1 });
    let single = (0usize..2, prop_oneof![Just(Kind::Ptr), Just(Kind::Srv), Just(Kind::Txt), Just(Kind::Addr(0))], 5u32..200).prop_map(|(inst, kind, ttl)| BOp::Deliver {
        k: 0,
        recs: vec![RecSel { inst, kind, ttl, flush_as_usual: true, section: 0 }],
        copies: 1,
    });
    let op = prop_oneof![
        5 => announce,
        2 => single,
        6 => prop_oneof![Just(1000u64), Just(8000), Just(20_000), Just(100_000), 0u64..30_000, 0u64..250_000].prop_map(|ms| BOp::Advance { ms }),
        1 => (any::<bool>(), prop_oneof![Just(0u64), Just(100)]).prop_map(|(on, delay_ms)| BOp::Responder { on, delay_ms, mute: 0 }),
    ];
    (iftable(2), proptest::collection::vec(crate::props::c03::inst_strategy(false), 1..=2), proptest::collection::vec(op, 2..12), prop_oneof![Just(30_000u64), Just(250_000)], proptest::collection::vec(0usize..2, 0..2))
        .prop_map(|(ifs, mut insts, ops, tail_ms, resolve_hosts)| {
            for i in insts.iter_mut() {
                i.ty = 0;
            }
            if insts.len() == 2 && insts[0].label.to_lowercase() == insts[1].label.to_lowercase() {
                insts[1].label.push('2');
            }
            br::Case {
                ifs,
                browse: vec![0],
                accept_unsolicited: false,
                insts,
                ops,
                tail_ms,
                forced_wakes: false,
                // a host name search next to the browse: both refresh the same address records
                resolve_hosts,
            }
        })
        .boxed()
}

pub fn run(tier: Tier) -> i32 {
    let mut agg = Agg::new("C11", tier);
    agg.assume("component part: records and cache are driven through the delegation-only facade (src/verif/component.rs) under a thread-local virtual clock; TTL 0 is exercised through the decode path by C03/C05/C17");
    agg.assume("a record with TTL <= 1 s that is not in the cache yet is indistinguishable from a goodbye for an unknown record after decoding and is not kept (fix recorded under C13); cache-flush at an age of exactly 1000 ms is left open; a record identical to the flushing one is a fresh copy, not a flushed one");
    agg.assume("wire part: simulation with exact wake-ups; a copy's refresh marks are judged until the next copy of the same record, a cache-flush record of the same name and type, its expiry or the end of the history, and only while the search that needs it is open (type browsed; for SRV/TXT the instance reported found; for addresses an unexpired SRV of a found instance points at the host)");
    let n_ttl: u64 = tier.pick(3000, 20000);
    run_enumerated(
        &mut agg,
        "record-life-every-ttl",
        &format!("every TTL 1..={n_ttl} x 4 observation patterns (at every mark, 1 ms before every mark, skipping marks, early/late only)"),
        n_ttl * 4,
        &life_enumerated,
        &check_life,
    );
    run_part(
        &mut agg,
        &Part {
            name: "record-life",
            rule: "TTL 1..=3000 plus a spread up to u32::MAX, 1-8 observation times over the record's life (as fractions of the lifetime +-1 ms, concentrated on the 80/85/90/95 % marks and the expiry), optionally a fresh copy in between; non-trivial = >=2 marks crossed",
            cases: scale(tier.pick(2_000_000, 30_000_000)),
            max_shrink_iters: 2000,
            strategy: &|| life_strategy(3000),
            check: &check_life,
        },
    );
    run_part(
        &mut agg,
        &Part {
            name: "cache-flush-pairs",
            rule: "an old record (SRV/TXT/A/AAAA/PTR) in the cache and a new one arriving at every age relation around 1000 ms, with/without the cache-flush bit, same/other name, class, interface (addresses), RDATA, optionally a third record of the same burst; non-trivial = age within 10 ms of one second or the old record flushed",
            cases: scale(tier.pick(2_000_000, 30_000_000)),
            max_shrink_iters: 2000,
            strategy: &flush_strategy,
            check: &check_flush,
        },
    );
    run_regressions::<br::Case>(&mut agg, "refresh-on-the-wire", &check_wire);
    run_part(
        &mut agg,
        &Part {
            name: "refresh-on-the-wire",
            rule: "a browsing daemon receiving announcements and single records (TTL 5..200 s) with a responder that answers or ignores the refresh queries: for every received copy a query for it must leave at exactly 80/85/90/95 % of its life until a fresh copy arrives or it expires; non-trivial = >=2 marks judged",
            cases: scale(tier.pick(25_000, 500_000)),
            max_shrink_iters: 600,
            strategy: &wire_strategy,
            check: &check_wire,
        },
    );
    agg.require_class("record-life:>=2-marks-crossed", 10_000);
    agg.require_class("record-life:observation-skips-a-mark", 5_000);
    agg.require_class("cache-flush-pairs:age-within-10ms-of-1s", 10_000);
    agg.require_class("cache-flush-pairs:old-record-flushed", 10_000);
    agg.require_class("refresh-on-the-wire:>=2-marks-crossed-on-the-wire", 2_000);
    agg.require_class("refresh-on-the-wire:fresh-copy-restarts-schedule", 1_000);
    agg.finish()
}

pub fn replay_file(file: &std::path::Path) -> i32 {
    if let Some(c) = replay_part::<LifeCase>("C11", "record-life", file, 1, &check_life) {
        return c;
    }
    if let Some(c) = replay_part::<LifeCase>("C11", "record-life-every-ttl", file, 1, &check_life) {
        return c;
    }
    if let Some(c) = replay_part::<FlushCase>("C11", "cache-flush-pairs", file, 1, &check_flush) {
        return c;
    }
    if let Some(c) = replay_part::<br::Case>("C11", "refresh-on-the-wire", file, 5, &check_wire) {
        return c;
    }
    eprintln!("harness error: replay file does not belong to C11");
    2
}
