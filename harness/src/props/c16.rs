//! C16 - TXT properties survive the trip unchanged (E1 + E3).

use crate::props::c01::hex_bytes;
use crate::refdns::{self, TxtAttr};
use crate::runner::*;
use crate::sim::*;
use mdns_sd::verif::{codec, SimIf};
use mdns_sd::{ServiceEvent, ServiceInfo, TxtProperties, TxtProperty};
use proptest::prelude::*;
use serde::{Deserialize, Serialize};
use serde_json::json;
use std::collections::HashMap;

#[derive(Clone, Debug, Serialize, Deserialize)]
pub struct Prop {
    pub key: String,
    #[serde(with = "opt_hex")]
    pub val: Option<Vec<u8>>,
}

mod opt_hex {
    use serde::{Deserialize, Deserializer, Serializer};
    pub fn serialize<S: Serializer>(b: &Option<Vec<u8>>, s: S) -> Result<S::Ok, S::Error> {
        match b {
            None => s.serialize_none(),
            Some(b) => s.serialize_some(&b.iter().map(|x| format!("{x:02x}")).collect::<String>()),
        }
    }
    pub fn deserialize<'de, D: Deserializer<'de>>(d: D) -> Result<Option<Vec<u8>>, D::Error> {
        let o: Option<String> = Option::deserialize(d)?;
        Ok(o.map(|s| {
            (0..s.len() / 2)
                .map(|i| u8::from_str_radix(&s[2 * i..2 * i + 2], 16).unwrap_or(0))
                .collect()
        }))
    }
}

#[derive(Clone, Copy, Debug, Serialize, Deserialize, PartialEq, Eq)]
pub enum Via {
    /// `Vec<TxtProperty>` built with `From<(K, V: AsRef<[u8]>)>` and `From<&str>`.
    VecProps,
    /// `&[(K, V)]` with string values (values must be UTF-8, no boolean keys).
    Slice,
    /// `HashMap<String, String>`.
    Map,
    /// `Option<HashMap<String, String>>`.
    OptMap,
}

#[derive(Clone, Debug, Serialize, Deserialize)]
pub struct Case {
    pub via: Via,
    pub props: Vec<Prop>,
}

/// What the statement says must be refused at creation.
fn must_refuse(p: &Prop) -> Option<&'static str> {
    if !p.key.is_ascii() {
        return Some("non-ascii-key");
    }
    if p.key.contains('=') {
        return Some("key-contains-equals");
    }
    let len = p.key.len() + p.val.as_ref().map(|v| v.len() + 1).unwrap_or(0);
    if len > 255 {
        return Some("longer-than-255");
    }
    if len == 0 {
        // An empty key without value would be a zero-length string, which no TXT record can
        // carry as an attribute: "cannot be represented".
        return Some("empty-string");
    }
    None
}

fn build(case: &Case) -> Option<Result<ServiceInfo, String>> {
    let ty = "_c16._udp.local.";
    let r = match case.via {
        Via::VecProps => {
            let v: Vec<TxtProperty> = case
                .props
                .iter()
                .map(|p| match &p.val {
                    Some(val) => TxtProperty::from((p.key.clone(), val.clone())),
                    None => TxtProperty::from(p.key.as_str()),
                })
                .collect();
            ServiceInfo::new(ty, "Inst 16", "c16host.local.", "192.168.1.10", 80, v)
        }
        Via::Slice => {
            let mut v: Vec<(String, String)> = Vec::new();
            for p in &case.props {
                v.push((p.key.clone(), String::from_utf8(p.val.clone()?).ok()?));
            }
            ServiceInfo::new(ty, "Inst 16", "c16host.local.", "192.168.1.10", 80, &v[..])
        }
        Via::Map | Via::OptMap => {
            let mut m: HashMap<String, String> = HashMap::new();
            for p in &case.props {
                if m.contains_key(&p.key) {
                    return None;
                }
                m.insert(p.key.clone(), String::from_utf8(p.val.clone()?).ok()?);
            }
            if case.via == Via::Map {
                ServiceInfo::new(ty, "Inst 16", "c16host.local.", "192.168.1.10", 80, m)
            } else {
                ServiceInfo::new(ty, "Inst 16", "c16host.local.", "192.168.1.10", 80, Some(m))
            }
        }
    };
    Some(r.map_err(|e| e.to_string()))
}

fn attrs_of(props: &TxtProperties) -> Vec<TxtAttr> {
    props
        .iter()
        .map(|p| (p.key().as_bytes().to_vec(), p.val().map(|v| v.to_vec())))
        .collect()
}

fn render_attrs(a: &[TxtAttr]) -> String {
    a.iter()
        .map(|(k, v)| match v {
            None => format!("{:?}", String::from_utf8_lossy(k)),
            Some(v) => format!("{:?}={:?}", String::from_utf8_lossy(k), String::from_utf8_lossy(v)),
        })
        .collect::<Vec<_>>()
        .join(", ")
}

fn same_multiset(a: &[TxtAttr], b: &[TxtAttr]) -> bool {
    let mut x = a.to_vec();
    let mut y = b.to_vec();
    x.sort();
    y.sort();
    x == y
}

/// Returns the list a browser must see, or None if the case was refused / not applicable.
fn check_local(case: &Case, ctx: &mut CaseCtx) -> Option<(ServiceInfo, Vec<TxtAttr>)> {
    let built = std::panic::catch_unwind(|| build(case));
    let built = match built {
        Err(_) => {
            let msg = mdns_sd::verif::take_last_panic().unwrap_or_default();
            ctx.violation(
                format!("C16/panic/{}", msg.split(": ").next().unwrap_or("")),
                format!("ServiceInfo::new panicked: {msg}"),
            );
            return None;
        }
        Ok(None) => {
            ctx.class("input-type-cannot-express-list");
            return None;
        }
        Ok(Some(b)) => b,
    };
    ctx.class(&format!("via:{:?}", case.via));
    // Slices drop later duplicates of a key before anything is validated or encoded.
    let effective: Vec<Prop> = if case.via == Via::Slice {
        let mut seen: Vec<String> = Vec::new();
        case.props
            .iter()
            .filter(|p| {
                let k = p.key.to_lowercase();
                if seen.contains(&k) {
                    false
                } else {
                    seen.push(k);
                    true
                }
            })
            .cloned()
            .collect()
    } else {
        case.props.clone()
    };
    let refuse = effective.iter().find_map(must_refuse);
    let info = match (built, refuse) {
        (Err(_), Some(why)) => {
            ctx.class(&format!("refused:{why}"));
            ctx.nontrivial(format!("refused {why} {:?}", case.via));
            return None;
        }
        (Err(e), None) => {
            ctx.violation(
                "C16/creation/refused-representable-properties",
                format!("ServiceInfo::new refused a representable list: {e}"),
            );
            return None;
        }
        (Ok(_), Some(why)) => {
            ctx.violation(
                format!("C16/creation/accepted-unrepresentable/{why}"),
                format!(
                    "ServiceInfo::new accepted a property that cannot be represented ({why}): {:?}",
                    effective.iter().find(|p| must_refuse(p).is_some())
                ),
            );
            return None;
        }
        (Ok(i), None) => i,
    };
    ctx.class("accepted");
    // the list as given
    let given: Vec<TxtAttr> = case
        .props
        .iter()
        .map(|p| (p.key.as_bytes().to_vec(), p.val.clone()))
        .collect();
    let ordered = matches!(case.via, Via::VecProps | Via::Slice);
    // 1. the info holds what was given (slices de-duplicate at construction: first wins)
    let held = attrs_of(info.get_properties());
    let expect_held = match case.via {
        Via::Slice => refdns::txt_first_wins(&given),
        _ => given.clone(),
    };
    let held_ok = if ordered {
        held == expect_held
    } else {
        same_multiset(&held, &expect_held)
    };
    if !held_ok {
        ctx.violation(
            "C16/creation/properties-altered",
            format!("given [{}] held [{}]", render_attrs(&given), render_attrs(&held)),
        );
        return None;
    }
    // 2. generated RDATA, read by the reference decoder, is exactly the held list
    let rdata = codec::txt_encode(&info);
    let on_wire = refdns::txt_decode(&rdata, false);
    let strict_parse_ok = {
        // every length byte accounted for, nothing dangling
        let mut i = 0;
        let mut ok = true;
        while i < rdata.len() {
            let l = rdata[i] as usize;
            if i + 1 + l > rdata.len() {
                ok = false;
                break;
            }
            i += 1 + l;
        }
        ok
    };
    if !strict_parse_ok || on_wire != held {
        ctx.violation(
            "C16/encode/rdata-differs-from-properties",
            format!(
                "properties [{}] encode to RDATA that reads [{}]",
                render_attrs(&held),
                render_attrs(&on_wire)
            ),
        );
        return None;
    }
    // 3. the crate's decoding of it is first-key-wins of that list
    let expect_seen = refdns::txt_first_wins(&held);
    let decoded = attrs_of(&TxtProperties::from(&rdata[..]));
    if decoded != expect_seen {
        ctx.violation(
            "C16/decode/differs-from-first-key-wins",
            format!(
                "RDATA of [{}] decodes to [{}], expected [{}]",
                render_attrs(&held),
                render_attrs(&decoded),
                render_attrs(&expect_seen)
            ),
        );
        return None;
    }
    // 4. case-insensitive lookup, None vs empty
    let tp = TxtProperties::from(&rdata[..]);
    for (k, v) in &expect_seen {
        let ks = String::from_utf8_lossy(k).to_string();
        for variant in [ks.clone(), ks.to_ascii_uppercase(), ks.to_ascii_lowercase()] {
            match tp.get(&variant) {
                Some(p) if p.val().map(|x| x.to_vec()) == *v => {}
                other => {
                    ctx.violation(
                        "C16/lookup/case-insensitive-get",
                        format!("get({variant:?}) -> {other:?}, expected value {v:?}"),
                    );
                    return None;
                }
            }
        }
    }
    let kinds = (
        given.iter().any(|(_, v)| v.is_none()),
        given.iter().any(|(_, v)| v.as_ref().is_some_and(|v| v.is_empty())),
        given.iter().any(|(_, v)| v.as_ref().is_some_and(|v| !v.is_empty())),
    );
    let big = given
        .iter()
        .any(|(k, v)| k.len() + v.as_ref().map(|v| v.len() + 1).unwrap_or(0) >= 254);
    let dup = expect_seen.len() != held.len();
    ctx.class_if(big, "entry>=254-bytes");
    ctx.class_if(dup, "duplicate-key");
    ctx.class_if(kinds.0, "boolean-key");
    ctx.class_if(kinds.1, "empty-value");
    if (given.len() >= 2 && (kinds.0 as u8 + kinds.1 as u8 + kinds.2 as u8) >= 2) || big {
        ctx.nontrivial(format!(
            "{:?} n{} kinds{:?} big{} dup{}",
            case.via,
            given.len().min(6),
            kinds,
            big,
            dup
        ));
    }
    if ctx.want_sample {
        ctx.sample = Some(json!({"via": format!("{:?}", case.via), "given": render_attrs(&given), "rdata_len": rdata.len(), "browser_sees": render_attrs(&expect_seen)}));
    }
    Some((info, expect_seen))
}

pub fn check_list(case: &Case, ctx: &mut CaseCtx) {
    let _ = check_local(case, ctx);
}

/// Arbitrary bytes as received TXT RDATA.
#[derive(Clone, Debug, Serialize, Deserialize)]
pub struct Raw {
    #[serde(with = "hex_bytes")]
    pub bytes: Vec<u8>,
}

pub fn check_raw(case: &Raw, ctx: &mut CaseCtx) {
    let b = &case.bytes;
    let r = std::panic::catch_unwind(|| (attrs_of(&TxtProperties::from(&b[..])), codec::txt_decode_all(b)));
    let (unique, all) = match r {
        Ok(x) => x,
        Err(_) => {
            let msg = mdns_sd::verif::take_last_panic().unwrap_or_default();
            ctx.violation(
                format!("C16/decode/panic/{}", msg.split(": ").next().unwrap_or("")),
                format!("decoding {} bytes of TXT RDATA panicked: {msg}", b.len()),
            );
            return;
        }
    };
    let all: Vec<TxtAttr> = all.into_iter().map(|(k, v)| (k.into_bytes(), v)).collect();
    // Reference: strings in order; a zero-length string either ends decoding or is skipped
    // (RFC 6763 6.1 says skip; the statement does not choose), strings overrunning the record
    // end decoding; attributes whose key is not UTF-8 may be dropped.
    let utf8 = |v: Vec<TxtAttr>| -> Vec<TxtAttr> {
        v.into_iter()
            .filter(|(k, _)| std::str::from_utf8(k).is_ok())
            .collect()
    };
    let r_stop = utf8(refdns::txt_decode(b, true));
    let r_skip = utf8(refdns::txt_decode(b, false));
    if all != r_stop && all != r_skip {
        ctx.violation(
            "C16/decode/raw-differs-from-reference",
            format!(
                "crate [{}] reference [{}]",
                render_attrs(&all),
                render_attrs(&r_stop)
            ),
        );
        return;
    }
    let ascii_keys = all.iter().all(|(k, _)| k.is_ascii());
    if ascii_keys && unique != refdns::txt_first_wins(&all) {
        ctx.violation(
            "C16/decode/unique-differs-from-first-key-wins",
            format!("all [{}] unique [{}]", render_attrs(&all), render_attrs(&unique)),
        );
        return;
    }
    // everything reported must come from inside the record
    let total: usize = unique
        .iter()
        .map(|(k, v)| k.len() + v.as_ref().map(|v| v.len() + 1).unwrap_or(0) + 1)
        .sum();
    if total > b.len() {
        ctx.violation("C16/decode/more-than-record-holds", format!("{total} > {}", b.len()));
    }
    let overrun = {
        let mut i = 0;
        let mut o = false;
        while i < b.len() {
            let l = b[i] as usize;
            if l == 0 {
                break;
            }
            if i + 1 + l > b.len() {
                o = true;
                break;
            }
            i += 1 + l;
        }
        o
    };
    ctx.class_if(overrun, "length-byte-overruns-record");
    ctx.class_if(r_stop != r_skip, "zero-length-string-inside");
    ctx.class_if(!all.is_empty(), "decodes-to-attributes");
    if all.len() >= 2 || overrun {
        ctx.nontrivial(format!(
            "raw n{} overrun{} dup{} zero{}",
            all.len().min(8),
            overrun,
            unique.len() != all.len(),
            r_stop != r_skip
        ));
    }
    if ctx.want_sample {
        ctx.sample = Some(json!({"rdata_hex": b.iter().take(40).map(|x| format!("{x:02x}")).collect::<String>(), "len": b.len(), "decoded": render_attrs(&unique)}));
    }
}

/// End to end: register on daemon A, browse on daemon B over a simulated link.
pub fn check_e2e(case: &Case, ctx: &mut CaseCtx) {
    let Some((info, expect)) = check_local(case, ctx) else {
        return;
    };
    let mut w = World::new(T0);
    let mk = |label: &str, ip: &str, seed: u64| {
        SimDaemon::new(label, vec![SimIf::new("eth0", 2, ip.parse().unwrap(), 24)], T0, seed)
    };
    let (Ok(mut a), Ok(mut b)) = (mk("A", "192.168.1.10", 1), mk("B", "192.168.1.20", 2)) else {
        ctx.violation("C16/harness/spawn", "cannot create simulated daemons");
        return;
    };
    a.h.set_jitter_default(Some(0));
    let mut info = info;
    info.set_requires_probe(false);
    if a.register(info).is_err() || b.browse("_c16._udp.local.").is_err() {
        ctx.violation("C16/harness/api", "register/browse failed");
        return;
    }
    let ia = w.add(a);
    let ib = w.add(b);
    w.links.push(Link {
        ends: vec![(ia, 2), (ib, 2)],
    });
    w.advance(3000);
    ctx.count("sim_steps", w.total_steps);
    let mut seen: Option<Vec<TxtAttr>> = None;
    for e in &w.daemons[ib].log {
        if let Ev::Svc {
            ev: ServiceEvent::ServiceResolved(r),
            ..
        } = &e.ev
        {
            seen = Some(attrs_of(&r.txt_properties));
        }
    }
    for d in &w.daemons {
        if let Some(m) = &d.dead {
            ctx.violation(
                format!("C16/e2e/daemon-died/{}", m.split(": ").next().unwrap_or("")),
                format!("daemon {} died: {m}\n{}", d.label, render_log(&d.log, true, 30)),
            );
        }
    }
    match seen {
        None => ctx.violation(
            "C16/e2e/not-resolved",
            format!(
                "browser never resolved the instance within 3 s\n{}",
                render_log(&w.daemons[ib].log, true, 30)
            ),
        ),
        Some(s) if s != expect => ctx.violation(
            "C16/e2e/properties-differ",
            format!(
                "registered [{}] browser saw [{}]",
                render_attrs(&expect),
                render_attrs(&s)
            ),
        ),
        _ => {
            ctx.class("e2e-resolved-equal");
            // ---- an update: the same instance registered again with one more property, 200 ms
            // after the browser last received the old TXT (too young to be flushed): the browser
            // must end up with the new properties
            let mut case2 = case.clone();
            case2.props.push(Prop { key: "zzupd".into(), val: Some(b"2".to_vec()) });
            let mut quiet = CaseCtx::default();
            if let Some((mut info2, expect2)) = check_local(&case2, &mut quiet) {
                info2.set_requires_probe(false);
                // v1 was announced at 0 and 1 s; run to just after a further copy would be ... no:
                // re-announce v1 once more by registering it again, then update 200 ms later
                let (Some((mut info1, _)), now) = (check_local(case, &mut quiet), w.now) else {
                    w.finish();
                    return;
                };
                info1.set_requires_probe(false);
                w.daemons[ia].set_now(now);
                let _ = w.daemons[ia].register(info1);
                w.advance(200);
                let now = w.now;
                w.daemons[ia].set_now(now);
                if w.daemons[ia].register(info2).is_ok() {
                    w.advance(3000);
                    let mut last: Option<Vec<TxtAttr>> = None;
                    for e in &w.daemons[ib].log {
                        if let Ev::Svc { ev: ServiceEvent::ServiceResolved(r), .. } = &e.ev {
                            last = Some(attrs_of(&r.txt_properties));
                        }
                    }
                    ctx.class("e2e-update-checked");
                    if last.as_ref() != Some(&expect2) {
                        ctx.violation(
                            "C16/e2e/update-not-seen",
                            format!(
                                "the instance was registered again with [{}] 200 ms after its previous announcement; the browser's last ServiceResolved shows [{}]\n{}",
                                render_attrs(&expect2),
                                last.as_ref().map(|l| render_attrs(l)).unwrap_or_default(),
                                render_log(&w.daemons[ib].log, true, 20)
                            ),
                        );
                    }
                }
            }
        }
    }
    w.finish();
}

// ---------------------------------------------------------------------------------------------

fn key() -> BoxedStrategy<String> {
    prop_oneof![
        8 => "[a-zA-Z][a-zA-Z0-9_.-]{0,8}",
        2 => proptest::sample::select(vec!["a", "A", "b", "B", "key", "KEY", "Key", "path", "txtvers"]).prop_map(|s| s.to_string()),
        1 => Just(String::new()),
        1 => "[\\x00-\\x7f]{1,6}",
        1 => "[a-z]{0,3}=[a-z]{0,3}",
        1 => "[a-zé中]{1,5}",
        1 => prop_oneof![Just(253usize), Just(254), Just(255), Just(256)].prop_map(|n| "k".repeat(n)),
    ]
    .boxed()
}

fn val(utf8_only: bool) -> BoxedStrategy<Option<Vec<u8>>> {
    let bytes = if utf8_only {
        "\\PC{0,12}".prop_map(|s| s.into_bytes()).boxed()
    } else {
        proptest::collection::vec(any::<u8>(), 0..12).boxed()
    };
    prop_oneof![
        2 => Just(None),
        2 => Just(Some(Vec::new())),
        6 => bytes.prop_map(Some),
        1 => "[a-z=\\x00]{1,8}".prop_map(|s| Some(s.into_bytes())),
        1 => prop_oneof![Just(240usize), Just(250), Just(251), Just(252), Just(253), Just(254), Just(255), Just(256)]
            .prop_map(|n| Some(vec![b'v'; n])),
    ]
    .boxed()
}

pub fn list_strategy() -> BoxedStrategy<Case> {
    let via = prop_oneof![
        5 => Just(Via::VecProps),
        2 => Just(Via::Slice),
        1 => Just(Via::Map),
        1 => Just(Via::OptMap),
    ];
    via.prop_flat_map(|via| {
        let utf8 = via != Via::VecProps;
        let v = if utf8 {
            // string-valued input types cannot express boolean keys or binary values
            val(true).prop_map(|v| Some(v.unwrap_or_default())).boxed()
        } else {
            val(false)
        };
        (
            Just(via),
            proptest::collection::vec((key(), v).prop_map(|(key, val)| Prop { key, val }), 0..8),
        )
    })
    .prop_map(|(via, mut props)| {
        // edge-length keys combined with values would always exceed: trim values there
        for p in props.iter_mut() {
            if p.key.len() >= 253 {
                if let Some(v) = p.val.as_mut() {
                    v.truncate(2);
                }
            }
        }
        Case { via, props }
    })
    .boxed()
}

pub fn raw_strategy() -> BoxedStrategy<Raw> {
    let s = prop_oneof![
        4 => "[a-cA-C=]{0,6}".prop_map(|s| s.into_bytes()),
        2 => proptest::collection::vec(any::<u8>(), 0..10),
        1 => Just(Vec::new()),
    ];
    prop_oneof![
        // well-formed sequences of strings, sometimes corrupted
        5 => (proptest::collection::vec(s, 0..8), proptest::option::weighted(0.3, (any::<usize>(), any::<u8>()))).prop_map(|(strings, corrupt)| {
            let mut b = Vec::new();
            for s in strings {
                b.push(s.len() as u8);
                b.extend(s);
            }
            if let Some((p, v)) = corrupt {
                if !b.is_empty() {
                    let n = b.len();
                    b[p % n] = v;
                }
            }
            b
        }),
        2 => proptest::collection::vec(any::<u8>(), 0..64),
        1 => proptest::collection::vec(any::<u8>(), 0..2000),
    ]
    .prop_map(|bytes| Raw { bytes })
    .boxed()
}

pub fn run(tier: Tier) -> i32 {
    let mut agg = Agg::new("C16", tier);
    agg.assume("reference TXT codec refdns::txt_* (RFC 6763 section 6) is correct");
    agg.assume("string-typed inputs (HashMap<String,String>, &[(K,V)]) can only express valued UTF-8 properties; HashMap input has no order, compared as a multiset");
    agg.assume("received zero-length strings may either end decoding or be skipped; attributes with non-UTF-8 keys may be dropped");
    run_regressions::<Case>(&mut agg, "lists", &check_list);
    run_part(
        &mut agg,
        &Part {
            name: "lists",
            rule: "property lists (0..8 entries; keys with case variants, duplicates, empty, control characters, '=', non-ASCII, 253..256 bytes; values none/empty/binary/240..256 bytes) through Vec<TxtProperty>, &[(K,V)], HashMap, Option<HashMap>; \
                   non-trivial = accepted list with >=2 entries mixing at least two of {boolean, empty, valued} or an entry of >=254 bytes, or a refusal; distinct by (input type, length, kinds, size edge, duplicates)",
            cases: scale(tier.pick(1_500_000, 20_000_000)),
            max_shrink_iters: 2000,
            strategy: &list_strategy,
            check: &check_list,
        },
    );
    run_regressions::<Raw>(&mut agg, "raw-rdata", &check_raw);
    run_part(
        &mut agg,
        &Part {
            name: "raw-rdata",
            rule: "arbitrary byte strings as received TXT RDATA (well-formed string sequences, corrupted length bytes, random bytes up to 2000 bytes); non-trivial = >=2 attributes decoded or a length byte overrunning the record",
            cases: scale(tier.pick(3_000_000, 60_000_000)),
            max_shrink_iters: 2000,
            strategy: &raw_strategy,
            check: &check_raw,
        },
    );
    run_part(
        &mut agg,
        &Part {
            name: "end-to-end",
            rule: "the same lists registered on one simulated daemon and browsed by another over a simulated link; ResolvedService.txt_properties must equal first-key-wins of the list",
            cases: scale(tier.pick(20_000, 400_000)),
            max_shrink_iters: 300,
            strategy: &list_strategy,
            check: &check_e2e,
        },
    );
    agg.require_class("lists:accepted", 1000);
    agg.require_class("lists:boolean-key", 500);
    agg.require_class("lists:entry>=254-bytes", 200);
    agg.require_class("lists:duplicate-key", 200);
    agg.require_class("raw-rdata:length-byte-overruns-record", 1000);
    agg.require_class("end-to-end:e2e-resolved-equal", 500);
    agg.finish()
}

pub fn replay(file: &std::path::Path) -> i32 {
    if let Some(c) = replay_part::<Case>("C16", "lists", file, 1, &check_list) {
        return c;
    }
    if let Some(c) = replay_part::<Raw>("C16", "raw-rdata", file, 1, &check_raw) {
        return c;
    }
    if let Some(c) = replay_part::<Case>("C16", "end-to-end", file, 3, &check_e2e) {
        return c;
    }
    eprintln!("harness error: replay file does not belong to C16");
    2
}
