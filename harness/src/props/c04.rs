//! C04 - everything advertised for a browsed type is found and resolved (E3).

use crate::gen::*;
use crate::props::browser::*;
use crate::refdns::*;
use crate::runner::*;
use crate::sim::wire;
use crate::sim::*;
use mdns_sd::ServiceEvent;
use proptest::prelude::*;
use serde_json::json;
use std::collections::BTreeSet;
use std::net::IpAddr;

pub fn check(case: &Case, ctx: &mut CaseCtx) {
    let run = match execute(case, 4) {
        Ok(r) => r,
        Err(e) => {
            ctx.violation("C04/harness/spawn", e);
            return;
        }
    };
    ctx.count("sim_steps", run.world.total_steps);
    if !common_failures("C04", case, &run, ctx) {
        judge(case, &run, ctx);
    }
    run.world.finish();
}

/// What a browser must have been told about an instance, from the cache.
#[derive(Clone, Debug, PartialEq, Eq)]
struct View {
    host: String,
    port: u16,
    addrs: BTreeSet<IpAddr>,
    txt: Vec<TxtAttr>,
}

/// All views the statement allows at `t` (one per live SRV/TXT combination), or None if the
/// instance's record set is not complete.
fn complete_views(c: &RefCache, ty: &Name, inst: &Name, t: u64) -> Option<Vec<View>> {
    if !c.ptr_live(ty, inst, t, true) {
        return None;
    }
    let srvs: Vec<&CEntry> = c.srvs(inst).filter(|e| e.certainly_live(t)).collect();
    let txts: Vec<&CEntry> = c.txts(inst).filter(|e| e.certainly_live(t)).collect();
    if srvs.is_empty() || txts.is_empty() {
        return None;
    }
    let mut views = Vec::new();
    for s in &srvs {
        let RData::Srv { port, target, .. } = &s.rdata else { continue };
        let addrs: BTreeSet<IpAddr> = c
            .addrs(target)
            .filter(|e| e.certainly_live(t))
            .filter_map(|e| match &e.rdata {
                RData::A(a) => Some(IpAddr::V4(*a)),
                RData::Aaaa(a) => Some(IpAddr::V6(*a)),
                _ => None,
            })
            .collect();
        if addrs.is_empty() {
            continue;
        }
        for x in &txts {
            let RData::Txt(b) = &x.rdata else { continue };
            views.push(View {
                host: target.to_plain(),
                port: *port,
                addrs: addrs.clone(),
                txt: txt_first_wins(&txt_decode(b, false)),
            });
        }
    }
    if views.is_empty() {
        None
    } else {
        Some(views)
    }
}

#[derive(Clone, Default)]
struct IState {
    found: bool,
    last_resolved: Option<View>,
    /// consecutive step ends at which the set was complete but the last ServiceResolved differed
    behind_steps: u32,
    /// time of the ServiceFound that started the current follow-up round, and whether the round
    /// was judged already
    found_at: Option<u64>,
    follow_judged: bool,
    /// the three tries of the current follow-up round were judged / cannot be judged
    tries_judged: bool,
}

fn judge(case: &Case, run: &Run, ctx: &mut CaseCtx) {
    let d = &run.world.daemons[0];
    let n = case.insts.len();
    let browsed = browsed_names(case);
    let names: Vec<(Name, Name, bool)> = case
        .insts
        .iter()
        .map(|i| {
            let st = InstState { def: i.clone(), port: 0, txt_ver: 0, host: 0 };
            let ty = st.ty_name();
            let b = browsed.contains(&ty);
            (ty, st.fullname(), b)
        })
        .collect();
    let mut st: Vec<IState> = vec![IState::default(); n];
    let mut violation: Option<(String, String)> = None;
    // violations that do not end the judgement of the case (a recorded finding would otherwise
    // hide everything behind it)
    let mut soft: Vec<(String, String)> = Vec::new();
    let mut completed_via_split = 0u64;
    let mut completions = 0u64;
    let mut followup_rounds = 0u64;
    let mut three_try_rounds = 0u64;
    let fancy = case.insts.iter().any(|i| i.label.contains('.') || i.label.contains('\\') || !i.label.is_ascii());
    // queries sent, for the follow-up part: (time, question name, qtype)
    let sent_q: Vec<(u64, usize, Name, u16)> = d
        .log
        .iter()
        .enumerate()
        .filter_map(|(p, e)| match &e.ev {
            Ev::Tx(tx) => tx.msg.as_ref().filter(|m| !m.is_response()).map(|m| m.questions.iter().map(|q| (e.t, p, q.name.clone(), q.qtype)).collect::<Vec<_>>()),
            _ => None,
        })
        .flatten()
        .collect();
    // how many datagrams carried records of each instance before it was complete
    let mut pieces: Vec<u32> = vec![0; n];
    let mut ptr_first: Vec<Option<bool>> = vec![None; n];
    replay3(case, &d.log, |pos, e, upper, lower, _mid| {
        if violation.is_some() {
            return;
        }
        let t = e.t;
        match &e.ev {
            Ev::Rx { msg: Some(m), .. } => {
                for (i, (_, name, _)) in names.iter().enumerate() {
                    let mine = m.all_records().any(|r| r.name == *name || wire::ptr_target(r).is_some_and(|x| x == name));
                    if mine {
                        pieces[i] += 1;
                        if ptr_first[i].is_none() {
                            ptr_first[i] = Some(m.all_records().any(|r| wire::ptr_target(r).is_some_and(|x| x == name)));
                        }
                    }
                }
            }
            Ev::Api(s) if s.starts_with("stop_browse(") => {
                for (i, (ty, _, _)) in names.iter().enumerate() {
                    if s.contains(&ty.to_escaped()) {
                        st[i] = IState::default();
                    }
                }
            }
            Ev::Svc { ev, .. } => match ev {
                ServiceEvent::ServiceFound(tyname, full) => {
                    let Some((i, name)) = inst_by_plain(case, full) else {
                        violation = Some(("C04/found/unknown-instance".into(), format!("ServiceFound({tyname}, {full}) names an instance no responder advertised: its labels were not preserved")));
                        return;
                    };
                    let _ = name;
                    st[i].found = true;
                    st[i].found_at = Some(t);
                    st[i].follow_judged = false;
                    st[i].tries_judged = false;
                }
                ServiceEvent::ServiceRemoved(_, full) => {
                    if let Some((i, _)) = inst_by_plain(case, full) {
                        st[i].found = false;
                        st[i].last_resolved = None;
                        st[i].found_at = None;
                    }
                }
                ServiceEvent::ServiceResolved(r) => {
                    let Some((i, _)) = inst_by_plain(case, &r.fullname) else {
                        violation = Some(("C04/resolved/unknown-instance".into(), format!("ServiceResolved({}) names an instance no responder advertised", r.fullname)));
                        return;
                    };
                    if !st[i].found {
                        violation = Some(("C04/resolved-before-found".into(), format!("ServiceResolved({}) at +{} ms without a preceding ServiceFound", r.fullname, t - T0)));
                        return;
                    }
                    st[i].last_resolved = Some(View {
                        host: r.host.clone(),
                        port: r.port,
                        addrs: r.addresses.iter().map(|a| a.to_ip_addr()).collect(),
                        txt: r.txt_properties.iter().map(|p| (p.key().as_bytes().to_vec(), p.val().map(|v| v.to_vec()))).collect(),
                    });
                }
                _ => {}
            },
            Ev::Step { .. } => {
                for i in 0..n {
                    let (ty, name, is_browsed) = &names[i];
                    if !is_browsed {
                        continue;
                    }
                    // ---- (A) a complete record set is reported by the end of the next step
                    match complete_views(lower, ty, name, t) {
                        None => st[i].behind_steps = 0,
                        Some(views) => {
                            let ok = st[i].found && st[i].last_resolved.as_ref().is_some_and(|v| views.contains(v));
                            if ok {
                                if st[i].behind_steps > 0 || pieces[i] > 0 {
                                    completions += 1;
                                    if pieces[i] >= 2 && ptr_first[i] == Some(false) {
                                        completed_via_split += 1;
                                    }
                                    pieces[i] = 0;
                                    ptr_first[i] = None;
                                }
                                st[i].behind_steps = 0;
                            } else {
                                st[i].behind_steps += 1;
                                if st[i].behind_steps >= 2 {
                                    let what = if !st[i].found {
                                        "not-found"
                                    } else if st[i].last_resolved.is_none() {
                                        "not-resolved"
                                    } else {
                                        "resolved-with-other-data"
                                    };
                                    violation = Some((
                                        format!("C04/complete-set/{what}"),
                                        format!(
                                            "PTR, SRV, TXT and an address of {} have all been received and are live, yet by the end of the following step (+{} ms) the browser was {}\nexpected one of: {:?}\nlast ServiceResolved: {:?}",
                                            name.to_escaped(),
                                            t - T0,
                                            match what {
                                                "not-found" => "not told ServiceFound",
                                                "not-resolved" => "not told ServiceResolved",
                                                _ => "last told something else",
                                            },
                                            views.iter().take(2).collect::<Vec<_>>(),
                                            st[i].last_resolved
                                        ),
                                    ));
                                    return;
                                }
                            }
                        }
                    }
                    // ---- (C) the follow-up is tried three times, 500 ms apart, while records are missing
                    if let (true, Some(f), false) = (st[i].found, st[i].found_at, st[i].tries_judged) {
                        let plain_label = !name.0[0].contains(&b'.') && !name.0[0].contains(&b'\\');
                        // what is still missing: the SRV, or every address of the SRV's host
                        let srv_hosts: Vec<Name> = upper.srvs(name).filter(|e| e.possibly_live(t)).filter_map(|e| wire::srv_of_rdata(&e.rdata)).collect();
                        let missing = srv_hosts.is_empty() || srv_hosts.iter().all(|h| !upper.addrs(h).any(|a| a.possibly_live(t)));
                        if !missing || st[i].last_resolved.is_some() || !plain_label {
                            st[i].tries_judged = true;
                        } else if t >= f + 1600 {
                            st[i].tries_judged = true;
                            let all_hosts: Vec<Name> = upper.srvs(name).filter_map(|e| wire::srv_of_rdata(&e.rdata)).collect();
                            let mut tries: Vec<u64> = sent_q
                                .iter()
                                .filter(|(qt, _, qn, qty)| {
                                    *qt > f && *qt <= f + 1600 && (([T_ANY, T_SRV, T_TXT].contains(qty) && qn == name) || ([T_A, T_AAAA, T_ANY].contains(qty) && all_hosts.iter().any(|h| h.eq_ignore_case(qn))))
                                })
                                .map(|x| x.0)
                                .collect();
                            tries.dedup();
                            three_try_rounds += 1;
                            if tries.len() < 3 {
                                violation = Some((
                                    "C04/follow-up/fewer-than-three-tries".into(),
                                    format!(
                                        "{} was found at +{} ms and stayed unresolved for 1600 ms with {} missing, yet the daemon asked for the missing records only at {:?} (+ms): {} tries instead of three",
                                        name.to_escaped(),
                                        f - T0,
                                        if srv_hosts.is_empty() { "its SRV" } else { "every address of its host" },
                                        tries.iter().map(|x| x - T0).collect::<Vec<_>>(),
                                        tries.len()
                                    ),
                                ));
                                return;
                            }
                        }
                    }
                    // ---- (B) follow-up queries for an instance that is found but not resolvable yet
                    if let (true, Some(f), false) = (st[i].found, st[i].found_at, st[i].follow_judged) {
                        if t >= f + 500 {
                            st[i].follow_judged = true;
                            // (a copy that arrived after f+500 hides whether one was there before: not judged then)
                            let has_srv = lower.srvs(name).any(|e| f + 500 < e.expires_at);
                            let asked = |target: &Name, types: &[u16], from: u64, to: u64| sent_q.iter().any(|(qt, _, qn, qty)| *qt > from && *qt <= to && types.contains(qty) && qn == target);
                            if !has_srv {
                                followup_rounds += 1;
                                if !asked(name, &[T_ANY, T_SRV, T_TXT], f, f + 500) {
                                    // did a query go out whose name only differs in its label boundaries?
                                    let squash = |n: &Name| n.to_plain().replace(['.', '\\'], "");
                                    let mangled = sent_q.iter().any(|(qt, _, qn, qty)| *qt > f && *qt <= f + 500 && [T_ANY, T_SRV, T_TXT].contains(qty) && squash(qn) == squash(name));
                                    let again = d.log[..pos].iter().filter(|x| matches!(&x.ev, Ev::Svc { ev: ServiceEvent::ServiceFound(_, n2), .. } if *n2 == name.to_plain())).count() > 1;
                                    let v = &mut violation;
                                    let mut dummy = None;
                                    let slot = if mangled { &mut dummy } else { v };
                                    *slot = Some((
                                        if mangled {
                                            "C04/follow-up/question-with-other-labels".into()
                                        } else if again {
                                            "C04/follow-up/none-when-instance-appears-again".into()
                                        } else {
                                            "C04/follow-up/no-query-for-srv-txt-within-500ms".into()
                                        },
                                        format!(
                                            "{} was found at +{} ms with only its PTR known; no query whose question is that name (labels {:?}) left within 500 ms{}",
                                            name.to_escaped(),
                                            f - T0,
                                            name.0.iter().map(|l| String::from_utf8_lossy(l).to_string()).collect::<Vec<_>>(),
                                            if mangled { " - a query for the same text with different label boundaries did" } else { "" }
                                        ),
                                    ));
                                    if let Some(x) = dummy {
                                        if soft.is_empty() {
                                            soft.push(x);
                                        }
                                        continue;
                                    }
                                    return;
                                }
                            }
                        }
                    }
                }
            }
            _ => {}
        }
    });
    for (sig, detail) in soft {
        ctx.violation(sig, format!("{detail}\nops: {}\n--- history ---\n{}", ops_text(case), render_log(&d.log, true, 30)));
    }
    if let Some((sig, detail)) = violation {
        ctx.violation(sig, format!("{detail}\nops: {}\n--- history ---\n{}", ops_text(case), render_log(&d.log, true, 60)));
        return;
    }
    ctx.count("complete_sets_reported", completions);
    ctx.count("follow_up_rounds", followup_rounds);
    ctx.class_if(completions > 0, "complete-set-reported");
    ctx.class_if(completed_via_split > 0, "set-split-over->=2-packets-ptr-not-first");
    ctx.class_if(followup_rounds > 0, "follow-up-round");
    ctx.class_if(three_try_rounds > 0, "three-tries-judged");
    ctx.class_if(fancy, "instance-label-with-dot-backslash-or-non-ascii");
    ctx.class_if(case.insts.iter().any(|i| i.ty % 3 == 2), "foreign-records-interleaved");
    if completed_via_split > 0 || followup_rounds > 0 {
        ctx.nontrivial(format!(
            "n{} split{} follow{} fancy{} ifs{} ops{}",
            n,
            completed_via_split.min(3),
            followup_rounds.min(3),
            fancy,
            case.ifs.len(),
            case.ops.len().min(12)
        ));
    }
    if ctx.want_sample {
        ctx.sample = Some(json!({
            "scenario": ops_text(case).chars().take(900).collect::<String>(),
            "complete_sets_reported": completions,
            "follow_up_rounds": followup_rounds,
            "history_tail": render_log(&d.log, true, 8).lines().map(|l| l.chars().take(200).collect::<String>()).collect::<Vec<_>>(),
        }));
    }
}

fn inst_strategy(fancy: bool) -> BoxedStrategy<InstDef> {
    let label = if fancy { instance_label() } else { simple_label() };
    (prop_oneof![5 => 0usize..2, 1 => Just(2usize)], label, 0usize..NHOSTS, 1u16..60000)
        .prop_map(|(ty, label, host, port)| InstDef { ty, label, host, port })
        .boxed()
}

/// The record set of one instance cut into packets in a generated way.
fn partition_ops() -> BoxedStrategy<Vec<Op>> {
    (
        0usize..3,
        proptest::collection::vec(0u8..5, 5),
        proptest::collection::vec(0u8..3, 5),
        any::<u64>(),
        proptest::bool::weighted(0.3),
        prop_oneof![3 => Just(0u64), 1 => Just(200), 1 => 0u64..2000],
        proptest::option::weighted(0.5, (0usize..3, prop_oneof![2 => Just(Kind::Txt), 3 => Just(Kind::Ptr), 1 => Just(Kind::Srv)], prop_oneof![Just(0u8), Just(2u8)], any::<bool>())),
    )
        .prop_map(|(inst, packet_of, section_of, perm, dup, gap, foreign)| {
            let kinds = [Kind::Ptr, Kind::Srv, Kind::Txt, Kind::Addr(0), Kind::Addr(2)];
            let mut packets: Vec<Vec<RecSel>> = vec![Vec::new(); 5];
            for (j, k) in kinds.iter().enumerate() {
                let ttl = if matches!(k, Kind::Ptr | Kind::Txt) { 4500 } else { 120 };
                packets[packet_of[j] as usize % 5].push(RecSel {
                    inst,
                    kind: *k,
                    ttl,
                    flush_as_usual: true,
                    section: section_of[j],
                });
            }
            // a foreign record rides along in one packet
            // (a TXT, SRV or PTR of another instance - possibly of a type nobody browses - in the
            // answer or additional section, before or after the instance's own records)
            if let Some((f, kind, section, first)) = foreign {
                let other = (inst + 1 + f) % 3;
                let sel = RecSel {
                    inst: other,
                    kind,
                    ttl: if matches!(kind, Kind::Srv) { 120 } else { 4500 },
                    flush_as_usual: true,
                    section,
                };
                // ride along with the instance's PTR when there is one
                let target = (0..5).find(|p| packets[*p].iter().any(|r| matches!(r.kind, Kind::Ptr))).filter(|_| perm % 3 != 0).unwrap_or((perm % 5) as usize);
                if first {
                    packets[target].insert(0, sel);
                } else {
                    packets[target].push(sel);
                }
            }
            let mut order: Vec<usize> = (0..5).collect();
            // permutation from `perm`
            let mut p = perm;
            for i in (1..5).rev() {
                order.swap(i, (p % (i as u64 + 1)) as usize);
                p /= i as u64 + 1;
            }
            let mut ops = Vec::new();
            for pi in order {
                if packets[pi].is_empty() {
                    continue;
                }
                // a packet whose answers hold only the PTR of a type nobody browses would be
                // "someone else's answer": keep the browsed PTR, if present, in the answers
                ops.push(Op::Deliver {
                    k: 0,
                    recs: packets[pi].clone(),
                    copies: if dup { 2 } else { 1 },
                });
                if gap > 0 {
                    ops.push(Op::Advance { ms: gap });
                }
            }
            ops
        })
        .boxed()
}

pub fn strategy() -> BoxedStrategy<Case> {
    let family = prop_oneof![
        // 1: split record sets
        5 => proptest::collection::vec(partition_ops(), 1..4).prop_map(|v| {
            let mut ops: Vec<Op> = v.into_iter().flatten().collect();
            ops.push(Op::Advance { ms: 600 });
            ops
        }),
        // 2: PTR only, the daemon's follow-ups answered by a responder (or never)
        4 => (0usize..3, proptest::option::weighted(0.8, (prop_oneof![Just(0u64), Just(100), Just(600), Just(1100)], prop_oneof![3 => Just(0u8), 2 => Just(1u8), 2 => Just(2u8), 1 => Just(3u8)])), 0u64..2000).prop_map(|(inst, responder, later)| {
            let mut ops = Vec::new();
            if let Some((d, mute)) = responder {
                ops.push(Op::Responder { on: true, delay_ms: d, mute });
            }
            ops.push(Op::Deliver { k: 0, recs: vec![RecSel { inst, kind: Kind::Ptr, ttl: 4500, flush_as_usual: true, section: 0 }], copies: 1 });
            ops.push(Op::Advance { ms: 2500 + later });
            ops
        }),
        // 3: goes away and comes back PTR first
        3 => (0usize..3, any::<bool>(), prop_oneof![Just(0u64), Just(100), Just(600)]).prop_map(|(inst, by_goodbye, delay)| {
            let full = |ttl_h: u32, ttl_o: u32| crate::props::c03::announcement(inst, ttl_h, ttl_o, &[0]);
            let mut ops = vec![Op::Deliver { k: 0, recs: full(if by_goodbye { 120 } else { 3 }, if by_goodbye { 4500 } else { 3 }), copies: 1 }, Op::Advance { ms: 1200 }];
            if by_goodbye {
                ops.push(Op::Deliver { k: 0, recs: full(0, 0), copies: 1 });
            }
            ops.push(Op::Advance { ms: 4000 });
            ops.push(Op::Responder { on: true, delay_ms: delay, mute: 0 });
            ops.push(Op::Deliver { k: 0, recs: vec![RecSel { inst, kind: Kind::Ptr, ttl: 4500, flush_as_usual: true, section: 0 }], copies: 1 });
            ops.push(Op::Advance { ms: 3000 });
            ops
        }),
    ];
    (
        iftable(2),
        prop_oneof![3 => Just(vec![0usize]), 2 => Just(vec![0usize, 1])],
        proptest::bool::weighted(0.4),
        family,
    )
        .prop_flat_map(|(ifs, browse, fancy, ops)| (Just(ifs), Just(browse), proptest::collection::vec(inst_strategy(fancy), 3), Just(ops)))
        .prop_map(|(ifs, browse, mut insts, ops)| {
            // the first instance is always of a browsed type
            insts[0].ty = browse[0];
            for i in 0..insts.len() {
                for j in 0..i {
                    if insts[i].label.to_lowercase() == insts[j].label.to_lowercase() {
                        insts[i].label = format!("{}{}", insts[i].label.chars().take(50).collect::<String>(), i);
                    }
                }
            }
            Case {
                ifs,
                browse,
                accept_unsolicited: false,
                insts,
                ops,
                tail_ms: 1500,
                forced_wakes: false,
                resolve_hosts: vec![],
            }
        })
        .boxed()
}

pub fn run(tier: Tier) -> i32 {
    let mut agg = Agg::new("C04", tier);
    agg.assume("simulation: scripted responders only, exact wake-ups, clients drain their channels, interface check interval very large; TTLs >= 60 s in the split-set family so nothing is near expiry");
    agg.assume("a record set counts as complete when PTR, SRV, TXT and an address of the SRV's host are live with more than a second left in the lower-bound reference cache (datagrams that are solely someone else's answer only refresh known names); it must be reported - ServiceFound, then a ServiceResolved equal to the cache's view - by the end of the step after the one that completed it");
    agg.assume("follow-up: an instance found with only its PTR must be asked for (ANY/SRV/TXT question whose label sequence equals the instance's) within 500 ms of ServiceFound");
    run_regressions::<Case>(&mut agg, "arrivals", &check);
    run_part(
        &mut agg,
        &Part {
            name: "arrivals",
            rule: "three families: (1) the record set {PTR, SRV, TXT, A, AAAA} of 1-3 instances cut into 1-5 packets, each record in a generated section, packets permuted, duplicated, spaced 0-2 s, with foreign records riding along; (2) PTR only, a responder answering the daemon's follow-up queries after 0/100/600/1100 ms or never; (3) an instance that goes away (goodbye or TTL) and comes back PTR first; instance labels plain or with dots, backslashes, non-ASCII, 55-63 bytes; \
                   non-trivial = a set split over >=2 packets with the PTR not first, or a follow-up round trip",
            cases: scale(tier.pick(30_000, 900_000)),
            max_shrink_iters: 800,
            strategy: &strategy,
            check: &check,
        },
    );
    agg.require_class("arrivals:complete-set-reported", 5000);
    agg.require_class("arrivals:set-split-over->=2-packets-ptr-not-first", 2000);
    agg.require_class("arrivals:follow-up-round", 2000);
    agg.require_class("arrivals:three-tries-judged", 1000);
    agg.require_class("arrivals:instance-label-with-dot-backslash-or-non-ascii", 1000);
    agg.finish()
}

pub fn replay_file(file: &std::path::Path) -> i32 {
    replay_part::<Case>("C04", "arrivals", file, 5, &check).unwrap_or_else(|| {
        eprintln!("harness error: replay file does not belong to C04");
        2
    })
}
