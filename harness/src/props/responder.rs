//! Shared scenario + reference responder for C06 (answers) and C10 (known-answer suppression).
//!
//! The expectation is written from the property statements and RFC 6762/6763, never from what
//! the crate does; where the statements leave a choice open the record goes into `may`.

use crate::gen::*;
use crate::refdns::*;
use crate::runner::*;
use crate::sim::wire::{self, Sent};
use crate::sim::{peer, *};
use mdns_sd::ServiceInfo;
use proptest::prelude::*;
use serde::{Deserialize, Serialize};
use serde_json::json;
use std::collections::BTreeMap;
use std::net::{IpAddr, SocketAddr};

pub const META: &str = "_services._dns-sd._udp.local.";

#[derive(Clone, Debug, Serialize, Deserialize)]
pub struct SvcDef {
    pub inst: String,
    pub ty: usize,
    pub sub: bool,
    pub v4: bool,
    pub v6: bool,
    pub on: Vec<bool>,
    pub probe: bool,
}

#[derive(Clone, Copy, Debug, Serialize, Deserialize, PartialEq, Eq)]
pub enum Target {
    Type(usize),
    Sub(usize),
    Meta,
    Inst(usize),
    /// The original name of a service (differs from Inst after a rename).
    OrigInst(usize),
    Host(usize),
    Unknown,
}

#[derive(Clone, Debug, Serialize, Deserialize)]
pub struct QSpec {
    pub target: Target,
    pub qtype: u16,
    pub case_var: u8,
    /// unicast-response bit
    pub qu: bool,
}

#[derive(Clone, Copy, Debug, Serialize, Deserialize, PartialEq, Eq)]
pub enum KaRec {
    Ptr,
    SubPtr,
    Srv,
    Txt,
    Addr,
}

#[derive(Clone, Copy, Debug, Serialize, Deserialize, PartialEq, Eq)]
pub enum KaTtl {
    Zero,
    One,
    HalfMinus1,
    Half,
    HalfPlus1,
    Full,
    Max,
}

#[derive(Clone, Copy, Debug, Serialize, Deserialize, PartialEq, Eq)]
pub enum KaMut {
    Same,
    OtherName,
    OtherRdata,
    OtherType,
    OtherClass,
    OtherCase,
}

#[derive(Clone, Debug, Serialize, Deserialize)]
pub struct KaSpec {
    pub svc: usize,
    pub rec: KaRec,
    pub ttl: KaTtl,
    pub mutate: KaMut,
}

#[derive(Clone, Debug, Serialize, Deserialize)]
pub struct QuerySpec {
    pub k: usize,
    pub v6: bool,
    pub legacy: bool,
    pub id: u16,
    pub questions: Vec<QSpec>,
    pub known: Vec<KaSpec>,
}

#[derive(Clone, Debug, Serialize, Deserialize)]
pub enum Op {
    Register { i: usize, ver: u8 },
    Unregister { i: usize },
    Conflict {
        i: usize,
        /// the conflicting response also claims the service's host name with another address
        #[serde(default)]
        host: bool,
    },
    Advance { ms: u64 },
    Query(QuerySpec),
}

#[derive(Clone, Debug, Serialize, Deserialize)]
pub struct Case {
    pub ifs: Vec<IfSpec>,
    pub jitter: u64,
    pub shared_host: bool,
    pub svcs: Vec<SvcDef>,
    pub ops: Vec<Op>,
}

pub fn id_attr(i: usize) -> Vec<u8> {
    format!("id={i}").into_bytes()
}

impl Case {
    pub fn host_text(&self, i: usize) -> String {
        if self.shared_host && i <= 1 {
            "C06Shared.local.".to_string()
        } else {
            format!("c06host{i}.local.")
        }
    }
    fn addr_src(&self, i: usize) -> usize {
        if self.shared_host && i <= 1 {
            0
        } else {
            i
        }
    }
    pub fn addrs(&self, i: usize, ver: u8) -> Vec<IpAddr> {
        let s = &self.svcs[self.addr_src(i)];
        let h = self.addr_src(i);
        let nifs = self.ifs.len();
        let mut v = Vec::new();
        for k in 0..nifs {
            let mut on = *s.on.get(k).unwrap_or(&false);
            // version 2 of a non-shared service gives up its address on the last interface
            if ver == 2 && k + 1 == nifs && nifs > 1 && !(self.shared_host && i <= 1) {
                on = false;
            }
            if on {
                if s.v4 {
                    v.push(IpAddr::V4(subnet_v4(k, 60 + h as u8)));
                }
                if s.v6 {
                    v.push(IpAddr::V6(subnet_v6(k, 60 + h as u16)));
                }
            }
        }
        v
    }
    pub fn usable(&self, i: usize, ver: u8, k: usize, v4: bool) -> Vec<IpAddr> {
        let Some(spec) = self.ifs.get(k) else { return vec![] };
        if (v4 && !spec.v4) || (!v4 && !spec.v6) {
            return vec![];
        }
        self.addrs(i, ver)
            .into_iter()
            .filter(|a| a.is_ipv4() == v4 && subnet_of(a) == Some(k))
            .collect()
    }
    pub fn ty_text(&self, i: usize) -> &'static str {
        TYPES[self.svcs[i].ty % TYPES.len()]
    }
    pub fn sub_text(&self, i: usize) -> String {
        format!("_printer._sub.{}", self.ty_text(i))
    }
    pub fn fullname_text(&self, i: usize) -> String {
        format!("{}.{}", esc_label(&self.svcs[i].inst), self.ty_text(i))
    }
    pub fn port(&self, i: usize, ver: u8) -> u16 {
        1000 + 10 * i as u16 + ver as u16
    }
    pub fn txt_rdata(&self, i: usize, ver: u8) -> Vec<u8> {
        txt_encode(&[
            (b"id".to_vec(), Some(i.to_string().into_bytes())),
            (b"v".to_vec(), Some(ver.to_string().into_bytes())),
        ])
    }
}

pub struct Mark {
    pub op: usize,
    pub before: usize,
    pub after: usize,
    pub t: u64,
}

pub struct Run {
    pub world: World,
    pub di: usize,
    pub marks: Vec<Mark>,
}

/// Executes the ops; queries are injected only after everything due at that instant has run.
pub fn execute(case: &Case, seed: u64) -> Result<Run, String> {
    let nifs = case.ifs.len();
    let n = case.svcs.len();
    let mut d = SimDaemon::new("D", sim_ifs(&case.ifs), T0, seed)?;
    d.h.set_jitter_default(Some(case.jitter));
    let _ = d.monitor();
    let mut w = World::new(T0);
    let di = w.add(d);
    let mut marks = Vec::new();
    let mut regs_since_unreg: Vec<u32> = vec![0; n];
    let mut reg_pos: Vec<usize> = vec![0; n];
    let mut reg_ver: Vec<u8> = vec![0; n];
    for (oi, op) in case.ops.iter().enumerate() {
        w.settle();
        let before = w.daemons[di].log.len();
        let now = w.now;
        w.daemons[di].set_now(now);
        match op {
            Op::Register { i, ver } => {
                let i = *i % n;
                let s = &case.svcs[i];
                let ty_arg = if s.sub {
                    case.sub_text(i)
                } else {
                    case.ty_text(i).to_string()
                };
                let addr_str = case.addrs(i, *ver).iter().map(|a| a.to_string()).collect::<Vec<_>>().join(",");
                let id = i.to_string();
                let v = ver.to_string();
                let props = [("id", id.as_str()), ("v", v.as_str())];
                if let Ok(mut info) = ServiceInfo::new(&ty_arg, &s.inst, &case.host_text(i), addr_str.as_str(), case.port(i, *ver), &props[..]) {
                    info.set_requires_probe(s.probe);
                    if w.daemons[di].register(info).is_ok() {
                        regs_since_unreg[i] += 1;
                        reg_pos[i] = before;
                        reg_ver[i] = *ver;
                    }
                }
            }
            Op::Unregister { i } => {
                let i = *i % n;
                if w.daemons[di].unregister(&case.fullname_text(i)).is_ok() {
                    regs_since_unreg[i] = 0;
                }
            }
            Op::Conflict { i, host } => {
                let i = *i % n;
                let announced = w.daemons[di].log[reg_pos[i]..].iter().any(|e| match &e.ev {
                    Ev::Tx(tx) => tx
                        .msg
                        .as_ref()
                        .is_some_and(|m| m.is_response() && m.answers.iter().any(|r| r.ttl > 0 && wire::txt_has(r, &id_attr(i)))),
                    _ => false,
                });
                if regs_since_unreg[i] != 1 || announced {
                    continue;
                }
                let mut name = Name::from_escaped(&case.fullname_text(i));
                let mut host_name: Option<Name> = None;
                for e in w.daemons[di].log.iter().rev() {
                    if let Ev::Tx(tx) = &e.ev {
                        if let Some(m) = &tx.msg {
                            if !m.is_response() {
                                if let Some(r) = m.authorities.iter().find(|r| wire::txt_has(r, &id_attr(i))) {
                                    name = r.name.clone();
                                    // the host name being probed along with it (if it is)
                                    host_name = m.authorities.iter().filter(|r2| r2.name == r.name).find_map(|r2| wire::srv_of(r2).map(|(_, h)| h.clone())).filter(|h| m.questions.iter().any(|q| q.name.eq_ignore_case(h)));
                                    break;
                                }
                            }
                        }
                    }
                }
                let rec = Record {
                    name,
                    rtype: T_SRV,
                    class: 1 | FLUSH,
                    ttl: 120,
                    rdata: RData::Srv {
                        priority: 0,
                        weight: 0,
                        port: 9,
                        target: Name::from_escaped("somebody-else.local."),
                    },
                };
                for k in 0..nifs {
                    let src: SocketAddr = if case.ifs[k].v4 {
                        SocketAddr::new(IpAddr::V4(subnet_v4(k, 99)), MDNS_PORT)
                    } else {
                        SocketAddr::new(IpAddr::V6(subnet_v6(k, 99)), MDNS_PORT)
                    };
                    let mut recs = vec![rec.clone()];
                    // (a host name shared with another registration is left alone: what a lost host name
                    // means for a service that is announced already is C08's subject, not this model's)
                    let shared = (0..n).any(|j| j != i && case.host_text(j).eq_ignore_ascii_case(&case.host_text(i)));
                    if let (true, false, Some(h)) = (*host, shared, host_name.as_ref()) {
                        let a = if case.ifs[k].v4 { IpAddr::V4(subnet_v4(k, 98)) } else { IpAddr::V6(subnet_v6(k, 98)) };
                        recs.push(peer::addr_rec(h, a, 120, true));
                    }
                    w.daemons[di].inject(if_index(k), src, peer::response(recs, vec![]));
                }
            }
            Op::Advance { ms } => w.advance(*ms),
            Op::Query(q) => {
                let k = q.k % nifs;
                // transport family must exist on the interface
                let v6 = if q.v6 { case.ifs[k].v6 } else { !case.ifs[k].v4 };
                let model = Model::at(case, &w.daemons[di].log, before, &reg_ver_map(&case.ops[..oi], n));
                let bytes = build_query(case, q, k, &model);
                let port = if q.legacy { 40000 + (q.id % 1000) } else { MDNS_PORT };
                let src: SocketAddr = if v6 {
                    SocketAddr::new(IpAddr::V6(subnet_v6(k, 77)), port)
                } else {
                    SocketAddr::new(IpAddr::V4(subnet_v4(k, 77)), port)
                };
                w.daemons[di].inject(if_index(k), src, bytes);
            }
        }
        w.settle();
        let after = w.daemons[di].log.len();
        marks.push(Mark {
            op: oi,
            before,
            after,
            t: w.now,
        });
    }
    Ok(Run { world: w, di, marks })
}

/// Latest registered version per service after the given ops (None = not registered).
pub fn reg_ver_map(ops: &[Op], n: usize) -> Vec<Option<(u8, usize)>> {
    let mut v: Vec<Option<(u8, usize)>> = vec![None; n];
    for (oi, op) in ops.iter().enumerate() {
        match op {
            Op::Register { i, ver } => v[*i % n] = Some((*ver, oi)),
            Op::Unregister { i } => v[*i % n] = None,
            _ => {}
        }
    }
    v
}

/// What the wire says about each service at a given log position.
pub struct Model {
    /// per service: registered version
    pub ver: Vec<Option<u8>>,
    /// per service, per interface: the full name under which it was last announced there since
    /// its most recent register call (None = not announced there since).
    pub name_on: Vec<Vec<Option<Name>>>,
    /// per service, per interface: host name of that announcement's SRV.
    pub host_on: Vec<Vec<Option<Name>>>,
}

pub fn is_announcement(m: &Message, solicited: bool, i: usize) -> bool {
    let Some(txt) = m.answers.iter().find(|r| r.rtype == T_TXT && r.ttl > 0 && wire::txt_has(r, &id_attr(i))) else {
        return false;
    };
    m.is_response()
        // the PTR of an announcement points at exactly the name that owns the TXT record
        && m.answers.iter().any(|r| r.rtype == T_PTR && r.ttl > 0 && wire::ptr_target(r) == Some(&txt.name))
        && m.answers.iter().any(|r| r.rtype == T_SRV && r.name == txt.name)
        // an answer to a PTR question brings additionals; an announcement has none
        && (!solicited || m.additionals.is_empty())
}

impl Model {
    pub fn at(case: &Case, log: &[Entry], pos: usize, regs: &[Option<(u8, usize)>]) -> Model {
        let n = case.svcs.len();
        let nifs = case.ifs.len();
        let mut name_on = vec![vec![None; nifs]; n];
        let mut host_on = vec![vec![None; nifs]; n];
        // position of the API entry of the latest register per service
        let mut reg_pos: Vec<Option<usize>> = vec![None; n];
        let mut counts = vec![0usize; n];
        // count register API entries in the log in order to map op index -> log position
        for (p, e) in log[..pos].iter().enumerate() {
            if let Ev::Api(s) = &e.ev {
                if s.starts_with("register(") {
                    for i in 0..n {
                        if s.contains(&format!("host={} ", case.host_text(i))) && s.starts_with(&format!("register({} ", case.fullname_text(i))) {
                            counts[i] += 1;
                            reg_pos[i] = Some(p);
                        }
                    }
                } else if s.starts_with("unregister(") {
                    for i in 0..n {
                        if *s == format!("unregister({})", case.fullname_text(i)) {
                            reg_pos[i] = None;
                        }
                    }
                }
            }
        }
        let _ = counts;
        if let Ok(sent) = wire::index(&log[..pos]) {
            for i in 0..n {
                let Some(rp) = reg_pos[i] else { continue };
                for p in sent.iter().filter(|p| p.pos >= rp) {
                    if !is_announcement(p.m, p.solicited, i) {
                        continue;
                    }
                    let Some(ix) = p.if_index else { continue };
                    let k = (ix - 2) as usize;
                    if k >= nifs {
                        continue;
                    }
                    let txt = p.m.answers.iter().find(|r| r.rtype == T_TXT && wire::txt_has(r, &id_attr(i))).unwrap();
                    name_on[i][k] = Some(txt.name.clone());
                    if let Some(srv) = p.m.answers.iter().find(|r| r.rtype == T_SRV && r.name.eq_ignore_case(&txt.name)) {
                        host_on[i][k] = wire::srv_of(srv).map(|(_, h)| h.clone());
                    }
                }
            }
        }
        Model {
            ver: regs.iter().map(|r| r.map(|x| x.0)).collect(),
            name_on,
            host_on,
        }
    }
}

fn ka_ttl(full: u32, t: KaTtl) -> u32 {
    match t {
        KaTtl::Zero => 0,
        KaTtl::One => 1,
        KaTtl::HalfMinus1 => full / 2 - 1,
        KaTtl::Half => full / 2,
        KaTtl::HalfPlus1 => full / 2 + 1,
        KaTtl::Full => full,
        KaTtl::Max => u32::MAX,
    }
}

fn cased(n: &Name, v: u8) -> Name {
    Name(
        n.0.iter()
            .map(|l| match std::str::from_utf8(l) {
                Ok(s) => case_variant(s, v).into_bytes(),
                Err(_) => l.clone(),
            })
            .collect(),
    )
}

/// The true records of service i as the responder should send them on interface k.
pub struct TrueRecs {
    pub ptr: Record,
    pub sub_ptr: Option<Record>,
    pub srv: Record,
    pub txt: Record,
    pub addrs: Vec<Record>,
}

pub fn true_recs(case: &Case, model: &Model, i: usize, k: usize, v4: Option<bool>) -> Option<TrueRecs> {
    let ver = model.ver[i]?;
    let name = model.name_on[i][k].clone()?;
    let host = model.host_on[i][k].clone().unwrap_or_else(|| Name::from_escaped(&case.host_text(i)));
    let ty = Name::from_escaped(case.ty_text(i));
    let mut addrs = Vec::new();
    for fam in [true, false] {
        if v4.is_some_and(|f| f != fam) {
            continue;
        }
        for a in case.usable(i, ver, k, fam) {
            addrs.push(peer::addr_rec(&host, a, 120, true));
        }
    }
    Some(TrueRecs {
        ptr: Record {
            name: ty.clone(),
            rtype: T_PTR,
            class: 1,
            ttl: 4500,
            rdata: RData::Ptr(name.clone()),
        },
        sub_ptr: if case.svcs[i].sub {
            Some(Record {
                name: Name::from_escaped(&case.sub_text(i)),
                rtype: T_PTR,
                class: 1,
                ttl: 4500,
                rdata: RData::Ptr(name.clone()),
            })
        } else {
            None
        },
        srv: Record {
            name: name.clone(),
            rtype: T_SRV,
            class: 1 | FLUSH,
            ttl: 120,
            rdata: RData::Srv {
                priority: 0,
                weight: 0,
                port: case.port(i, ver),
                target: host,
            },
        },
        txt: Record {
            name,
            rtype: T_TXT,
            class: 1 | FLUSH,
            ttl: 4500,
            rdata: RData::Txt(case.txt_rdata(i, ver)),
        },
        addrs,
    })
}

fn target_name(case: &Case, model: &Model, t: Target, k: usize) -> Name {
    let n = case.svcs.len();
    match t {
        Target::Type(i) => Name::from_escaped(case.ty_text(i % n)),
        Target::Sub(i) => Name::from_escaped(&case.sub_text(i % n)),
        Target::Meta => Name::from_escaped(META),
        Target::Inst(i) => model.name_on[i % n][k]
            .clone()
            .unwrap_or_else(|| Name::from_escaped(&case.fullname_text(i % n))),
        Target::OrigInst(i) => Name::from_escaped(&case.fullname_text(i % n)),
        Target::Host(i) => model.host_on[i % n][k]
            .clone()
            .unwrap_or_else(|| Name::from_escaped(&case.host_text(i % n))),
        Target::Unknown => Name::from_escaped("nobody-here._http._tcp.local."),
    }
}

/// The known-answer record a spec stands for (built from the true record, then mutated).
pub fn ka_record(case: &Case, model: &Model, ka: &KaSpec, k: usize, v4: bool) -> Option<Record> {
    let n = case.svcs.len();
    let i = ka.svc % n;
    // use the true records if the service is announced, else a plausible stand-in
    let tr = true_recs(case, model, i, k, Some(v4)).or_else(|| {
        let mut m2 = Model {
            ver: model.ver.clone(),
            name_on: model.name_on.clone(),
            host_on: model.host_on.clone(),
        };
        m2.ver[i] = Some(m2.ver[i].unwrap_or(0));
        m2.name_on[i][k] = Some(Name::from_escaped(&case.fullname_text(i)));
        true_recs(case, &m2, i, k, Some(v4))
    })?;
    let mut r = match ka.rec {
        KaRec::Ptr => tr.ptr,
        KaRec::SubPtr => tr.sub_ptr.unwrap_or(tr.ptr),
        KaRec::Srv => tr.srv,
        KaRec::Txt => tr.txt,
        KaRec::Addr => tr.addrs.into_iter().next()?,
    };
    r.ttl = ka_ttl(r.ttl, ka.ttl);
    match ka.mutate {
        KaMut::Same => {}
        KaMut::OtherName => r.name.0.insert(0, b"x".to_vec()),
        KaMut::OtherRdata => {
            r.rdata = match r.rdata {
                RData::Ptr(mut n) => {
                    n.0[0].push(b'x');
                    RData::Ptr(n)
                }
                RData::Srv {
                    priority,
                    weight,
                    port,
                    target,
                } => RData::Srv {
                    priority,
                    weight,
                    port: port.wrapping_add(1),
                    target,
                },
                RData::Txt(mut t) => {
                    t.extend_from_slice(&[1, b'z']);
                    RData::Txt(t)
                }
                RData::A(a) => RData::A((u32::from(a) ^ 1).into()),
                RData::Aaaa(a) => RData::Aaaa((u128::from(a) ^ 1).into()),
                o => o,
            }
        }
        KaMut::OtherType => {
            // same owner, a TXT record instead
            r.rtype = T_TXT;
            r.rdata = RData::Txt(vec![0]);
        }
        KaMut::OtherClass => r.class = (r.class & FLUSH) | 3,
        KaMut::OtherCase => r.name = cased(&r.name, 1),
    }
    Some(r)
}

pub fn build_query(case: &Case, q: &QuerySpec, k: usize, model: &Model) -> Vec<u8> {
    let v4 = !(if q.v6 { case.ifs[k].v6 } else { !case.ifs[k].v4 });
    let questions: Vec<Question> = q
        .questions
        .iter()
        .map(|qs| Question {
            name: cased(&target_name(case, model, qs.target, k), qs.case_var),
            qtype: qs.qtype,
            qclass: 1 | if qs.qu { 0x8000 } else { 0 },
        })
        .collect();
    let known: Vec<Record> = q.known.iter().filter_map(|ka| ka_record(case, model, ka, k, v4)).collect();
    peer::query(q.id, questions, known, vec![])
}

#[derive(Clone, Copy, PartialEq, Eq, Debug)]
pub enum Supp {
    No,
    Yes,
    Either,
}

/// Known-answer rule of the statement: the same record (owner, type, class, RDATA) listed with
/// a TTL above half of ours suppresses; below half never; exactly half either way. A listed
/// record that differs only in the letter case of its owner name is left open (`Either`).
pub fn suppressed(ours: &Record, known: &[Record]) -> Supp {
    let mut out = Supp::No;
    for kr in known {
        let same_data = kr.rtype == ours.rtype && kr.class_only() == ours.class_only() && kr.rdata == ours.rdata;
        if !same_data {
            // RDATA names differing only in case: open
            let rdata_case = match (&kr.rdata, &ours.rdata) {
                (RData::Ptr(a), RData::Ptr(b)) => a.eq_ignore_case(b),
                (
                    RData::Srv {
                        port: p1, target: t1, ..
                    },
                    RData::Srv {
                        port: p2, target: t2, ..
                    },
                ) => p1 == p2 && t1.eq_ignore_case(t2),
                _ => false,
            };
            if rdata_case && kr.rtype == ours.rtype && kr.class_only() == ours.class_only() && kr.name.eq_ignore_case(&ours.name) && kr.ttl as u64 * 2 >= ours.ttl as u64 {
                out = Supp::Either;
            }
            continue;
        }
        if !kr.name.eq_ignore_case(&ours.name) {
            continue;
        }
        let exact_case = kr.name == ours.name;
        let half2 = ours.ttl as u64; // compare 2*ttl_k with ttl_r
        let k2 = kr.ttl as u64 * 2;
        let verdict = if k2 > half2 + 1 {
            // strictly above half (also above the rounded-down half)
            Supp::Yes
        } else if k2 + 1 < half2 {
            Supp::No
        } else {
            Supp::Either
        };
        let verdict = if !exact_case && verdict == Supp::Yes {
            Supp::Either
        } else {
            verdict
        };
        match (out, verdict) {
            (_, Supp::Yes) => return Supp::Yes,
            (Supp::No, v) => out = v,
            _ => {}
        }
    }
    out
}

#[derive(Default)]
pub struct Expect {
    pub must: Vec<Record>,
    pub may: Vec<Record>,
    /// additionals that must accompany (present in additionals or answers)
    pub must_additional: Vec<Record>,
    pub may_additional: Vec<Record>,
    /// answers left out because of known answers (must not appear as answers)
    pub suppressed: Vec<Record>,
}

fn push_unique(v: &mut Vec<Record>, r: Record) {
    if !v.contains(&r) {
        v.push(r);
    }
}

/// What the statement requires as the response to `q` arriving on interface k.
pub fn expectation(case: &Case, model: &Model, q: &QuerySpec, k: usize, v4_transport: bool, known: &[Record]) -> Expect {
    let n = case.svcs.len();
    let mut e = Expect::default();
    // Whether some question names a record owner in another letter case than the record's own:
    // the statement says "that same record (owner, type, class, RDATA)" without saying whether
    // owners are compared case-insensitively then, so suppression is left open for those.
    let case_varied_question = q.questions.iter().any(|qs| qs.case_var % 4 != 0);
    let mut answer = |e: &mut Expect, r: Record, open: bool, adds: Vec<Record>, may_adds: Vec<Record>| {
        if open {
            push_unique(&mut e.may, r);
            for a in adds.into_iter().chain(may_adds) {
                push_unique(&mut e.may_additional, a);
            }
            return;
        }
        let verdict = match suppressed(&r, known) {
            Supp::Yes if case_varied_question => Supp::Either,
            v => v,
        };
        match verdict {
            Supp::Yes => {
                push_unique(&mut e.suppressed, r);
                for a in adds.into_iter().chain(may_adds) {
                    push_unique(&mut e.may_additional, a);
                }
            }
            Supp::Either => {
                push_unique(&mut e.may, r);
                for a in adds.into_iter().chain(may_adds) {
                    push_unique(&mut e.may_additional, a);
                }
            }
            Supp::No => {
                push_unique(&mut e.must, r);
                for a in adds {
                    push_unique(&mut e.must_additional, a);
                }
                for a in may_adds {
                    push_unique(&mut e.may_additional, a);
                }
            }
        }
    };
    for qs in &q.questions {
        let qname = cased(&target_name(case, model, qs.target, k), qs.case_var);
        for i in 0..n {
            // announced on this interface, with the values of the most recent register
            let Some(tr) = true_recs(case, model, i, k, None) else { continue };
            let ver = model.ver[i].unwrap();
            let fam_addrs: Vec<Record> = tr.addrs.iter().filter(|r| (r.rtype == T_A) == v4_transport).cloned().collect();
            let other_addrs: Vec<Record> = tr.addrs.iter().filter(|r| (r.rtype == T_A) != v4_transport).cloned().collect();
            let has_fam = !case.usable(i, ver, k, v4_transport).is_empty();
            let has_any = has_fam || !case.usable(i, ver, k, !v4_transport).is_empty();
            if !has_any {
                continue;
            }
            let ty = &tr.ptr.name;
            let meta = Name::from_escaped(META);
            if qs.qtype == T_PTR || qs.qtype == T_ANY {
                let is_type = qname.eq_ignore_case(ty);
                let is_sub = tr.sub_ptr.as_ref().is_some_and(|s| qname.eq_ignore_case(&s.name));
                if (is_type || is_sub) && qs.qtype == T_PTR {
                    // letter case of service types: the statement promises case-insensitivity for
                    // instance and host names only
                    let exact = qname == *ty || tr.sub_ptr.as_ref().is_some_and(|s| qname == s.name);
                    let open = !exact || !has_fam;
                    let mut adds = vec![tr.srv.clone(), tr.txt.clone()];
                    adds.extend(fam_addrs.iter().cloned());
                    let mut may_adds: Vec<Record> = other_addrs.clone();
                    if is_type {
                        may_adds.extend(tr.sub_ptr.clone());
                        answer(&mut e, tr.ptr.clone(), open, adds, may_adds);
                    } else {
                        // subtype question: the subtype PTR answers it; the crate may also send
                        // the type PTR. Either section is accepted for the subtype PTR.
                        let sp = tr.sub_ptr.clone().unwrap();
                        push_unique(&mut e.may, tr.ptr.clone());
                        if open {
                            push_unique(&mut e.may, sp.clone());
                            push_unique(&mut e.may_additional, sp);
                        } else {
                            match suppressed(&sp, known) {
                                Supp::No => push_unique(&mut e.must_additional, sp.clone()),
                                _ => push_unique(&mut e.may_additional, sp.clone()),
                            }
                            push_unique(&mut e.may, sp);
                        }
                        for a in adds.into_iter().chain(may_adds) {
                            push_unique(&mut e.may_additional, a);
                        }
                    }
                }
                if qname.eq_ignore_case(&meta) && qs.qtype == T_PTR {
                    let r = Record {
                        name: meta.clone(),
                        rtype: T_PTR,
                        class: 1,
                        ttl: 4500,
                        rdata: RData::Ptr(ty.clone()),
                    };
                    answer(&mut e, r, qname != meta, vec![], vec![]);
                }
            }
            if qname.eq_ignore_case(&tr.srv.name) {
                let open = !has_fam;
                if qs.qtype == T_SRV || qs.qtype == T_ANY {
                    let may_adds: Vec<Record> = tr.addrs.clone();
                    answer(&mut e, tr.srv.clone(), open, vec![], may_adds);
                }
                if qs.qtype == T_TXT || qs.qtype == T_ANY {
                    answer(&mut e, tr.txt.clone(), open, vec![], vec![]);
                }
            }
            let host = match &tr.srv.rdata {
                RData::Srv { target, .. } => target.clone(),
                _ => unreachable!(),
            };
            if qname.eq_ignore_case(&host) {
                for a in &tr.addrs {
                    let wanted = qs.qtype == T_ANY || qs.qtype == a.rtype;
                    if wanted {
                        answer(&mut e, a.clone(), false, vec![], vec![]);
                    } else if qs.qtype == T_A || qs.qtype == T_AAAA {
                        // the other family as an additional: harmless, left open
                        push_unique(&mut e.may_additional, a.clone());
                    }
                }
            }
        }
    }
    // a record both demanded and left open is demanded; suppressed but demanded elsewhere: open
    e.may.retain(|r| !e.must.contains(r));
    e
}

fn rec_eq(a: &Record, b: &Record, legacy: bool) -> bool {
    let class_ok = if legacy {
        a.class & 0x7FFF == b.class & 0x7FFF
    } else {
        a.class == b.class
    };
    a.name.eq_ignore_case(&b.name) && a.rtype == b.rtype && class_ok && a.ttl == b.ttl && rdata_eq(&a.rdata, &b.rdata)
}

fn rdata_eq(a: &RData, b: &RData) -> bool {
    match (a, b) {
        (RData::Ptr(x), RData::Ptr(y)) => x.eq_ignore_case(y),
        (
            RData::Srv {
                priority: p1,
                weight: w1,
                port: o1,
                target: t1,
            },
            RData::Srv {
                priority: p2,
                weight: w2,
                port: o2,
                target: t2,
            },
        ) => p1 == p2 && w1 == w2 && o1 == o2 && t1.eq_ignore_case(t2),
        _ => a == b,
    }
}

pub struct JudgeStats {
    pub queries_matching: u64,
    pub legacy: u64,
    pub suppressed: u64,
    pub boundary: u64,
    pub after_rename: u64,
}

/// Judges every Query op of the run against the expectation. `prop` is "C06" or "C10".
pub fn judge(prop: &str, case: &Case, run: &Run, ctx: &mut CaseCtx) -> Option<JudgeStats> {
    let d = &run.world.daemons[run.di];
    let n = case.svcs.len();
    let nifs = case.ifs.len();
    macro_rules! fail {
        ($sig:expr, $($arg:tt)*) => {{
            ctx.violation(format!("{prop}/{}", $sig), format!("{}\n--- history ---\n{}", format!($($arg)*), render_log(&d.log, true, 60)));
            return None;
        }};
    }
    if let Some(m) = &d.dead {
        fail!(format!("daemon-died/{}", m.split(": ").next().unwrap_or("")), "daemon died: {m}");
    }
    let sent = match wire::index(&d.log) {
        Ok(s) => s,
        Err(pos) => fail!("wire/unparsable-packet", "packet at log position {pos} is rejected by the reference decoder"),
    };
    let mut stats = JudgeStats {
        queries_matching: 0,
        legacy: 0,
        suppressed: 0,
        boundary: 0,
        after_rename: 0,
    };
    for mk in &run.marks {
        let Op::Query(q) = &case.ops[mk.op] else { continue };
        let k = q.k % nifs;
        let v6 = if q.v6 { case.ifs[k].v6 } else { !case.ifs[k].v4 };
        let v4 = !v6;
        let regs = reg_ver_map(&case.ops[..mk.op], n);
        let model = Model::at(case, &d.log, mk.before, &regs);
        let known: Vec<Record> = q.known.iter().filter_map(|ka| ka_record(case, &model, ka, k, v4)).collect();
        let exp = expectation(case, &model, q, k, v4, &known);
        let responses: Vec<&Sent> = sent.iter().filter(|p| p.pos >= mk.before && p.pos < mk.after && p.m.is_response()).collect();
        let qdesc = format!(
            "query op {} at +{} ms on {} ({}{}): {}",
            mk.op,
            mk.t - T0,
            if_name(k),
            if v4 { "IPv4" } else { "IPv6" },
            if q.legacy { ", legacy source port" } else { "" },
            d.log[mk.before..mk.after]
                .iter()
                .find_map(|e| match &e.ev {
                    Ev::Rx { msg: Some(m), .. } => Some(render_message(m)),
                    _ => None,
                })
                .unwrap_or_default()
        );
        if !exp.must.is_empty() {
            stats.queries_matching += 1;
        }
        if !exp.suppressed.is_empty() {
            stats.suppressed += 1;
        }
        if q.known.iter().any(|ka| matches!(ka.ttl, KaTtl::HalfMinus1 | KaTtl::Half | KaTtl::HalfPlus1)) && (!exp.must.is_empty() || !exp.suppressed.is_empty() || !exp.may.is_empty()) {
            stats.boundary += 1;
        }
        let orig_names: Vec<Name> = (0..n).map(|i| Name::from_escaped(&case.fullname_text(i))).collect();
        if (0..n).any(|i| model.name_on[i][k].as_ref().is_some_and(|nm| !nm.eq_ignore_case(&orig_names[i]))) && !exp.must.is_empty() {
            stats.after_rename += 1;
        }
        // responses on other interfaces / families are never right
        for p in &responses {
            if p.if_index.is_some_and(|ix| ix != if_index(k)) {
                fail!("answer/on-other-interface", "{qdesc}\nresponse left on {}", p.if_name);
            }
        }
        if responses.len() > 1 {
            fail!("answer/more-than-one-response", "{qdesc}\n{} responses in the iteration that handled the query", responses.len());
        }
        let Some(resp) = responses.first() else {
            if let Some(r) = exp.must.first() {
                let after_rename = (0..n).any(|i| model.name_on[i][k].as_ref().is_some_and(|nm| !nm.eq_ignore_case(&orig_names[i]) && (r.name.eq_ignore_case(nm) || wire::ptr_target(r).is_some_and(|t| t.eq_ignore_case(nm)))));
                fail!(
                    format!("answer/missing/{}{}", type_name(r.rtype), if after_rename { "/after-rename" } else { "" }),
                    "{qdesc}\nno response, expected at least {}", render_record(r));
            }
            continue;
        };
        let legacy = q.legacy;
        if legacy {
            stats.legacy += 1;
        }
        // transport
        if legacy {
            let sender_port = 40000 + (q.id % 1000);
            if !resp.unicast {
                fail!("legacy/answered-by-multicast", "{qdesc}\nresponse to a query from port {sender_port} was multicast");
            }
            let want_ip: IpAddr = if v4 { IpAddr::V4(subnet_v4(k, 77)) } else { IpAddr::V6(subnet_v6(k, 77)) };
            if resp.dest.ip() != want_ip || resp.dest.port() != sender_port {
                fail!("legacy/wrong-destination", "{qdesc}\nunicast response went to {}, sender was {want_ip}:{sender_port}", resp.dest);
            }
            if resp.m.id != q.id {
                fail!("legacy/query-id-not-echoed", "{qdesc}\nquery id {} but response id {}", q.id, resp.m.id);
            }
            let qs: Vec<(Name, u16)> = d.log[mk.before..mk.after].iter().find_map(|e| match &e.ev {
                Ev::Rx { msg: Some(m), .. } => Some(m.questions.iter().map(|q| (q.name.lower(), q.qtype)).collect()),
                _ => None,
            }).unwrap_or_default();
            let echoed: Vec<(Name, u16)> = resp.m.questions.iter().map(|q| (q.name.lower(), q.qtype)).collect();
            if qs != echoed {
                fail!("legacy/question-not-echoed", "{qdesc}\nresponse questions {:?}", resp.m.questions);
            }
            if let Some(r) = resp.m.all_records().find(|r| r.flush()) {
                fail!("legacy/cache-flush-bit-set", "{qdesc}\nunicast legacy response carries {}", render_record(r));
            }
        } else {
            if resp.unicast {
                // QU questions may be answered by unicast (RFC 6762 5.4); otherwise multicast
                if !q.questions.iter().any(|x| x.qu) {
                    fail!("answer/unicast-to-5353-querier", "{qdesc}\nresponse sent by unicast to {}", resp.dest);
                }
            } else if resp.v4 != v4 {
                fail!("answer/wrong-ip-family", "{qdesc}\nresponse left over {}", if resp.v4 { "IPv4" } else { "IPv6" });
            }
            if !resp.m.questions.is_empty() && !resp.unicast {
                // harmless, but not what was added: left to C02
            }
        }
        // answers
        for a in &resp.m.answers {
            let ok = exp.must.iter().chain(exp.may.iter()).any(|r| rec_eq(a, r, legacy));
            if !ok {
                let was_suppressed = exp.suppressed.iter().any(|r| rec_eq(a, r, legacy));
                // classify
                let near = exp.must.iter().chain(exp.may.iter()).chain(exp.suppressed.iter()).find(|r| r.rtype == a.rtype && r.name.eq_ignore_case(&a.name));
                let why = if was_suppressed {
                    "known-answer-not-suppressed".to_string()
                } else if let Some(r) = near {
                    if r.ttl != a.ttl {
                        "wrong-ttl".to_string()
                    } else if (r.class != a.class) && !legacy {
                        "wrong-cache-flush-bit".to_string()
                    } else {
                        "wrong-value".to_string()
                    }
                } else if (a.rtype == T_A || a.rtype == T_AAAA) && wire::rec_ip(a).is_some_and(|ip| subnet_of(&ip) != Some(k)) {
                    "address-of-other-subnet".to_string()
                } else {
                    format!("unexpected-record/{}", type_name(a.rtype))
                };
                fail!(format!("answer/{why}"), "{qdesc}\nanswer {} is not among the expected records\nmust: {}\nmay: {}\nsuppressed: {}",
                    render_record(a),
                    exp.must.iter().map(render_record).collect::<Vec<_>>().join(" | "),
                    exp.may.iter().map(render_record).collect::<Vec<_>>().join(" | "),
                    exp.suppressed.iter().map(render_record).collect::<Vec<_>>().join(" | "));
            }
        }
        for r in &exp.must {
            if !resp.m.answers.iter().any(|a| rec_eq(a, r, legacy)) {
                let after_rename = (0..n).any(|i| model.name_on[i][k].as_ref().is_some_and(|nm| !nm.eq_ignore_case(&orig_names[i]) && (r.name.eq_ignore_case(nm) || wire::ptr_target(r).is_some_and(|t| t.eq_ignore_case(nm)))));
                let wrongly_suppressed = known.iter().any(|kr| kr.rtype == r.rtype && kr.name.eq_ignore_case(&r.name));
                fail!(
                    format!("answer/missing/{}{}{}", type_name(r.rtype), if after_rename { "/after-rename" } else { "" }, if wrongly_suppressed { "/suppressed-without-cause" } else { "" }),
                    "{qdesc}\nexpected answer {} is missing from the response {}", render_record(r), render_message(resp.m));
            }
        }
        // additionals
        let answered_any_must_additional: Vec<&Record> = exp.must_additional.iter().collect();
        for r in answered_any_must_additional {
            let present = resp.m.additionals.iter().chain(resp.m.answers.iter()).any(|a| rec_eq(a, r, legacy));
            if !present {
                fail!(format!("additional/missing/{}", type_name(r.rtype)), "{qdesc}\nadditional {} missing from {}", render_record(r), render_message(resp.m));
            }
        }
        for a in &resp.m.additionals {
            let ok = exp.must_additional.iter().chain(exp.may_additional.iter()).chain(exp.must.iter()).chain(exp.may.iter()).any(|r| rec_eq(a, r, legacy));
            if !ok {
                let near = exp.must_additional.iter().chain(exp.may_additional.iter()).find(|r| r.rtype == a.rtype && r.name.eq_ignore_case(&a.name));
                let why = match near {
                    Some(r) if r.ttl != a.ttl => "wrong-ttl",
                    Some(r) if r.class != a.class && !legacy => "wrong-cache-flush-bit",
                    Some(_) => "wrong-value",
                    None if (a.rtype == T_A || a.rtype == T_AAAA) && wire::rec_ip(a).is_some_and(|ip| subnet_of(&ip) != Some(k)) => "address-of-other-subnet",
                    None => "unexpected-record",
                };
                fail!(format!("additional/{why}"), "{qdesc}\nadditional {} is not a record the answers bring along\nallowed: {}", render_record(a),
                    exp.must_additional.iter().chain(exp.may_additional.iter()).map(render_record).collect::<Vec<_>>().join(" | "));
            }
        }
        if !resp.m.authorities.is_empty() {
            fail!("answer/authority-section-not-empty", "{qdesc}\n{}", render_message(resp.m));
        }
    }
    Some(stats)
}

// ---------------------------------------------------------------------------------------------
// Generators
// ---------------------------------------------------------------------------------------------

pub fn svc_strategy() -> BoxedStrategy<SvcDef> {
    (
        prop_oneof![3 => simple_label(), 2 => "[A-Z][a-z]{1,5} [A-Z][a-z]{1,4}", 1 => "[a-zé]{2,8}"],
        0usize..3,
        proptest::bool::weighted(0.3),
        prop_oneof![4 => Just((true, false)), 3 => Just((true, true)), 1 => Just((false, true))],
        proptest::collection::vec(proptest::bool::weighted(0.8), 3),
        proptest::bool::weighted(0.6),
    )
        .prop_map(|(inst, ty, sub, (v4, v6), on, probe)| SvcDef {
            inst,
            ty,
            sub,
            v4,
            v6,
            on,
            probe,
        })
        .boxed()
}

pub fn target_strategy() -> BoxedStrategy<Target> {
    prop_oneof![
        4 => (0usize..3).prop_map(Target::Type),
        2 => (0usize..3).prop_map(Target::Sub),
        1 => Just(Target::Meta),
        4 => (0usize..3).prop_map(Target::Inst),
        1 => (0usize..3).prop_map(Target::OrigInst),
        3 => (0usize..3).prop_map(Target::Host),
        1 => Just(Target::Unknown),
    ]
    .boxed()
}

pub fn question_strategy() -> BoxedStrategy<QSpec> {
    (
        target_strategy(),
        prop_oneof![3 => Just(T_PTR), 2 => Just(T_SRV), 2 => Just(T_TXT), 2 => Just(T_A), 2 => Just(T_AAAA), 3 => Just(T_ANY), 1 => Just(T_NSEC), 1 => Just(T_HINFO), 1 => Just(T_CNAME)],
        prop_oneof![4 => Just(0u8), 1 => Just(1u8), 1 => Just(2u8), 1 => Just(3u8)],
        proptest::bool::weighted(0.1),
    )
        .prop_map(|(target, qtype, case_var, qu)| {
            // pair targets with sensible types most of the time
            let qtype = match target {
                Target::Type(_) | Target::Sub(_) | Target::Meta if qtype != T_ANY && qtype != T_SRV => T_PTR,
                _ => qtype,
            };
            QSpec {
                target,
                qtype,
                case_var,
                qu,
            }
        })
        .boxed()
}

pub fn ka_strategy(boundary: bool) -> BoxedStrategy<KaSpec> {
    let ttl = if boundary {
        prop_oneof![1 => Just(KaTtl::Zero), 1 => Just(KaTtl::One), 2 => Just(KaTtl::HalfMinus1), 2 => Just(KaTtl::Half), 2 => Just(KaTtl::HalfPlus1), 1 => Just(KaTtl::Full), 1 => Just(KaTtl::Max)].boxed()
    } else {
        prop_oneof![1 => Just(KaTtl::One), 1 => Just(KaTtl::Zero), 3 => Just(KaTtl::Full)].boxed()
    };
    let mutate = if boundary {
        prop_oneof![6 => Just(KaMut::Same), 1 => Just(KaMut::OtherName), 1 => Just(KaMut::OtherRdata), 1 => Just(KaMut::OtherType), 1 => Just(KaMut::OtherClass), 1 => Just(KaMut::OtherCase)].boxed()
    } else {
        prop_oneof![4 => Just(KaMut::Same), 1 => Just(KaMut::OtherName), 1 => Just(KaMut::OtherRdata)].boxed()
    };
    (
        0usize..3,
        prop_oneof![3 => Just(KaRec::Ptr), 1 => Just(KaRec::SubPtr), 2 => Just(KaRec::Srv), 2 => Just(KaRec::Txt), 2 => Just(KaRec::Addr)],
        ttl,
        mutate,
    )
        .prop_map(|(svc, rec, ttl, mutate)| KaSpec {
            svc,
            rec,
            ttl,
            mutate,
        })
        .boxed()
}

pub fn query_strategy(ka_weight: f64, boundary: bool, max_known: usize) -> BoxedStrategy<QuerySpec> {
    (
        0usize..3,
        proptest::bool::weighted(0.3),
        proptest::bool::weighted(0.2),
        any::<u16>(),
        proptest::collection::vec(question_strategy(), 1..=4),
        proptest::bool::weighted(ka_weight),
        proptest::collection::vec(ka_strategy(boundary), 0..=max_known),
    )
        .prop_map(|(k, v6, legacy, id, questions, with_ka, mut known)| {
            // aim most known answers at what the questions ask for
            for (j, ka) in known.iter_mut().enumerate() {
                if j % 4 == 3 {
                    continue; // keep some unrelated ones
                }
                let q = &questions[j % questions.len()];
                match q.target {
                    Target::Type(i) => {
                        ka.svc = i;
                        ka.rec = KaRec::Ptr;
                    }
                    Target::Sub(i) => {
                        ka.svc = i;
                        ka.rec = KaRec::SubPtr;
                    }
                    Target::Inst(i) | Target::OrigInst(i) => {
                        ka.svc = i;
                        ka.rec = if q.qtype == T_TXT || (q.qtype == T_ANY && j % 2 == 0) { KaRec::Txt } else { KaRec::Srv };
                    }
                    Target::Host(i) => {
                        ka.svc = i;
                        ka.rec = KaRec::Addr;
                    }
                    _ => {}
                }
            }
            QuerySpec {
                k,
                v6,
                legacy,
                id,
                questions,
                known: if with_ka { known } else { vec![] },
            }
        })
        .boxed()
}

pub fn case_strategy(ka_weight: f64, boundary: bool, max_known: usize) -> BoxedStrategy<Case> {
    let op = prop_oneof![
        4 => (0usize..3, 0u8..3).prop_map(|(i, ver)| Op::Register { i, ver }),
        1 => (0usize..3).prop_map(|i| Op::Unregister { i }),
        1 => (0usize..3, any::<bool>()).prop_map(|(i, host)| Op::Conflict { i, host }),
        5 => prop_oneof![1 => Just(0u64), 1 => Just(300), 2 => Just(760), 3 => Just(1100), 2 => Just(2100), 2 => Just(5500), 2 => 0u64..2500].prop_map(|ms| Op::Advance { ms }),
        8 => query_strategy(ka_weight, boundary, max_known).prop_map(Op::Query),
    ];
    (
        iftable(3),
        prop_oneof![Just(0u64), Just(100), 0u64..250],
        proptest::bool::weighted(0.3),
        proptest::collection::vec(svc_strategy(), 1..=3),
        proptest::collection::vec(op, 2..18),
        0u8..4,
    )
        .prop_map(|(ifs, jitter, shared_host, mut svcs, mut ops, start)| {
            for i in 0..svcs.len() {
                for j in 0..i {
                    if svcs[i].inst.to_lowercase() == svcs[j].inst.to_lowercase() && svcs[i].ty == svcs[j].ty {
                        svcs[i].inst = format!("{}{}", svcs[i].inst, i);
                    }
                }
            }
            // start most histories with a registration that gets announced
            match start {
                0 => {}
                1 => {
                    // a service that loses its name while probing and is announced renamed
                    svcs[0].probe = true;
                    ops.insert(0, Op::Register { i: 0, ver: 0 });
                    ops.insert(1, Op::Conflict { i: 0, host: false });
                    ops.insert(2, Op::Advance { ms: 2300 });
                }
                _ => {
                    ops.insert(0, Op::Register { i: 0, ver: 0 });
                    ops.insert(1, Op::Advance { ms: 1100 });
                }
            }
            Case {
                ifs,
                jitter,
                shared_host: shared_host && svcs.len() >= 2,
                svcs,
                ops,
            }
        })
        .boxed()
}

pub fn sample(case: &Case, run: &Run) -> serde_json::Value {
    let d = &run.world.daemons[run.di];
    json!({
        "interfaces": case.ifs.iter().enumerate().map(|(k, i)| format!("{} v4={} v6={}", if_name(k), i.v4, i.v6)).collect::<Vec<_>>(),
        "ops": case.ops.iter().map(|o| format!("{o:?}").chars().take(160).collect::<String>()).collect::<Vec<_>>(),
        "history_tail": render_log(&d.log, true, 10).lines().map(|l| l.chars().take(240).collect::<String>()).collect::<Vec<_>>(),
    })
}

pub fn model_for_tests(_: &BTreeMap<u8, u8>) {}
