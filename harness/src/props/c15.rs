//! C15 - no API argument and no packet can crash a caller or kill the daemon (E3).

use crate::gen::*;
use crate::props::c01;
use crate::refdns::*;
use crate::runner::*;
use crate::sim::peer;
use crate::sim::*;
use mdns_sd::{DaemonStatus, IfKind, ServiceEvent, ServiceInfo};
use proptest::prelude::*;
use serde::{Deserialize, Serialize};
use serde_json::json;
use std::net::{IpAddr, Ipv4Addr, SocketAddr};
use std::panic::{catch_unwind, AssertUnwindSafe};
use std::time::Duration;

const CTL_TY: &str = "_ctl._udp.local.";
const CTL_HOST: &str = "ctlhost.local.";
const BROWSED: &str = "_http._tcp.local.";
const RESOLVED_HOST: &str = "printer-7.local.";

#[derive(Clone, Debug, Serialize, Deserialize)]
pub enum IfSel {
    All,
    V4,
    V6,
    Name(String),
    Addr(String),
    LoV4,
    LoV6,
    IndexV4(u32),
    IndexV6(u32),
}

#[derive(Clone, Debug, Serialize, Deserialize)]
pub enum Op {
    Browse { ty: String, cache_only: bool },
    StopBrowse { ty: String },
    Resolve { host: String, timeout_ms: Option<u64> },
    StopResolve { host: String },
    Register { ty: String, inst: String, host: String, ip: String, port: u16, txt: Vec<(String, Option<String>)>, auto: bool, probe: bool, getters: String },
    Unregister { name: String },
    Verify { inst: String, timeout_ms: u64 },
    NameLenMax(u8),
    IpCheck(u32),
    Interface { enable: bool, sel: IfSel },
    UpDown { up: bool, name: String },
    Flags { which: u8, on: bool },
    /// a conflicting response / winning probe for the control registration's current names
    Conflict {
        host: bool,
        probe: bool,
        /// what the authority section of a probe holds: 0 records that differ from the daemon's, 1 only a
        /// record of another name, 2 a strict prefix of the daemon's own records, 3 its records and one more
        #[serde(default)]
        shape: u8,
    },
    /// a datagram: hex bytes
    Packet { k: usize, v6: bool, hex: String },
    Advance { ms: u64 },
}

#[derive(Clone, Debug, Serialize, Deserialize)]
pub struct Case {
    pub ifs: Vec<IfSpec>,
    /// instance label of the control registration (plain, or long enough to overflow on a rename)
    pub ctl_label: String,
    pub ops: Vec<Op>,
}

fn hex(b: &[u8]) -> String {
    b.iter().map(|x| format!("{x:02x}")).collect()
}
fn unhex(s: &str) -> Vec<u8> {
    (0..s.len() / 2).filter_map(|i| u8::from_str_radix(&s[2 * i..2 * i + 2], 16).ok()).collect()
}

fn panic_signature(kind: &str, text: &str) -> String {
    // "<file>:<line>: <message>" -> file name and the start of the message (line numbers move)
    let (loc, msg) = text.split_once(": ").unwrap_or((text, ""));
    let file = loc.rsplit('/').next().unwrap_or(loc).split(':').next().unwrap_or("?");
    let msg: String = msg
        .chars()
        .map(|c| if c.is_ascii_digit() { '#' } else { c })
        .take(48)
        .collect::<String>()
        .replace("##", "#")
        .replace("##", "#");
    format!("C15/{kind}/{file}/{}", msg.trim())
}

fn to_ifkind(s: &IfSel) -> Option<IfKind> {
    Some(match s {
        IfSel::All => IfKind::All,
        IfSel::V4 => IfKind::IPv4,
        IfSel::V6 => IfKind::IPv6,
        IfSel::Name(n) => IfKind::Name(n.clone()),
        IfSel::Addr(a) => IfKind::Addr(a.parse::<IpAddr>().ok()?),
        IfSel::LoV4 => IfKind::LoopbackV4,
        IfSel::LoV6 => IfKind::LoopbackV6,
        IfSel::IndexV4(i) => IfKind::IndexV4(*i),
        IfSel::IndexV6(i) => IfKind::IndexV6(*i),
    })
}

fn src_for(ifs: &[IfSpec], k: usize, v6: bool, h: u8) -> SocketAddr {
    let k = k % ifs.len();
    if (v6 && ifs[k].v6) || !ifs[k].v4 {
        SocketAddr::new(IpAddr::V6(subnet_v6(k, h as u16)), MDNS_PORT)
    } else {
        SocketAddr::new(IpAddr::V4(subnet_v4(k, h)), MDNS_PORT)
    }
}

pub fn check(case: &Case, ctx: &mut CaseCtx) {
    let _ = mdns_sd::verif::take_last_panic();
    let mut d = match SimDaemon::new("D", sim_ifs(&case.ifs), T0, 15) {
        Ok(d) => d,
        Err(e) => {
            ctx.violation("C15/harness/spawn", e);
            return;
        }
    };
    let _ = d.d.set_ip_check_interval(1_000_000);
    d.h.set_jitter_default(Some(0));
    let _ = d.monitor();
    let mut w = World::new(T0);
    let di = w.add(d);
    // ---- the daemon is busy: a browse, a host name search and a registration
    let k0_v4 = case.ifs[0].v4;
    let ctl_addr = if k0_v4 { IpAddr::V4(subnet_v4(0, 40)) } else { IpAddr::V6(subnet_v6(0, 40)) };
    let mut ctl_ok = false;
    {
        let dm = &mut w.daemons[di];
        let _ = dm.browse(BROWSED);
        let _ = dm.resolve_hostname(RESOLVED_HOST, None);
        if let Ok(info) = ServiceInfo::new(CTL_TY, &case.ctl_label, CTL_HOST, ctl_addr, 4000, &[("k", "v")][..]) {
            ctl_ok = dm.register(info).is_ok();
        }
    }
    w.advance(2500);
    let ctl_ty = Name::from_escaped(CTL_TY);
    // current names of the control registration, read from what the daemon sends
    let ctl_names = |d: &SimDaemon| -> (Option<Name>, Option<Name>) {
        let mut inst = None;
        let mut host = None;
        for e in &d.log {
            if let Ev::Tx(tx) = &e.ev {
                if let Some(m) = &tx.msg {
                    for r in m.authorities.iter().chain(m.answers.iter()) {
                        if let RData::Srv { target, .. } = &r.rdata {
                            if r.name.0.len() == ctl_ty.0.len() + 1 && Name(r.name.0[1..].to_vec()).eq_ignore_case(&ctl_ty) {
                                inst = Some(r.name.clone());
                                host = Some(target.clone());
                            }
                        }
                    }
                }
            }
        }
        (inst, host)
    };

    let mut caller_panic: Option<(String, String)> = None;
    let mut interface_ops = false;
    let mut n_api = 0u32;
    let mut n_api_err = 0u32;
    let mut n_api_ok = 0u32;
    let mut n_packets = 0u32;
    let mut n_conflicts = 0u32;
    let mut n_ctl2 = 0u32;
    let mut reg_ok = 0u32;
    let mut call = |what: String, f: &mut dyn FnMut(&mut SimDaemon) -> Result<(), String>, dm: &mut SimDaemon, caller_panic: &mut Option<(String, String)>| {
        dm.api(what.clone());
        n_api += 1;
        let r = catch_unwind(AssertUnwindSafe(|| f(dm)));
        match r {
            Ok(Ok(())) => n_api_ok += 1,
            Ok(Err(_)) => n_api_err += 1,
            Err(_) => {
                let text = mdns_sd::verif::take_last_panic().unwrap_or_else(|| "panic".into());
                if caller_panic.is_none() {
                    *caller_panic = Some((what, text));
                }
            }
        }
    };
    for op in &case.ops {
        if !w.daemons[di].alive() || caller_panic.is_some() {
            break;
        }
        w.settle();
        let now = w.now;
        let dm = &mut w.daemons[di];
        dm.set_now(now);
        match op {
            Op::Browse { ty, cache_only } => call(
                format!("browse{}({ty:?})", if *cache_only { "_cache" } else { "" }),
                &mut |dm| if *cache_only { dm.browse_cache(ty) } else { dm.browse(ty) }.map(|_| ()).map_err(|e| e.to_string()),
                dm,
                &mut caller_panic,
            ),
            Op::StopBrowse { ty } => call(format!("stop_browse({ty:?})"), &mut |dm| dm.stop_browse(ty).map_err(|e| e.to_string()), dm, &mut caller_panic),
            Op::Resolve { host, timeout_ms } => call(
                format!("resolve_hostname({host:?}, {timeout_ms:?})"),
                &mut |dm| dm.resolve_hostname(host, *timeout_ms).map(|_| ()).map_err(|e| e.to_string()),
                dm,
                &mut caller_panic,
            ),
            Op::StopResolve { host } => call(format!("stop_resolve_hostname({host:?})"), &mut |dm| dm.stop_resolve_hostname(host).map_err(|e| e.to_string()), dm, &mut caller_panic),
            Op::Register { ty, inst, host, ip, port, txt, auto, probe, getters } => {
                let mut ok = false;
                call(
                    format!("ServiceInfo::new({ty:?}, {inst:?}, {host:?}, {ip:?}, {port}, {txt:?}) auto={auto} probe={probe}; register"),
                    &mut |dm| {
                        let props: Vec<mdns_sd::TxtProperty> = txt
                            .iter()
                            .map(|(k, v)| match v {
                                Some(v) => mdns_sd::TxtProperty::from((k.as_str(), v.as_str())),
                                None => mdns_sd::TxtProperty::from(k.as_str()),
                            })
                            .collect();
                        let mut info = ServiceInfo::new(ty, inst, host, ip.as_str(), *port, props).map_err(|e| e.to_string())?;
                        if *auto {
                            info = info.enable_addr_auto();
                        }
                        info.set_requires_probe(*probe);
                        // every getter, with a hostile key
                        let _ = info.get_type();
                        let _ = info.get_subtype();
                        let _ = info.get_fullname();
                        let _ = info.get_hostname();
                        let _ = info.get_port();
                        let _ = info.get_addresses();
                        let _ = info.get_addresses_v4();
                        let _ = info.get_property(getters);
                        let _ = info.get_property_val(getters);
                        let _ = info.get_property_val_str(getters);
                        let _ = format!("{:?} {}", info.get_properties(), info.get_properties());
                        let rs = info.clone().as_resolved_service();
                        let _ = (rs.is_valid(), rs.get_property_val_str(getters), format!("{rs:?}"));
                        dm.register(info).map_err(|e| e.to_string())?;
                        ok = true;
                        Ok(())
                    },
                    dm,
                    &mut caller_panic,
                );
                if ok {
                    reg_ok += 1;
                }
            }
            Op::Unregister { name } => call(format!("unregister({name:?})"), &mut |dm| dm.unregister(name).map_err(|e| e.to_string()), dm, &mut caller_panic),
            Op::Verify { inst, timeout_ms } => call(
                format!("verify({inst:?}, {timeout_ms} ms)"),
                &mut |dm| dm.d.verify(inst.clone(), Duration::from_millis(*timeout_ms)).map_err(|e| e.to_string()),
                dm,
                &mut caller_panic,
            ),
            Op::NameLenMax(n) => call(format!("set_service_name_len_max({n})"), &mut |dm| dm.d.set_service_name_len_max(*n).map_err(|e| e.to_string()), dm, &mut caller_panic),
            Op::IpCheck(n) => call(format!("set_ip_check_interval({n})"), &mut |dm| dm.d.set_ip_check_interval(*n).map_err(|e| e.to_string()), dm, &mut caller_panic),
            Op::Interface { enable, sel } => {
                interface_ops = true;
                let Some(kind) = to_ifkind(sel) else { continue };
                call(
                    format!("{}_interface({sel:?})", if *enable { "enable" } else { "disable" }),
                    &mut |dm| if *enable { dm.d.enable_interface(kind.clone()) } else { dm.d.disable_interface(kind.clone()) }.map_err(|e| e.to_string()),
                    dm,
                    &mut caller_panic,
                )
            }
            Op::UpDown { .. } => {
                // test_up_interface / test_down_interface only exist in the crate's own test builds
            }
            Op::Flags { which, on } => call(
                format!("flag#{which}({on})"),
                &mut |dm| {
                    match which % 4 {
                        0 => dm.d.accept_unsolicited(*on),
                        1 => dm.d.include_apple_p2p(*on),
                        2 => dm.d.get_metrics().map(|_| ()),
                        // (get_ip_check_interval() blocks until the daemon answers: not callable from the thread that steps the daemon)
                        _ => dm.d.status().map(|_| ()),
                    }
                    .map_err(|e| e.to_string())
                },
                dm,
                &mut caller_panic,
            ),
            Op::Conflict { host, probe, shape } => {
                // a further control registration with the same (possibly overflowing) label and a
                // host label of the same kind is attacked while it is still probing
                n_ctl2 += 1;
                // (a prefix of 0, 1 or 2 bytes moves multi-byte characters across the place where a
                // rename has to cut the label)
                let mut label = format!("{}{}", ["", "7", "42", "", "8", "53"][n_ctl2 as usize % 6], case.ctl_label);
                while label.len() > 63 {
                    label.pop();
                }
                let host_label: String = label.chars().filter(|c| !matches!(c, ' ' | '(' | ')')).collect();
                if let Ok(info) = ServiceInfo::new(CTL_TY, &label, &format!("{host_label}.local."), ctl_addr, 4001, &[("k", "v")][..]) {
                    let _ = dm.register(info);
                }
                w.advance(if *probe { 20 } else { 300 });
                let dm = &mut w.daemons[di];
                let (inst, hostn) = ctl_names(dm);
                let (Some(inst), Some(hostn)) = (inst, hostn) else { continue };
                let src = src_for(&case.ifs, 0, false, 77);
                let peer_ip = if k0_v4 { IpAddr::V4(subnet_v4(0, 250)) } else { IpAddr::V6(subnet_v6(0, 250)) };
                let recs = if *host {
                    vec![peer::addr_rec(&hostn, peer_ip, 120, !*probe)]
                } else {
                    vec![
                        Record { name: inst.clone(), rtype: T_TXT, class: 1 | FLUSH, ttl: 4500, rdata: RData::Txt(b"\x03z=z".to_vec()) },
                        Record { name: inst.clone(), rtype: T_SRV, class: 1 | FLUSH, ttl: 120, rdata: RData::Srv { priority: 9, weight: 9, port: 9999, target: Name::from_escaped("zzz.local.") } },
                    ]
                };
                let own_txt = Record { name: inst.clone(), rtype: T_TXT, class: 1 | FLUSH, ttl: 4500, rdata: RData::Txt(b"\x03k=v".to_vec()) };
                let own_srv = Record { name: inst.clone(), rtype: T_SRV, class: 1 | FLUSH, ttl: 120, rdata: RData::Srv { priority: 0, weight: 0, port: 4001, target: hostn.clone() } };
                let recs = match (*probe, *shape % 4) {
                    (true, 1) => vec![peer::addr_rec(&Name::from_escaped("somebody-else.local."), peer_ip, 120, false)],
                    (true, 2) if !*host => vec![own_txt],
                    (true, 3) if !*host => {
                        let mut v = vec![own_txt, own_srv];
                        v.extend(recs);
                        v
                    }
                    _ => recs,
                };
                let bytes = if *probe {
                    peer::query(0, vec![peer::q(if *host { &hostn } else { &inst }, T_ANY)], vec![], recs)
                } else {
                    peer::response(recs, vec![])
                };
                n_conflicts += 1;
                dm.inject(if_index(0), src, bytes);
            }
            Op::Packet { k, v6, hex } => {
                n_packets += 1;
                let k = *k % case.ifs.len();
                dm.inject(if_index(k), src_for(&case.ifs, k, *v6, 99), unhex(hex));
            }
            Op::Advance { ms } => w.advance(*ms),
        }
        w.settle();
    }
    // deferred work: probing, announcing, follow-up queries, renames
    if w.daemons[di].alive() && caller_panic.is_none() {
        w.advance(12_000);
    }

    let detail = |w: &World| format!("ops: {}\n--- history (tail) ---\n{}", serde_json::to_string(&case.ops).unwrap_or_default().chars().take(1500).collect::<String>(), render_log(&w.daemons[di].log, true, 40));
    if let Some((what, text)) = &caller_panic {
        ctx.violation(&panic_signature("caller-panic", text), format!("the calling thread panicked in {what}: {text}\n{}", detail(&w)));
        w.finish();
        return;
    }
    if w.budget_exhausted {
        ctx.violation("C15/daemon-spins", format!("the daemon ran {} loop iterations without the virtual clock getting anywhere\n{}", w.total_steps, detail(&w)));
        w.finish();
        return;
    }
    if w.daemons[di].stuck {
        ctx.fatal = true;
        ctx.violation("C15/daemon-hung", format!("the daemon neither parked nor ended within 20 s of real time\n{}", detail(&w)));
        w.finish();
        return;
    }
    if let Some(why) = w.daemons[di].dead.clone() {
        ctx.violation(&panic_signature("daemon-died", &why), format!("the daemon thread ended: {why}\n{}", detail(&w)));
        w.finish();
        return;
    }
    if w.daemons[di].exited {
        ctx.violation("C15/daemon-exited", format!("the daemon thread returned although nobody shut it down\n{}", detail(&w)));
        w.finish();
        return;
    }
    // ---- goes on serving every other request
    let now = w.now;
    {
        let dm = &mut w.daemons[di];
        dm.set_now(now);
        let status = dm.d.status();
        dm.api("status()".into());
        let _ = dm.step();
        match status.map(|rx| rx.try_recv()) {
            Ok(Ok(DaemonStatus::Running)) => {}
            other => {
                ctx.violation("C15/status-not-running", format!("status() afterwards: {other:?}\n{}", detail(&w)));
                w.finish();
                return;
            }
        }
    }
    {
        let dm = &mut w.daemons[di];
        let pos = dm.log.len();
        let r = dm.browse("_health._udp.local.");
        let _ = dm.step();
        let started = dm.log[pos..].iter().any(|e| matches!(&e.ev, Ev::Svc { ev: ServiceEvent::SearchStarted(t), .. } if t.starts_with("_health._udp.local.")));
        let have_if = !interface_ops;
        if r.is_err() || (have_if && !started) {
            ctx.violation("C15/fresh-browse-not-served", format!("a new browse afterwards: call {:?}, SearchStarted delivered: {started}\n{}", r.map(|_| ()), detail(&w)));
            w.finish();
            return;
        }
    }
    if ctl_ok && !interface_ops {
        // the registration made at the beginning is still answered for (under its current name)
        let dm = &mut w.daemons[di];
        let pos = dm.log.len();
        dm.inject(if_index(0), src_for(&case.ifs, 0, false, 201), peer::query(0, vec![peer::q(&ctl_ty, T_PTR)], vec![], vec![]));
        let _ = dm.step();
        let answered = dm.log[pos..].iter().any(|e| matches!(&e.ev, Ev::Tx(tx) if tx.msg.as_ref().is_some_and(|m| m.is_response() && m.answers.iter().any(|r| r.rtype == T_PTR && r.name.eq_ignore_case(&ctl_ty)))));
        let unregistered = case.ops.iter().any(|o| matches!(o, Op::Unregister { name } if name.to_lowercase().ends_with(&CTL_TY.to_lowercase())));
        if !answered && !unregistered {
            ctx.violation(
                "C15/registered-service-no-longer-answered",
                format!("the service registered at the start ('{}' of {CTL_TY}) is not answered for any more\n{}", case.ctl_label, detail(&w)),
            );
            w.finish();
            return;
        }
    }
    ctx.count("api_calls", n_api as u64);
    ctx.count("api_refused", n_api_err as u64);
    ctx.count("packets", n_packets as u64);
    ctx.class_if(n_api_err > 0, "call-refused-with-error");
    ctx.class_if(n_api_ok > 0, "hostile-call-accepted");
    ctx.class_if(reg_ok > 0, "hostile-registration-accepted");
    ctx.class_if(n_packets > 0, "packets-delivered");
    ctx.class_if(n_conflicts > 0, "conflict-on-control-registration");
    let renames = w.daemons[di].log.iter().filter(|e| matches!(&e.ev, Ev::Mon(mdns_sd::DaemonEvent::NameChange(_)))).count();
    ctx.class_if(renames > 0, "renamed-after-conflict");
    ctx.class_if(renames > 0 && case.ctl_label.len() >= 59, "renamed-a-label-that-overflows");
    ctx.class_if(renames > 0 && case.ctl_label.len() >= 59 && !case.ctl_label.is_ascii(), "renamed-a-non-ascii-label-that-overflows");
    let errors = w.daemons[di].log.iter().filter(|e| matches!(&e.ev, Ev::Mon(mdns_sd::DaemonEvent::Error(_)))).count();
    ctx.class_if(errors > 0, "DaemonEvent::Error-reported");
    let found = w.daemons[di].log.iter().filter(|e| matches!(&e.ev, Ev::Svc { ev: ServiceEvent::ServiceFound(..), .. })).count();
    ctx.class_if(found > 0, "packet-led-to-ServiceFound");
    let resolved = w.daemons[di].log.iter().filter(|e| matches!(&e.ev, Ev::Svc { ev: ServiceEvent::ServiceResolved(..), .. })).count();
    ctx.class_if(resolved > 0, "packet-led-to-ServiceResolved");
    if n_api_ok + n_packets > 0 {
        ctx.nontrivial(format!("a{} e{} r{} p{} c{} f{} s{}", n_api_ok.min(6), n_api_err.min(6), reg_ok.min(2), n_packets.min(8), n_conflicts.min(2), found.min(3), resolved.min(2)));
    }
    if ctx.want_sample {
        ctx.sample = Some(json!({
            "ops": serde_json::to_string(&case.ops).unwrap_or_default().chars().take(700).collect::<String>(),
            "api_calls": n_api, "refused": n_api_err, "packets": n_packets,
        }));
    }
    w.finish();
}

// ---------------------------------------------------------------------------------------------
// generators
// ---------------------------------------------------------------------------------------------

const SPECIALS: &[char] = &['.', '.', '\\', '\\', '\u{e9}', '\u{4e2d}', '\u{1f600}', ' ', '\0', '_', '-', '(', ')', '=', ',', '%', '\u{7f}', '\n'];

/// A string near `base`: untouched, or with 1-3 edits (special characters inserted anywhere,
/// ranges removed or doubled, labels blown up to 62..1000 bytes, suffixes cut or doubled).
pub fn near(base: &'static str) -> BoxedStrategy<String> {
    let edit = (0u8..10, any::<u16>(), any::<u16>(), prop::sample::select(SPECIALS), prop::sample::select(vec![1usize, 15, 62, 63, 64, 65, 200, 254, 255, 256, 1000]));
    prop_oneof![
        3 => Just(base.to_string()),
        1 => Just(String::new()),
        8 => prop::collection::vec(edit, 1..4).prop_map(move |edits| {
            let mut s: Vec<char> = base.chars().collect();
            for (kind, a, b, sp, n) in edits {
                let len = s.len();
                let i = if len == 0 { 0 } else { a as usize % (len + 1) };
                let j = if len == 0 { 0 } else { b as usize % (len + 1) };
                let (lo, hi) = (i.min(j), i.max(j));
                match kind {
                    0 | 1 => s.insert(i, sp),
                    2 => {
                        s.drain(lo..hi);
                    }
                    3 => {
                        let dup: Vec<char> = s[lo..hi].to_vec();
                        s.splice(hi..hi, dup);
                    }
                    4 => {
                        // blow the label at i up to n bytes
                        let fill: Vec<char> = std::iter::repeat('a').take(n).collect();
                        s.splice(i..i, fill);
                    }
                    5 => s.truncate(i),
                    6 => {
                        let suffix: Vec<char> = ".local.".chars().collect();
                        s.extend(suffix);
                    }
                    7 => {
                        if let Some(p) = s.iter().rposition(|c| *c == '.') {
                            s.remove(p);
                        }
                    }
                    8 => s.push(sp),
                    _ => {
                        let fill: Vec<char> = std::iter::repeat(sp).take(n.min(300)).collect();
                        s.splice(i..i, fill);
                    }
                }
                if s.len() > 3000 {
                    s.truncate(3000);
                }
            }
            s.into_iter().collect()
        }),
        1 => "\\PC{0,40}".prop_map(|s| s),
    ]
    .boxed()
}

fn number_u64() -> BoxedStrategy<u64> {
    prop_oneof![Just(0u64), Just(1), Just(999), Just(1000), Just(u32::MAX as u64), Just(u64::MAX / 1000), Just(u64::MAX - 1), Just(u64::MAX), any::<u64>(), 0u64..5000].boxed()
}

fn api_op() -> BoxedStrategy<Op> {
    let ifsel = prop_oneof![
        Just(IfSel::All),
        Just(IfSel::V4),
        Just(IfSel::V6),
        near("eth0").prop_map(IfSel::Name),
        prop_oneof![Just("192.168.10.1".to_string()), Just("fd00:1::1".to_string()), Just("0.0.0.0".to_string()), Just("255.255.255.255".to_string())].prop_map(IfSel::Addr),
        Just(IfSel::LoV4),
        Just(IfSel::LoV6),
        prop_oneof![Just(0u32), Just(2), Just(3), Just(u32::MAX), any::<u32>()].prop_map(IfSel::IndexV4),
        prop_oneof![Just(0u32), Just(2), Just(u32::MAX)].prop_map(IfSel::IndexV6),
    ];
    let txt = prop::collection::vec((near("key"), prop::option::weighted(0.8, near("value"))), 0..4);
    prop_oneof![
        4 => (near("_http._tcp.local."), any::<bool>()).prop_map(|(ty, cache_only)| Op::Browse { ty, cache_only }),
        1 => near("_printer._sub._http._tcp.local.").prop_map(|ty| Op::Browse { ty, cache_only: false }),
        2 => near("_http._tcp.local.").prop_map(|ty| Op::StopBrowse { ty }),
        3 => (near("printer-7.local."), prop::option::weighted(0.6, number_u64())).prop_map(|(host, timeout_ms)| Op::Resolve { host, timeout_ms }),
        1 => near("printer-7.local.").prop_map(|host| Op::StopResolve { host }),
        // one hostile field at a time (the others valid), so that the call gets past validation
        8 => (
            0usize..5,
            prop_oneof![3 => near("_osc._udp.local."), 1 => near("_printer._sub._osc._udp.local.")],
            near("My Instance"),
            near("myhost.local."),
            near("192.168.10.60,10.0.0.1"),
            prop_oneof![Just(0u16), Just(80), Just(u16::MAX), any::<u16>()],
            txt.clone(),
            prop::bool::weighted(0.2),
            prop::bool::weighted(0.8),
            near("key"),
        )
            .prop_map(|(which, ty, inst, host, ip, port, txt, auto, probe, getters)| Op::Register {
                ty: if which == 0 { ty } else { "_osc._udp.local.".into() },
                inst: if which == 1 { inst } else { "My Instance".into() },
                host: if which == 2 { host } else { "myhost.local.".into() },
                ip: if which == 3 { ip } else { "192.168.10.60".into() },
                port,
                txt: if which == 4 { txt } else { vec![("key".into(), Some("value".into()))] },
                auto,
                probe,
                getters,
            }),
        3 => (
            prop_oneof![3 => near("_osc._udp.local."), 1 => near("_printer._sub._osc._udp.local.")],
            near("My Instance"),
            near("myhost.local."),
            prop_oneof![3 => Just("192.168.10.60".to_string()), 1 => Just("192.168.10.60,fd00:1::60".to_string()), 1 => Just(String::new()), 2 => near("192.168.10.60,10.0.0.1")],
            prop_oneof![Just(0u16), Just(80), Just(u16::MAX), any::<u16>()],
            txt,
            prop::bool::weighted(0.2),
            prop::bool::weighted(0.8),
            near("key"),
        )
            .prop_map(|(ty, inst, host, ip, port, txt, auto, probe, getters)| Op::Register { ty, inst, host, ip, port, txt, auto, probe, getters }),
        2 => prop_oneof![near("My Instance._osc._udp.local."), near("ctl._ctl._udp.local.")].prop_map(|name| Op::Unregister { name }),
        3 => (prop_oneof![near("inst._http._tcp.local."), near("ctl._ctl._udp.local.")], number_u64()).prop_map(|(inst, timeout_ms)| Op::Verify { inst, timeout_ms }),
        1 => any::<u8>().prop_map(Op::NameLenMax),
        1 => prop_oneof![Just(0u32), Just(1), Just(u32::MAX), any::<u32>()].prop_map(Op::IpCheck),
        2 => (any::<bool>(), ifsel).prop_map(|(enable, sel)| Op::Interface { enable, sel }),
        1 => (0u8..4, any::<bool>()).prop_map(|(which, on)| Op::Flags { which, on }),
        2 => (any::<bool>(), any::<bool>(), 0u8..4).prop_map(|(host, probe, shape)| Op::Conflict { host, probe, shape }),
        3 => prop_oneof![Just(0u64), Just(250), Just(1000), 0u64..4000].prop_map(|ms| Op::Advance { ms }),
    ]
    .boxed()
}

/// Labels as they can appear on the wire: dots, backslashes (also at the end), 63 bytes, non-UTF-8.
fn wire_label() -> BoxedStrategy<Vec<u8>> {
    prop_oneof![
        4 => "[a-z][a-z0-9-]{0,8}".prop_map(|s| s.into_bytes()),
        2 => "[a-z]{1,6}\\\\".prop_map(|s| s.into_bytes()),
        2 => "[a-z]{0,4}\\.[a-z]{0,4}".prop_map(|s| s.into_bytes()),
        1 => "\\\\{1,4}".prop_map(|s| s.into_bytes()),
        1 => "[a-z.\\\\]{1,12}".prop_map(|s| s.into_bytes()),
        2 => (prop::sample::select(vec![31usize, 40, 62, 63]), prop::sample::select(vec![b'a', b'.', b'\\']), any::<bool>()).prop_map(|(n, fill, tail)| {
            let mut v = vec![b'x'; n];
            if tail {
                v[n - 1] = fill;
            } else {
                for (i, b) in v.iter_mut().enumerate() {
                    if i % 7 == 3 {
                        *b = fill;
                    }
                }
            }
            v
        }),
        1 => prop::collection::vec(any::<u8>(), 1..20),
        1 => "[a-z\u{e9}\u{4e2d}]{1,10}".prop_map(|s| s.into_bytes()),
        1 => Just(b"_sub".to_vec()),
        1 => Just(b"inst (2)".to_vec()),
    ]
    .boxed()
}

/// Responses and queries about the names the daemon cares about, with hostile labels.
fn targeted_packet() -> BoxedStrategy<Vec<u8>> {
    (
        prop::collection::vec(wire_label(), 1..4),
        prop::collection::vec(wire_label(), 1..3),
        prop::collection::vec(any::<u8>(), 0..30),
        0u8..8,
        any::<u16>(),
        prop_oneof![Just(0u32), Just(1), Just(120), Just(4500), Just(u32::MAX), any::<u32>()],
        any::<bool>(),
    )
        .prop_map(|(inst_labels, host_labels, txt, shape, port, ttl, compress)| {
            let browsed = Name::from_escaped(BROWSED);
            let mut inst = Name(inst_labels.clone());
            inst.0.extend(browsed.0.iter().cloned());
            let mut host = Name(host_labels.clone());
            host.0.push(b"local".to_vec());
            let resolved = Name::from_escaped(RESOLVED_HOST);
            let ctl_ty = Name::from_escaped(CTL_TY);
            let ptr = Record { name: browsed.clone(), rtype: T_PTR, class: 1, ttl, rdata: RData::Ptr(inst.clone()) };
            let srv = Record { name: inst.clone(), rtype: T_SRV, class: 1 | FLUSH, ttl, rdata: RData::Srv { priority: 0, weight: 0, port, target: host.clone() } };
            let txtr = Record { name: inst.clone(), rtype: T_TXT, class: 1 | FLUSH, ttl, rdata: RData::Txt(txt.clone()) };
            let a = peer::addr_rec(&host, IpAddr::V4(Ipv4Addr::new(192, 168, 10, 99)), ttl, true);
            let a_res = peer::addr_rec(&Name(vec![resolved.0[0].to_ascii_uppercase(), b"local".to_vec()]), IpAddr::V4(Ipv4Addr::new(192, 168, 10, 98)), ttl, true);
            let nsec = Record { name: inst.clone(), rtype: T_NSEC, class: 1 | FLUSH, ttl, rdata: RData::Nsec(inst.clone(), vec![0, 5, 0, 0, 0x80, 0, 0x40]) };
            let sub_ptr = {
                let mut n = Name(vec![inst_labels[0].clone(), b"_sub".to_vec()]);
                n.0.extend(browsed.0.iter().cloned());
                Record { name: n, rtype: T_PTR, class: 1, ttl, rdata: RData::Ptr(inst.clone()) }
            };
            let m = match shape {
                0 => Message { id: 0, flags: QR | AA, questions: vec![], answers: vec![ptr, srv, txtr, a], authorities: vec![], additionals: vec![nsec] },
                1 => Message { id: 0, flags: QR | AA, questions: vec![], answers: vec![ptr], authorities: vec![], additionals: vec![] },
                2 => Message { id: 0, flags: QR | AA, questions: vec![], answers: vec![ptr, sub_ptr], authorities: vec![], additionals: vec![srv, txtr, a] },
                3 => Message { id: 0, flags: QR | AA, questions: vec![], answers: vec![a_res, a], authorities: vec![], additionals: vec![] },
                4 => Message { id: port, flags: 0, questions: vec![peer::q(&inst, T_ANY), peer::q(&host, T_A), peer::q(&ctl_ty, T_PTR), peer::q(&browsed, T_PTR)], answers: vec![ptr], authorities: vec![], additionals: vec![] },
                5 => Message { id: 0, flags: 0, questions: vec![peer::q(&inst, T_ANY)], answers: vec![], authorities: vec![srv, txtr], additionals: vec![] },
                6 => Message { id: 0, flags: QR | AA, questions: vec![], answers: vec![srv, txtr], authorities: vec![], additionals: vec![a, nsec] },
                _ => Message { id: 0, flags: QR | AA, questions: vec![peer::q(&inst, T_PTR)], answers: vec![ptr, srv.clone(), srv, txtr, a, nsec], authorities: vec![], additionals: vec![] },
            };
            encode(&m, if compress { Compress::Suffix } else { Compress::None })
        })
        .boxed()
}

fn packet_op() -> BoxedStrategy<Op> {
    let bytes = prop_oneof![
        4 => targeted_packet(),
        2 => (targeted_packet(), c01::mutation_strategy()).prop_map(|(b, m)| c01::apply(b, &m)),
        3 => c01::strategy().prop_map(|c| c.bytes),
    ];
    (0usize..3, any::<bool>(), bytes).prop_map(|(k, v6, b)| Op::Packet { k, v6, hex: hex(&b) }).boxed()
}

fn ctl_label() -> BoxedStrategy<String> {
    prop_oneof![
        4 => Just("ctl".to_string()),
        // multi-byte characters around the place where a rename has to cut the label
        1 => Just("\u{e9}".repeat(30)),
        1 => Just(format!("c{}", "\u{4e2d}".repeat(20))),
        1 => Just(format!("cc{}", "\u{1f600}".repeat(15))),
        1 => Just("c".repeat(59)),
        1 => Just("c".repeat(60)),
        1 => Just("c".repeat(63)),
        1 => Just("ctl (4294967295)".to_string()),
    ]
    .boxed()
}

pub fn api_strategy() -> BoxedStrategy<Case> {
    (iftable(2), ctl_label(), prop::collection::vec(api_op(), 1..8)).prop_map(|(ifs, ctl_label, ops)| Case { ifs, ctl_label, ops }).boxed()
}

pub fn packet_strategy() -> BoxedStrategy<Case> {
    let op = prop_oneof![
        10 => packet_op(),
        1 => (any::<bool>(), any::<bool>(), 0u8..4).prop_map(|(host, probe, shape)| Op::Conflict { host, probe, shape }),
        2 => prop_oneof![Just(0u64), Just(500), Just(1000), 0u64..3000].prop_map(|ms| Op::Advance { ms }),
        1 => api_op(),
    ];
    (iftable(2), ctl_label(), prop::collection::vec(op, 1..12)).prop_map(|(ifs, ctl_label, ops)| Case { ifs, ctl_label, ops }).boxed()
}

pub fn run(tier: Tier) -> i32 {
    let mut agg = Agg::new("C15", tier);
    agg.assume("simulation: one real daemon in lock-step with a browse, a host name search and a registration already running; every API call runs under catch_unwind on the harness thread; the crate is built with overflow checks and debug assertions (as in a debug build), so arithmetic overflow and debug_assert count as panics");
    agg.assume("after the generated calls / datagrams 12 s of virtual time pass (probing, announcing, follow-up queries, renames), then status() must report Running, a new browse must get SearchStarted, and - unless interfaces were reconfigured or the service was unregistered - the service registered at the start must still be answered for");
    run_regressions::<Case>(&mut agg, "api-arguments", &check);
    run_part(
        &mut agg,
        &Part {
            name: "api-arguments",
            rule: "1-7 calls of the public API (browse, browse_cache, stop_browse, resolve_hostname, stop_resolve_hostname, ServiceInfo::new + every getter + register, unregister, verify, set_service_name_len_max, set_ip_check_interval, enable/disable_interface of every IfKind, accept_unsolicited, include_apple_p2p, get_metrics) with strings near valid ones (special characters - dots, backslashes, multi-byte UTF-8, NUL - inserted anywhere, ranges cut or doubled, labels blown up to 62..1000 bytes, suffixes cut or doubled, empty, random printable) and boundary numbers, conflicts for a control registration whose label may overflow on renaming; non-trivial = a hostile call was accepted",
            cases: scale(tier.pick(25_000, 600_000)),
            max_shrink_iters: 400,
            strategy: &api_strategy,
            check: &check,
        },
    );
    run_regressions::<Case>(&mut agg, "packets", &check);
    run_part(
        &mut agg,
        &Part {
            name: "packets",
            rule: "1-11 datagrams: responses and queries about the browsed type, the searched host name and the registered service with hostile labels (dots, backslashes also at the end of a label, 62/63-byte labels, non-UTF-8 bytes, '_sub'), the same after one byte-level mutation, and the C01 datagram families (random, mutated, hostile names, large), on any interface and family, with pauses; non-trivial = a datagram was delivered",
            cases: scale(tier.pick(25_000, 600_000)),
            max_shrink_iters: 400,
            strategy: &packet_strategy,
            check: &check,
        },
    );
    agg.require_class("api-arguments:call-refused-with-error", 5_000);
    agg.require_class("api-arguments:hostile-registration-accepted", 2_000);
    agg.require_class("api-arguments:renamed-a-label-that-overflows", 500);
    agg.require_class("api-arguments:renamed-a-non-ascii-label-that-overflows", 200);
    agg.require_class("packets:packet-led-to-ServiceFound", 2_000);
    agg.require_class("packets:packet-led-to-ServiceResolved", 500);
    agg.finish()
}

pub fn replay(file: &std::path::Path) -> i32 {
    if let Some(c) = replay_part::<Case>("C15", "api-arguments", file, 3, &check) {
        return c;
    }
    if let Some(c) = replay_part::<Case>("C15", "packets", file, 3, &check) {
        return c;
    }
    eprintln!("harness error: replay file does not belong to C15");
    2
}
