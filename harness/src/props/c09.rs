//! C09 - unregistering says goodbye for exactly what was announced, then goes quiet (E3).

use crate::gen::*;
use crate::refdns::*;
use crate::runner::*;
use crate::sim::wire::{self, Sent};
use crate::sim::{peer, *};
use mdns_sd::ServiceInfo;
use proptest::prelude::*;
use serde::{Deserialize, Serialize};
use serde_json::json;
use std::collections::{BTreeMap, BTreeSet};
use std::net::{IpAddr, SocketAddr};

#[derive(Clone, Debug, Serialize, Deserialize)]
pub struct SvcDef {
    pub inst: String,
    pub ty: usize,
    pub sub: bool,
    pub v4: bool,
    pub v6: bool,
    pub on: Vec<bool>,
    pub probe: bool,
}

#[derive(Clone, Debug, Serialize, Deserialize)]
pub enum Op {
    Register { i: usize, ver: u8 },
    Unregister { i: usize, case_var: u8 },
    UnregisterUnknown,
    /// A peer claims the name being probed for service i (on one interface or on all).
    Conflict {
        i: usize,
        only_if: Option<usize>,
        /// the conflicting response also claims the service's host name with another address
        #[serde(default)]
        host: bool,
    },
    Advance { ms: u64 },
    /// Another client of the same daemon does something unrelated: 0 browses a foreign type, 1 stops
    /// that browse, 2 searches for a foreign host name, 3 reads the metrics.
    Other { what: u8 },
    /// PTR query for the type of service i on every interface.
    Query { i: usize },
    Shutdown,
}

#[derive(Clone, Debug, Serialize, Deserialize)]
pub struct Case {
    pub ifs: Vec<IfSpec>,
    pub jitter: u64,
    pub svcs: Vec<SvcDef>,
    pub ops: Vec<Op>,
}

fn id_attr(i: usize) -> Vec<u8> {
    format!("id={i}").into_bytes()
}

fn svc_addrs(s: &SvcDef, host_no: usize, nifs: usize) -> Vec<IpAddr> {
    let mut v = Vec::new();
    for k in 0..nifs {
        if *s.on.get(k).unwrap_or(&false) {
            if s.v4 {
                v.push(IpAddr::V4(subnet_v4(k, 60 + host_no as u8)));
            }
            if s.v6 {
                v.push(IpAddr::V6(subnet_v6(k, 60 + host_no as u16)));
            }
        }
    }
    v
}

fn usable(addrs: &[IpAddr], ifs: &[IfSpec], k: usize, v4: bool) -> Vec<IpAddr> {
    let Some(spec) = ifs.get(k) else { return vec![] };
    if (v4 && !spec.v4) || (!v4 && !spec.v6) {
        return vec![];
    }
    addrs
        .iter()
        .filter(|a| a.is_ipv4() == v4 && subnet_of(a) == Some(k))
        .copied()
        .collect()
}

struct Mark {
    op: usize,
    before: usize,
    after: usize,
    t: u64,
}

fn is_goodbye(m: &Message) -> bool {
    m.is_response() && !m.answers.is_empty() && m.answers.iter().all(|r| r.ttl == 0)
}

/// Does the packet carry a record (with the given TTL predicate) that belongs to service i?
fn names_service(m: &Message, i: usize, names: &BTreeSet<Name>, ttl_pos: bool) -> bool {
    m.all_records().any(|r| {
        (r.ttl > 0) == ttl_pos
            && (wire::txt_has(r, &id_attr(i))
                || names.contains(&r.name.lower())
                || wire::ptr_target(r).is_some_and(|n| names.contains(&n.lower())))
    })
}

pub fn check(case: &Case, ctx: &mut CaseCtx) {
    let nifs = case.ifs.len();
    let mut d = match SimDaemon::new("D", sim_ifs(&case.ifs), T0, 9) {
        Ok(d) => d,
        Err(e) => {
            ctx.violation("C09/harness/spawn", e);
            return;
        }
    };
    d.h.set_jitter_default(Some(case.jitter));
    let _ = d.monitor();
    let mut w = World::new(T0);
    let di = w.add(d);
    let n = case.svcs.len();
    let fullname_text = |i: usize| -> String {
        let s = &case.svcs[i];
        format!("{}.{}", esc_label(&s.inst), TYPES[s.ty % TYPES.len()])
    };
    let mut marks: Vec<Mark> = Vec::new();
    let mut shutdown_done = false;
    // registrations of service i since it was last unregistered, and where the latest began
    let mut regs_since_unreg: Vec<u32> = vec![0; n];
    let mut reg_pos: Vec<usize> = vec![0; n];
    for (oi, op) in case.ops.iter().enumerate() {
        if shutdown_done {
            break;
        }
        let before = w.daemons[di].log.len();
        let now = w.now;
        w.daemons[di].set_now(now);
        match op {
            Op::Register { i, ver } => {
                let i = *i % n;
                let s = &case.svcs[i];
                let ty = TYPES[s.ty % TYPES.len()];
                let ty_arg = if s.sub {
                    format!("_printer._sub.{ty}")
                } else {
                    ty.to_string()
                };
                let addrs = svc_addrs(s, i, nifs);
                let addr_str = addrs.iter().map(|a| a.to_string()).collect::<Vec<_>>().join(",");
                let id = i.to_string();
                let v = ver.to_string();
                let props = [("id", id.as_str()), ("v", v.as_str())];
                let host = format!("c09host{i}.local.");
                if let Ok(mut info) = ServiceInfo::new(&ty_arg, &s.inst, &host, addr_str.as_str(), 1000 + 10 * i as u16 + *ver as u16, &props[..]) {
                    info.set_requires_probe(s.probe);
                    if w.daemons[di].register(info).is_ok() {
                        regs_since_unreg[i] += 1;
                        reg_pos[i] = before;
                    }
                }
            }
            Op::Unregister { i, case_var } => {
                let name = case_variant(&fullname_text(*i % n), *case_var);
                if w.daemons[di].unregister(&name).is_ok() {
                    regs_since_unreg[*i % n] = 0;
                }
            }
            Op::UnregisterUnknown => {
                let _ = w.daemons[di].unregister("nobody._http._tcp.local.");
            }
            Op::Conflict { i, only_if, host } => {
                let i = *i % n;
                // Only while the one and only registration since the last unregister is still
                // unannounced: a conflict that hits the left-over probe of a superseded
                // registration renames a service that is announced under its old name, and the
                // statement does not say which name then counts as "most recently announced".
                let announced = w.daemons[di].log[reg_pos[i]..].iter().any(|e| match &e.ev {
                    Ev::Tx(tx) => tx.msg.as_ref().is_some_and(|m| m.is_response() && m.answers.iter().any(|r| r.ttl > 0 && wire::txt_has(r, &id_attr(i)))),
                    _ => false,
                });
                if regs_since_unreg[i] != 1 || announced {
                    w.settle();
                    continue;
                }
                // the instance name currently being probed for service i: from the last probe
                let mut name = Name::from_escaped(&fullname_text(i));
                for e in w.daemons[di].log.iter().rev() {
                    if let Ev::Tx(tx) = &e.ev {
                        if let Some(m) = &tx.msg {
                            if !m.is_response() {
                                if let Some(r) = m.authorities.iter().find(|r| wire::txt_has(r, &id_attr(i))) {
                                    name = r.name.clone();
                                    break;
                                }
                            }
                        }
                    }
                }
                // ... and the host name it is being probed with (the SRV target in the last probe)
                let mut host_name: Option<Name> = None;
                for e in w.daemons[di].log.iter().rev() {
                    if let Ev::Tx(tx) = &e.ev {
                        if let Some(m) = &tx.msg {
                            if !m.is_response() {
                                if let Some(t) = m.authorities.iter().filter(|r| r.name == name).find_map(|r| wire::srv_of(r).map(|(_, h)| h.clone())) {
                                    host_name = Some(t);
                                    break;
                                }
                            }
                        }
                    }
                }
                let rec = Record {
                    name,
                    rtype: T_SRV,
                    class: 1 | FLUSH,
                    ttl: 120,
                    rdata: RData::Srv {
                        priority: 0,
                        weight: 0,
                        port: 9,
                        target: Name::from_escaped("somebody-else.local."),
                    },
                };
                for k in 0..nifs {
                    if only_if.is_some_and(|o| o % nifs != k) {
                        continue;
                    }
                    let src: SocketAddr = if case.ifs[k].v4 {
                        SocketAddr::new(IpAddr::V4(subnet_v4(k, 99)), MDNS_PORT)
                    } else {
                        SocketAddr::new(IpAddr::V6(subnet_v6(k, 99)), MDNS_PORT)
                    };
                    let mut recs = vec![rec.clone()];
                    if let (true, Some(h)) = (*host, host_name.as_ref()) {
                        let a = if case.ifs[k].v4 { IpAddr::V4(subnet_v4(k, 98)) } else { IpAddr::V6(subnet_v6(k, 98)) };
                        recs.push(peer::addr_rec(h, a, 120, true));
                    }
                    w.daemons[di].inject(if_index(k), src, peer::response(recs, vec![]));
                }
            }
            Op::Advance { ms } => {
                w.advance(*ms);
            }
            Op::Other { what } => {
                let now = w.now;
                let dm = &mut w.daemons[di];
                dm.set_now(now);
                match what % 4 {
                    0 => {
                        let _ = dm.browse("_elsewhere._udp.local.");
                    }
                    1 => {
                        let _ = dm.stop_browse("_elsewhere._udp.local.");
                    }
                    2 => {
                        let _ = dm.resolve_hostname("somebody-else.local.", Some(3000));
                    }
                    _ => {
                        let _ = dm.metrics();
                    }
                }
            }
            Op::Query { i } => {
                let i = *i % n;
                let ty = Name::from_escaped(TYPES[case.svcs[i].ty % TYPES.len()]);
                for k in 0..nifs {
                    let src: SocketAddr = if case.ifs[k].v4 {
                        SocketAddr::new(IpAddr::V4(subnet_v4(k, 77)), MDNS_PORT)
                    } else {
                        SocketAddr::new(IpAddr::V6(subnet_v6(k, 77)), MDNS_PORT)
                    };
                    w.daemons[di].inject(if_index(k), src, peer::query(0, vec![peer::q(&ty, T_PTR)], vec![], vec![]));
                }
            }
            Op::Shutdown => {
                let _ = w.daemons[di].shutdown();
                shutdown_done = true;
            }
        }
        w.settle();
        let after = w.daemons[di].log.len();
        marks.push(Mark {
            op: oi,
            before,
            after,
            t: w.now,
        });
    }
    if !shutdown_done {
        w.advance(1500);
    }
    ctx.count("sim_steps", w.total_steps);
    judge(case, &w.daemons[di], &marks, ctx);
    w.finish();
}

fn judge(case: &Case, d: &SimDaemon, marks: &[Mark], ctx: &mut CaseCtx) {
    let nifs = case.ifs.len();
    let n = case.svcs.len();
    macro_rules! fail {
        ($sig:expr, $($arg:tt)*) => {{
            ctx.violation($sig.to_string(), format!("{}\n--- history ---\n{}", format!($($arg)*), render_log(&d.log, true, 70)));
            return;
        }};
    }
    if let Some(m) = &d.dead {
        fail!(format!("C09/daemon-died/{}", m.split(": ").next().unwrap_or("")), "daemon died: {m}");
    }
    let sent = match wire::index(&d.log) {
        Ok(s) => s,
        Err(pos) => fail!("C09/wire/unparsable-packet", "packet at log position {pos} is rejected by the reference decoder"),
    };
    // all names each service ever used on the wire (announcements identified by TXT id=i)
    let mut names: Vec<BTreeSet<Name>> = Vec::new();
    for i in 0..n {
        let s = &case.svcs[i];
        let mut set = BTreeSet::new();
        set.insert(Name::from_escaped(&format!("{}.{}", esc_label(&s.inst), TYPES[s.ty % TYPES.len()])).lower());
        for p in &sent {
            for r in p.m.answers.iter().chain(p.m.authorities.iter()) {
                if wire::txt_has(r, &id_attr(i)) {
                    set.insert(r.name.lower());
                }
            }
        }
        names.push(set);
    }
    let is_announcement = |p: &Sent, i: usize| -> bool {
        let Some(txt) = p.m.answers.iter().find(|r| r.rtype == T_TXT && r.ttl > 0 && wire::txt_has(r, &id_attr(i))) else {
            return false;
        };
        p.m.is_response()
            && p.m.answers.iter().any(|r| r.rtype == T_PTR && r.ttl > 0 && wire::ptr_target(r) == Some(&txt.name))
            && p.m.answers.iter().any(|r| r.rtype == T_SRV && r.name == txt.name)
            && (!p.solicited || p.m.additionals.is_empty())
    };
    // model of registrations
    struct Reg {
        ver: u8,
        pos: usize,
    }
    let mut registered: BTreeMap<usize, Reg> = BTreeMap::new();
    // intervals (log positions) during which service i is not registered
    let mut quiet_from: Vec<Option<usize>> = vec![Some(0); n];
    let mut quiet_intervals: Vec<Vec<(usize, usize)>> = vec![Vec::new(); n];
    let mut unreg_hits_announced = false;
    let mut unreg_while_probing = false;
    let mut renamed_goodbye = false;
    for mk in marks {
        let op = &case.ops[mk.op];
        match op {
            Op::Register { i, ver } => {
                let i = *i % n;
                if ServiceInfo::new(TYPES[0], &case.svcs[i].inst, "h.local.", "", 1, None).is_err() {
                    continue;
                }
                registered.insert(i, Reg { ver: *ver, pos: mk.before });
                if let Some(from) = quiet_from[i].take() {
                    quiet_intervals[i].push((from, mk.before));
                }
            }
            Op::Unregister { .. } | Op::UnregisterUnknown | Op::Shutdown => {
                let targets: Vec<usize> = match op {
                    Op::Unregister { i, .. } => vec![*i % n],
                    Op::UnregisterUnknown => vec![],
                    _ => registered.keys().copied().collect(),
                };
                if !matches!(op, Op::Shutdown) {
                    let reply = d.log[mk.before..mk.after].iter().find_map(|e| match &e.ev {
                        Ev::Unreg { ok, .. } => Some(*ok),
                        _ => None,
                    });
                    let expect = targets.first().is_some_and(|i| registered.contains_key(i));
                    match reply {
                        None => fail!("C09/reply/missing", "unregister (op {}) got no reply in the iteration that executed it", mk.op),
                        Some(ok) if ok != expect => fail!(
                            if expect { "C09/reply/notfound-for-registered-service" } else { "C09/reply/ok-for-unknown-service" },
                            "unregister (op {}) replied {} but the service {} registered", mk.op, if ok { "OK" } else { "NotFound" }, if expect { "is" } else { "is not" }),
                        _ => {}
                    }
                    if !expect {
                        // nothing may be withdrawn
                        if let Some(p) = sent.iter().find(|p| p.pos >= mk.before && p.pos < mk.after && is_goodbye(p.m)) {
                            fail!("C09/goodbye/for-unregistered-name", "a goodbye left at +{} ms although unregister replied NotFound", p.t - T0);
                        }
                        continue;
                    }
                }
                for i in targets {
                    let reg = registered.remove(&i).unwrap();
                    let s = &case.svcs[i];
                    let addrs = svc_addrs(s, i, nifs);
                    for k in 0..nifs {
                        for v4 in [true, false] {
                            let fam = if v4 { "IPv4" } else { "IPv6" };
                            let unit = format!("service#{i} on {} {fam}", if_name(k));
                            let anns: Vec<&Sent> = sent
                                .iter()
                                .filter(|p| p.pos >= reg.pos && p.pos < mk.before && p.if_index == Some(if_index(k)) && p.v4 == v4 && is_announcement(p, i))
                                .collect();
                            let gbs: Vec<&Sent> = sent
                                .iter()
                                .filter(|p| p.pos >= mk.before && p.pos < mk.after && p.if_index == Some(if_index(k)) && p.v4 == v4 && is_goodbye(p.m) && names_service(p.m, i, &names[i], false))
                                .collect();
                            let Some(last) = anns.last() else {
                                if let Some(g) = gbs.first() {
                                    let probing = sent.iter().any(|p| p.pos >= reg.pos && p.pos < mk.before && !p.m.is_response()
                                        && p.m.authorities.iter().any(|r| wire::txt_has(r, &id_attr(i))));
                                    fail!(
                                        if probing { "C09/goodbye/where-never-announced/still-probing" } else { "C09/goodbye/where-never-announced" },
                                        "{unit}: goodbye at +{} ms, but the service was not announced there since its registration (version {})", g.t - T0, reg.ver);
                                }
                                if usable(&addrs, &case.ifs, k, v4).is_empty() {
                                    continue;
                                }
                                unreg_while_probing = true;
                                continue;
                            };
                            unreg_hits_announced = true;
                            if gbs.is_empty() {
                                fail!("C09/goodbye/missing", "{unit}: announced at +{} ms, unregistered/shut down at +{} ms, no goodbye on that interface", last.t - T0, mk.t - T0);
                            }
                            if gbs.len() > 1 {
                                fail!("C09/goodbye/more-than-one", "{unit}: {} goodbye packets in the iteration of the unregister", gbs.len());
                            }
                            let g = gbs[0];
                            if g.unicast {
                                fail!("C09/goodbye/not-multicast", "{unit}: goodbye sent by unicast");
                            }
                            // names most recently announced there
                            let ann_ptr = last.m.answers.iter().find(|r| r.rtype == T_PTR && !r.name.0.contains(&b"_sub".to_vec())).unwrap();
                            let ann_name = wire::ptr_target(ann_ptr).unwrap().clone();
                            let ann_srv = last.m.answers.iter().find(|r| r.rtype == T_SRV && r.name.eq_ignore_case(&ann_name));
                            let Some(ann_srv) = ann_srv else { continue };
                            let (ann_port, ann_host) = wire::srv_of(ann_srv).unwrap();
                            let orig = Name::from_escaped(&format!("{}.{}", esc_label(&s.inst), TYPES[s.ty % TYPES.len()]));
                            if !ann_name.eq_ignore_case(&orig) {
                                renamed_goodbye = true;
                            }
                            let has = |pred: &dyn Fn(&Record) -> bool| g.m.answers.iter().any(pred);
                            let ptr_ok = has(&|r| r.rtype == T_PTR && r.name.eq_ignore_case(&ann_ptr.name) && wire::ptr_target(r).is_some_and(|t| t.eq_ignore_case(&ann_name)));
                            let sub_ok = !s.sub || has(&|r| r.rtype == T_PTR && r.name.0.contains(&b"_sub".to_vec()) && wire::ptr_target(r).is_some_and(|t| t.eq_ignore_case(&ann_name)));
                            let srv_ok = has(&|r| r.rtype == T_SRV && r.name.eq_ignore_case(&ann_name) && wire::srv_of(r).is_some_and(|(p, h)| p == ann_port && h.eq_ignore_case(ann_host)));
                            let txt_ok = has(&|r| r.rtype == T_TXT && r.name.eq_ignore_case(&ann_name) && wire::txt_has(r, &id_attr(i)));
                            let addr_ok = usable(&addrs, &case.ifs, k, v4).iter().all(|a| has(&|r| r.name.eq_ignore_case(ann_host) && wire::rec_ip(r) == Some(*a)));
                            if !(ptr_ok && sub_ok && srv_ok && txt_ok && addr_ok) {
                                let renamed = !ann_name.eq_ignore_case(&orig);
                                fail!(
                                    if renamed { "C09/goodbye/not-under-announced-names/after-rename" } else { "C09/goodbye/incomplete" },
                                    "{unit}: last announced as {} (host {}), goodbye at +{} ms: ptr {ptr_ok} subptr {sub_ok} srv {srv_ok} txt {txt_ok} addresses {addr_ok}",
                                    ann_name.to_escaped(), ann_host.to_escaped(), g.t - T0);
                            }
                            // nothing else in the goodbye: every record must be one of the service's
                            if let Some(r) = g.m.answers.iter().find(|r| {
                                !(r.name.eq_ignore_case(&ann_name) || r.name.eq_ignore_case(ann_host) || wire::ptr_target(r).is_some_and(|t| t.eq_ignore_case(&ann_name)))
                            }) {
                                fail!("C09/goodbye/foreign-record", "{unit}: goodbye withdraws {}", render_record(r));
                            }
                            if matches!(op, Op::Shutdown) {
                                continue;
                            }
                            // the same packet once more about 120 ms later
                            let rep = sent.iter().find(|p| p.pos >= mk.after && p.t == g.t + 120 && p.if_index == Some(if_index(k)) && p.v4 == v4 && p.bytes == g.bytes);
                            if rep.is_none() {
                                // demanded only if the daemon was still running 120 ms later
                                let end_t = d.log.last().map(|e| e.t).unwrap_or(0);
                                if end_t >= g.t + 121 {
                                    fail!("C09/goodbye/not-repeated-after-120ms", "{unit}: goodbye at +{} ms was not sent again 120 ms later", g.t - T0);
                                }
                            }
                        }
                    }
                    quiet_from[i] = Some(mk.after);
                }
            }
            Op::Query { i } => {
                let i = *i % n;
                // a registered service announced on (k, family of the query) must be answered
                if registered.contains_key(&i) {
                    let reg = &registered[&i];
                    for k in 0..nifs {
                        let v4 = case.ifs[k].v4;
                        let announced = sent.iter().any(|p| p.pos >= reg.pos && p.pos < mk.before && p.if_index == Some(if_index(k)) && p.v4 == v4 && is_announcement(p, i));
                        if !announced {
                            continue;
                        }
                        let answered = sent.iter().any(|p| p.pos >= mk.before && p.pos < mk.after && p.if_index == Some(if_index(k))
                            && p.m.is_response() && p.m.answers.iter().any(|r| r.rtype == T_PTR && r.ttl > 0 && wire::ptr_target(r).is_some_and(|t| names[i].contains(&t.lower()))));
                        if !answered {
                            fail!("C09/other-services/not-answered", "service#{i} is registered and announced on {} but a PTR query at +{} ms got no answer for it", if_name(k), mk.t - T0);
                        }
                    }
                }
            }
            _ => {}
        }
    }
    for i in 0..n {
        if let Some(from) = quiet_from[i] {
            quiet_intervals[i].push((from, usize::MAX));
        }
    }
    // quiet: nothing with a positive TTL about a service while it is not registered
    for i in 0..n {
        for (from, to) in &quiet_intervals[i] {
            if let Some(p) = sent.iter().find(|p| p.pos >= *from && p.pos < *to && p.m.is_response() && names_service(p.m, i, &names[i], true)) {
                fail!(
                    if p.solicited { "C09/quiet/answered-after-unregister" } else { "C09/quiet/announced-after-unregister" },
                    "service#{i} is not registered, yet a response at +{} ms on {} carries its records with a positive TTL", p.t - T0, p.if_name);
            }
        }
    }
    let nunreg = case.ops.iter().filter(|o| matches!(o, Op::Unregister { .. })).count();
    ctx.class_if(unreg_hits_announced, "withdrawal-of-announced-service");
    ctx.class_if(unreg_while_probing, "withdrawal-before-announcement");
    ctx.class_if(renamed_goodbye, "withdrawal-after-rename");
    ctx.class_if(case.ops.iter().any(|o| matches!(o, Op::Shutdown)), "shutdown");
    ctx.class_if(nifs >= 2, ">=2-interfaces");
    if unreg_hits_announced {
        ctx.nontrivial(format!(
            "n{} ifs{:?} ops{} unreg{} probing{} renamed{} shut{}",
            n,
            case.ifs.iter().map(|i| (i.v4, i.v6)).collect::<Vec<_>>(),
            case.ops.len().min(12),
            nunreg,
            unreg_while_probing,
            renamed_goodbye,
            case.ops.iter().any(|o| matches!(o, Op::Shutdown))
        ));
    }
    if ctx.want_sample {
        ctx.sample = Some(json!({
            "ops": case.ops.iter().map(|o| format!("{o:?}")).collect::<Vec<_>>(),
            "history_tail": render_log(&d.log, true, 12).lines().map(|l| l.chars().take(200).collect::<String>()).collect::<Vec<_>>(),
        }));
    }
}

pub fn strategy() -> BoxedStrategy<Case> {
    let svc = (
        prop_oneof![3 => simple_label(), 2 => "[A-Z][a-z]{1,5} [A-Z][a-z]{1,4}", 1 => "[a-zé]{2,8}"],
        0usize..3,
        proptest::bool::weighted(0.25),
        prop_oneof![4 => Just((true, false)), 2 => Just((true, true)), 1 => Just((false, true))],
        proptest::collection::vec(proptest::bool::weighted(0.8), 3),
        proptest::bool::weighted(0.8),
    )
        .prop_map(|(inst, ty, sub, (v4, v6), on, probe)| SvcDef {
            inst,
            ty,
            sub,
            v4,
            v6,
            on,
            probe,
        });
    let op = prop_oneof![
        4 => (0usize..3, 0u8..3).prop_map(|(i, ver)| Op::Register { i, ver }),
        4 => (0usize..3, 0u8..4).prop_map(|(i, case_var)| Op::Unregister { i, case_var }),
        1 => Just(Op::UnregisterUnknown),
        2 => (0usize..3, proptest::option::weighted(0.3, 0usize..3)).prop_map(|(i, only_if)| Op::Conflict { i, only_if, host: false }),
        2 => (0usize..3, proptest::option::weighted(0.3, 0usize..3)).prop_map(|(i, only_if)| Op::Conflict { i, only_if, host: true }),
        8 => prop_oneof![1 => Just(0u64), 1 => Just(100), 1 => Just(120), 1 => Just(250), 2 => Just(760), 3 => Just(1000), 3 => Just(2000), 2 => Just(5500), 2 => 0u64..2500].prop_map(|ms| Op::Advance { ms }),
        2 => (0usize..3).prop_map(|i| Op::Query { i }),
        2 => (0u8..4).prop_map(|what| Op::Other { what }),
        1 => Just(Op::Shutdown),
    ];
    (
        iftable(3),
        prop_oneof![Just(0u64), Just(100), 0u64..250],
        proptest::collection::vec(svc, 1..=3),
        proptest::collection::vec(op, 1..16),
    )
        .prop_map(|(ifs, jitter, mut svcs, ops)| {
            for i in 0..svcs.len() {
                for j in 0..i {
                    if svcs[i].inst.to_lowercase() == svcs[j].inst.to_lowercase() && svcs[i].ty == svcs[j].ty {
                        svcs[i].inst = format!("{}{}", svcs[i].inst, i);
                    }
                }
            }
            Case {
                ifs,
                jitter,
                svcs,
                ops,
            }
        })
        .boxed()
}

pub fn run(tier: Tier) -> i32 {
    let mut agg = Agg::new("C09", tier);
    agg.assume("silent simulated network except for the scripted conflicts and queries; daemon woken exactly when it asks; clients drain their channels");
    agg.assume("every service has its own host name and carries a TXT attribute id=<n> by which its packets are recognised; 'announced on an interface' is taken from the wire since the service's most recent register call");
    run_regressions::<Case>(&mut agg, "sequences", &check);
    run_part(
        &mut agg,
        &Part {
            name: "sequences",
            rule: "register / re-register (changed port and TXT) / unregister (exact, other case, unknown) / conflict-while-probing / query / advance / shutdown sequences over 1-3 services on 1-3 interfaces; \
                   non-trivial = an unregister or shutdown that hits a service announced on >=1 interface; distinct by (services, interface layout, op count, unregisters, withdrawal-while-probing, withdrawal-after-rename, shutdown)",
            cases: scale(tier.pick(30_000, 800_000)),
            max_shrink_iters: 800,
            strategy: &strategy,
            check: &check,
        },
    );
    agg.require_class("sequences:withdrawal-of-announced-service", 1000);
    agg.require_class("sequences:withdrawal-before-announcement", 300);
    agg.require_class("sequences:shutdown", 300);
    agg.finish()
}

pub fn replay(file: &std::path::Path) -> i32 {
    replay_part::<Case>("C09", "sequences", file, 5, &check).unwrap_or_else(|| {
        eprintln!("harness error: replay file does not belong to C09");
        2
    })
}
