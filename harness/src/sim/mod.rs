//! E3: real `ServiceDaemon`s in lock-step with the harness (virtual clock, simulated
//! interfaces, captured egress, injected ingress), a harness-side network and a history log.

pub mod peer;
pub mod wire;

use crate::refdns::{self, Message};
use mdns_sd::verif::{Datagram, Egress, Phase, SimHandle, SimIf};
use mdns_sd::{
    DaemonEvent, DaemonStatus, HostnameResolutionEvent, Receiver, ServiceDaemon, ServiceEvent,
    ServiceInfo, UnregisterStatus,
};
use std::collections::BTreeSet;
use std::net::{IpAddr, SocketAddr};
use std::time::Duration;

pub const T0: u64 = 1_700_000_000_000;
pub const MDNS_PORT: u16 = 5353;

/// A packet the daemon sent, with its reference decoding.
#[derive(Clone, Debug)]
pub struct Tx {
    pub if_name: String,
    pub if_index: Option<u32>,
    pub src_ip: Option<IpAddr>,
    pub dest: SocketAddr,
    pub unicast: bool,
    pub bytes: Vec<u8>,
    pub msg: Option<Message>,
}

impl Tx {
    pub fn v4(&self) -> bool {
        self.dest.is_ipv4()
    }
}

#[derive(Clone, Debug)]
pub enum Ev {
    Api(String),
    Tx(Tx),
    Rx {
        if_index: u32,
        src: SocketAddr,
        msg: Option<Message>,
        len: usize,
    },
    Svc {
        chan: usize,
        ev: ServiceEvent,
    },
    Host {
        chan: usize,
        ev: HostnameResolutionEvent,
    },
    Mon(DaemonEvent),
    Unreg {
        name: String,
        ok: bool,
    },
    Status(DaemonStatus),
    /// One loop iteration ran at this time; the wake-up the daemon then asked for.
    Step {
        requested_wake: Option<u64>,
        /// Whether this iteration was taken because the harness had input for the daemon.
        had_input: bool,
    },
    Died(String),
    Exited,
}

#[derive(Clone, Debug)]
pub struct Entry {
    pub t: u64,
    pub iter: u64,
    pub ev: Ev,
}

pub struct Chan<E> {
    pub key: String,
    pub rx: Receiver<E>,
    pending: Vec<E>,
    pub disconnected: bool,
}

#[derive(Default)]
pub struct Chans {
    pub browse: Vec<Chan<ServiceEvent>>,
    pub hosts: Vec<Chan<HostnameResolutionEvent>>,
    pub monitor: Option<Chan<DaemonEvent>>,
    unreg: Vec<Chan<UnregisterStatus>>,
    status_rx: Vec<Chan<DaemonStatus>>,
}

pub struct SimDaemon {
    pub h: SimHandle,
    pub d: ServiceDaemon,
    pub label: String,
    pub chans: Chans,
    pub log: Vec<Entry>,
    pub now: u64,
    pub last_step_time: u64,
    /// The harness gave the daemon something to do (API call, datagram) since its last step.
    pub dirty: bool,
    pub requested_wake: Option<u64>,
    pub iteration: u64,
    pub dead: Option<String>,
    pub exited: bool,
    pub stuck: bool,
    pub steps: u64,
    /// Extra wake-ups the scenario forces (absolute times).
    pub forced: BTreeSet<u64>,
    /// Idle wake-ups every X ms (unrelated traffic waking the loop).
    pub chatty: Option<u64>,
    next_chatty: u64,
}

pub fn render_service_event(ev: &ServiceEvent) -> String {
    match ev {
        ServiceEvent::SearchStarted(s) => format!("SearchStarted({s})"),
        ServiceEvent::ServiceFound(t, n) => format!("ServiceFound({t}, {n})"),
        ServiceEvent::ServiceResolved(r) => {
            let mut addrs: Vec<String> = r.addresses.iter().map(|a| format!("{a:?}")).collect();
            addrs.sort();
            format!(
                "ServiceResolved({} host={} port={} addrs={:?} txt={} sub={:?})",
                r.fullname, r.host, r.port, addrs, r.txt_properties, r.sub_ty_domain
            )
        }
        ServiceEvent::ServiceRemoved(t, n) => format!("ServiceRemoved({t}, {n})"),
        ServiceEvent::SearchStopped(s) => format!("SearchStopped({s})"),
        other => format!("{other:?}"),
    }
}

pub fn render_entry(e: &Entry) -> String {
    let t = e.t - T0.min(e.t);
    let body = match &e.ev {
        Ev::Api(s) => format!("API   {s}"),
        Ev::Tx(tx) => format!(
            "TX    {}{} -> {} {}",
            tx.if_name,
            if tx.unicast { " unicast" } else { "" },
            tx.dest,
            tx.msg
                .as_ref()
                .map(refdns::render_message)
                .unwrap_or_else(|| format!("<unparsable {} bytes>", tx.bytes.len()))
        ),
        Ev::Rx {
            if_index,
            src,
            msg,
            len,
        } => format!(
            "RX    if{} from {} {}",
            if_index,
            src,
            msg.as_ref()
                .map(refdns::render_message)
                .unwrap_or_else(|| format!("<raw {len} bytes>"))
        ),
        Ev::Svc { chan, ev } => format!("EVENT browse#{chan} {}", render_service_event(ev)),
        Ev::Host { chan, ev } => format!("EVENT host#{chan} {ev:?}"),
        Ev::Mon(ev) => format!("EVENT monitor {ev:?}"),
        Ev::Unreg { name, ok } => format!("REPLY unregister({name}) -> {}", if *ok { "OK" } else { "NotFound" }),
        Ev::Status(s) => format!("REPLY status -> {s:?}"),
        Ev::Step {
            requested_wake,
            had_input,
        } => format!(
            "STEP  {}next wake {}",
            if *had_input { "(input) " } else { "" },
            match requested_wake {
                Some(w) if *w >= e.t => format!("+{} ms", w - e.t),
                Some(w) => format!("-{} ms (in the past)", e.t - w),
                None => "none".into(),
            }
        ),
        Ev::Died(m) => format!("DIED  {m}"),
        Ev::Exited => "EXITED".into(),
    };
    format!("{:>10}.{:03} #{:<5} {}", t / 1000, t % 1000, e.iter, body)
}

pub fn render_log(log: &[Entry], skip_steps: bool, max: usize) -> String {
    let mut lines: Vec<String> = log
        .iter()
        .filter(|e| !(skip_steps && matches!(e.ev, Ev::Step { .. })))
        .map(render_entry)
        .collect();
    // debugging aid: VERIF_LOG_HEAD=<n> shows the first n lines instead of the last `max`
    if let Some(n) = std::env::var("VERIF_LOG_HEAD").ok().and_then(|v| v.parse::<usize>().ok()) {
        lines.truncate(n);
        return lines.join("\n");
    }
    if lines.len() > max {
        let cut = lines.len() - max;
        lines.drain(..cut);
        lines.insert(0, format!("... ({cut} earlier entries omitted)"));
    }
    lines.join("\n")
}

impl Chans {
    pub fn drain(&mut self) {
        for c in self.browse.iter_mut() {
            loop {
                match c.rx.try_recv() {
                    Ok(e) => c.pending.push(e),
                    Err(flume::TryRecvError::Disconnected) => {
                        c.disconnected = true;
                        break;
                    }
                    Err(flume::TryRecvError::Empty) => break,
                }
            }
        }
        for c in self.hosts.iter_mut() {
            loop {
                match c.rx.try_recv() {
                    Ok(e) => c.pending.push(e),
                    Err(flume::TryRecvError::Disconnected) => {
                        c.disconnected = true;
                        break;
                    }
                    Err(flume::TryRecvError::Empty) => break,
                }
            }
        }
        if let Some(c) = self.monitor.as_mut() {
            while let Ok(e) = c.rx.try_recv() {
                c.pending.push(e);
            }
        }
        for c in self.unreg.iter_mut() {
            while let Ok(e) = c.rx.try_recv() {
                c.pending.push(e);
            }
        }
        for c in self.status_rx.iter_mut() {
            while let Ok(e) = c.rx.try_recv() {
                c.pending.push(e);
            }
        }
    }
}

impl SimDaemon {
    pub fn new(label: &str, ifs: Vec<SimIf>, start: u64, seed: u64) -> Result<Self, String> {
        let (h, d) = SimHandle::spawn(MDNS_PORT_SIM, ifs, start, seed).map_err(|e| e.to_string())?;
        let st = h.status();
        let mut s = SimDaemon {
            h,
            d,
            label: label.to_string(),
            chans: Chans::default(),
            log: Vec::new(),
            now: start,
            last_step_time: start,
            dirty: false,
            requested_wake: st.requested_wake,
            iteration: st.iteration,
            dead: None,
            exited: false,
            stuck: false,
            steps: 0,
            forced: BTreeSet::new(),
            chatty: None,
            next_chatty: 0,
        };
        if st.phase != Phase::Parked {
            s.dead = Some(format!("daemon did not park after start: {:?}", st.phase));
        }
        Ok(s)
    }

    fn push(&mut self, ev: Ev) {
        self.log.push(Entry {
            t: self.now,
            iter: self.iteration,
            ev,
        });
    }

    pub fn alive(&self) -> bool {
        self.dead.is_none() && !self.exited && !self.stuck
    }

    pub fn set_chatty(&mut self, every: Option<u64>) {
        self.chatty = every;
        if let Some(x) = every {
            self.next_chatty = self.now + x;
        }
    }

    /// When this daemon has to run next, or None if it sleeps until it gets input.
    pub fn wake_time(&self) -> Option<u64> {
        if !self.alive() {
            return None;
        }
        if self.dirty {
            return Some(self.now);
        }
        let mut w = self
            .requested_wake
            .map(|w| w.max(self.last_step_time + 1));
        if let Some(f) = self.forced.iter().next() {
            w = Some(w.map_or(*f, |x| x.min(*f)));
        }
        if self.chatty.is_some() {
            w = Some(w.map_or(self.next_chatty, |x| x.min(self.next_chatty)));
        }
        w
    }

    pub fn set_now(&mut self, t: u64) {
        if t > self.now {
            self.now = t;
        }
        self.h.set_now(self.now);
    }

    fn flush_pending(&mut self) {
        let mut evs: Vec<Ev> = Vec::new();
        for (i, c) in self.chans.browse.iter_mut().enumerate() {
            for e in c.pending.drain(..) {
                evs.push(Ev::Svc { chan: i, ev: e });
            }
        }
        for (i, c) in self.chans.hosts.iter_mut().enumerate() {
            for e in c.pending.drain(..) {
                evs.push(Ev::Host { chan: i, ev: e });
            }
        }
        if let Some(c) = self.chans.monitor.as_mut() {
            for e in c.pending.drain(..) {
                evs.push(Ev::Mon(e));
            }
        }
        for c in self.chans.unreg.iter_mut() {
            for e in c.pending.drain(..) {
                evs.push(Ev::Unreg {
                    name: c.key.clone(),
                    ok: matches!(e, UnregisterStatus::OK),
                });
            }
        }
        for c in self.chans.status_rx.iter_mut() {
            for e in c.pending.drain(..) {
                evs.push(Ev::Status(e));
            }
        }
        for e in evs {
            self.push(e);
        }
    }

    /// Runs exactly one loop iteration at the current virtual time. Returns what it sent.
    pub fn step(&mut self) -> Vec<Tx> {
        if !self.alive() {
            return Vec::new();
        }
        self.h.set_now(self.now);
        let had_input = self.dirty;
        self.dirty = false;
        while self.forced.iter().next().is_some_and(|f| *f <= self.now) {
            let f = *self.forced.iter().next().unwrap();
            self.forced.remove(&f);
        }
        if let Some(x) = self.chatty {
            while self.next_chatty <= self.now {
                self.next_chatty += x.max(1);
            }
        }
        let h = self.h.clone();
        let res = {
            let chans = &mut self.chans;
            let mut drain = || chans.drain();
            h.step(&mut drain, Duration::from_secs(20))
        };
        self.steps += 1;
        self.chans.drain();
        let Some(st) = res else {
            self.stuck = true;
            self.push(Ev::Died("harness: daemon neither parked nor ended within 20 s".into()));
            return Vec::new();
        };
        self.iteration = st.iteration;
        self.last_step_time = self.now;
        self.requested_wake = st.requested_wake;
        let mut sent = Vec::new();
        for e in self.h.take_egress() {
            let tx = to_tx(e);
            sent.push(tx.clone());
            self.push(Ev::Tx(tx));
        }
        self.flush_pending();
        match st.phase {
            Phase::Dead => {
                let msg = st.panic.unwrap_or_else(|| "daemon thread panicked".into());
                self.dead = Some(msg.clone());
                self.push(Ev::Died(msg));
            }
            Phase::Exited => {
                self.exited = true;
                self.chans.drain();
                self.flush_pending();
                self.push(Ev::Exited);
            }
            _ => {
                self.push(Ev::Step {
                    requested_wake: st.requested_wake,
                    had_input,
                });
            }
        }
        sent
    }

    pub fn inject(&mut self, if_index: u32, src: SocketAddr, bytes: Vec<u8>) {
        let dst: IpAddr = if src.is_ipv4() {
            "224.0.0.251".parse().unwrap()
        } else {
            "ff02::fb".parse().unwrap()
        };
        let msg = refdns::decode(&bytes).ok().map(|(m, _)| m);
        let len = bytes.len();
        self.push(Ev::Rx {
            if_index,
            src,
            msg,
            len,
        });
        self.h.inject(Datagram {
            bytes,
            if_index,
            src,
            dst,
        });
        self.dirty = true;
    }

    // ---- API wrappers (log, remember receivers, mark dirty) ---------------------------------

    pub fn api(&mut self, what: String) {
        self.push(Ev::Api(what));
        self.dirty = true;
    }

    pub fn monitor(&mut self) -> Result<(), mdns_sd::Error> {
        let rx = self.d.monitor()?;
        self.chans.monitor = Some(Chan {
            key: "monitor".into(),
            rx,
            pending: Vec::new(),
            disconnected: false,
        });
        self.api("monitor()".into());
        Ok(())
    }

    pub fn browse(&mut self, ty: &str) -> Result<usize, mdns_sd::Error> {
        self.push(Ev::Api(format!("browse({ty})")));
        let rx = self.d.browse(ty)?;
        self.dirty = true;
        self.chans.browse.push(Chan {
            key: ty.to_string(),
            rx,
            pending: Vec::new(),
            disconnected: false,
        });
        Ok(self.chans.browse.len() - 1)
    }

    pub fn browse_cache(&mut self, ty: &str) -> Result<usize, mdns_sd::Error> {
        self.push(Ev::Api(format!("browse_cache({ty})")));
        let rx = self.d.browse_cache(ty)?;
        self.dirty = true;
        self.chans.browse.push(Chan {
            key: ty.to_string(),
            rx,
            pending: Vec::new(),
            disconnected: false,
        });
        Ok(self.chans.browse.len() - 1)
    }

    pub fn stop_browse(&mut self, ty: &str) -> Result<(), mdns_sd::Error> {
        self.push(Ev::Api(format!("stop_browse({ty})")));
        self.d.stop_browse(ty)?;
        self.dirty = true;
        Ok(())
    }

    pub fn resolve_hostname(&mut self, host: &str, timeout: Option<u64>) -> Result<usize, mdns_sd::Error> {
        self.push(Ev::Api(format!("resolve_hostname({host}, {timeout:?})")));
        let rx = self.d.resolve_hostname(host, timeout)?;
        self.dirty = true;
        self.chans.hosts.push(Chan {
            key: host.to_string(),
            rx,
            pending: Vec::new(),
            disconnected: false,
        });
        Ok(self.chans.hosts.len() - 1)
    }

    pub fn stop_resolve_hostname(&mut self, host: &str) -> Result<(), mdns_sd::Error> {
        self.push(Ev::Api(format!("stop_resolve_hostname({host})")));
        self.d.stop_resolve_hostname(host)?;
        self.dirty = true;
        Ok(())
    }

    pub fn register(&mut self, info: ServiceInfo) -> Result<(), mdns_sd::Error> {
        self.push(Ev::Api(format!(
            "register({} host={} port={} addrs={:?} auto={} probe={})",
            info.get_fullname(),
            info.get_hostname(),
            info.get_port(),
            {
                let mut a: Vec<_> = info.get_addresses().iter().collect();
                a.sort();
                a
            },
            info.is_addr_auto(),
            info.requires_probe()
        )));
        self.d.register(info)?;
        self.dirty = true;
        Ok(())
    }

    pub fn unregister(&mut self, fullname: &str) -> Result<(), mdns_sd::Error> {
        self.push(Ev::Api(format!("unregister({fullname})")));
        let rx = self.d.unregister(fullname)?;
        self.dirty = true;
        self.chans.unreg.push(Chan {
            key: fullname.to_string(),
            rx,
            pending: Vec::new(),
            disconnected: false,
        });
        Ok(())
    }

    pub fn verify(&mut self, instance: &str, timeout_ms: u64) -> Result<(), mdns_sd::Error> {
        self.push(Ev::Api(format!("verify({instance}, {timeout_ms} ms)")));
        self.d.verify(instance.to_string(), Duration::from_millis(timeout_ms))?;
        self.dirty = true;
        Ok(())
    }

    /// get_metrics(), answered in a loop iteration of its own.
    pub fn metrics(&mut self) -> Option<std::collections::HashMap<String, i64>> {
        self.push(Ev::Api("get_metrics()".into()));
        let rx = self.d.get_metrics().ok()?;
        self.dirty = true;
        let _ = self.step();
        rx.try_recv().ok()
    }

    pub fn shutdown(&mut self) -> Result<(), mdns_sd::Error> {
        self.push(Ev::Api("shutdown()".into()));
        let rx = self.d.shutdown()?;
        self.dirty = true;
        self.chans.status_rx.push(Chan {
            key: "shutdown".into(),
            rx,
            pending: Vec::new(),
            disconnected: false,
        });
        Ok(())
    }

    pub fn set_interfaces(&mut self, ifs: Vec<SimIf>) {
        self.push(Ev::Api(format!(
            "interface table := {:?}",
            ifs.iter()
                .map(|i| format!("{}#{} {}/{}{}", i.name, i.index, i.ip, i.prefixlen, if i.up { "" } else { " down" }))
                .collect::<Vec<_>>()
        )));
        self.h.set_interfaces(ifs);
    }

    /// Tears the daemon down (end of a case). Never blocks for long.
    pub fn finish(mut self) {
        if self.alive() {
            if self.d.shutdown().is_ok() {
                self.dirty = true;
                for _ in 0..3 {
                    if !self.alive() {
                        break;
                    }
                    self.step();
                }
            }
        }
    }
}

/// All simulated daemons bind this UDP port on the sandbox's real stack (with SO_REUSEPORT);
/// the sockets are never read or written under simulation.
pub const MDNS_PORT_SIM: u16 = 5353;

fn to_tx(e: Egress) -> Tx {
    let msg = refdns::decode(&e.bytes).ok().map(|(m, _)| m);
    Tx {
        if_name: e.if_name,
        if_index: e.if_index,
        src_ip: e.src_ip,
        dest: e.dest,
        unicast: e.unicast,
        bytes: e.bytes,
        msg,
    }
}

/// A link connects (daemon index, interface index) endpoints; multicast sent on one endpoint
/// is delivered to all others.
#[derive(Clone, Debug, Default)]
pub struct Link {
    pub ends: Vec<(usize, u32)>,
}

pub struct World {
    pub now: u64,
    pub daemons: Vec<SimDaemon>,
    pub links: Vec<Link>,
    /// (deliver_at, seq, daemon, if_index, src, bytes)
    inflight: Vec<(u64, u64, usize, u32, SocketAddr, Vec<u8>)>,
    seq: u64,
    pub total_steps: u64,
    pub step_budget: u64,
    pub budget_exhausted: bool,
    /// Delivery delay of routed multicast between daemons (ms).
    pub latency: u64,
}

impl World {
    pub fn new(start: u64) -> Self {
        World {
            now: start,
            daemons: Vec::new(),
            links: Vec::new(),
            inflight: Vec::new(),
            seq: 0,
            total_steps: 0,
            step_budget: 400_000,
            budget_exhausted: false,
            latency: 0,
        }
    }

    pub fn add(&mut self, d: SimDaemon) -> usize {
        self.daemons.push(d);
        self.daemons.len() - 1
    }

    pub fn schedule(&mut self, at: u64, daemon: usize, if_index: u32, src: SocketAddr, bytes: Vec<u8>) {
        self.seq += 1;
        self.inflight.push((at.max(self.now), self.seq, daemon, if_index, src, bytes));
    }

    fn route(&mut self, from: usize, sent: &[Tx]) {
        for tx in sent {
            if tx.unicast {
                continue;
            }
            let Some(ifx) = tx.if_index else { continue };
            let Some(src_ip) = tx.src_ip else { continue };
            let src = SocketAddr::new(src_ip, MDNS_PORT);
            let mut targets = Vec::new();
            for l in &self.links {
                if l.ends.contains(&(from, ifx)) {
                    for (d, i) in &l.ends {
                        if (*d, *i) != (from, ifx) {
                            targets.push((*d, *i));
                        }
                    }
                }
            }
            for (d, i) in targets {
                let at = self.now + self.latency;
                self.schedule(at, d, i, src, tx.bytes.clone());
            }
        }
    }

    /// Runs every daemon that has to run at or before `t_end`; ends with the clock at `t_end`.
    pub fn run_until(&mut self, t_end: u64) {
        self.run_until_cb(t_end, &mut |_, _, _| Vec::new());
    }

    /// Like `run_until`; after every step `cb(daemon, now, sent)` may return datagrams
    /// `(deliver_at, if_index, src, bytes)` for that daemon (a scripted peer reacting to it).
    #[allow(clippy::type_complexity)]
    pub fn run_until_cb(&mut self, t_end: u64, cb: &mut dyn FnMut(usize, u64, &[Tx]) -> Vec<(u64, u32, SocketAddr, Vec<u8>)>) {
        loop {
            let mut next: Option<u64> = self.inflight.iter().map(|f| f.0).min();
            for d in &self.daemons {
                if let Some(w) = d.wake_time() {
                    next = Some(next.map_or(w, |n| n.min(w)));
                }
            }
            let Some(next) = next else { break };
            if next > t_end {
                break;
            }
            if next > self.now {
                self.now = next;
            }
            // deliveries due
            let now = self.now;
            let mut due: Vec<_> = Vec::new();
            self.inflight.retain(|f| {
                if f.0 <= now {
                    due.push(f.clone());
                    false
                } else {
                    true
                }
            });
            due.sort_by_key(|f| (f.0, f.1));
            for (_, _, d, i, src, bytes) in due {
                if let Some(dm) = self.daemons.get_mut(d) {
                    dm.set_now(now);
                    dm.inject(i, src, bytes);
                }
            }
            for di in 0..self.daemons.len() {
                let due = self.daemons[di].wake_time().is_some_and(|w| w <= now);
                if !due {
                    continue;
                }
                self.daemons[di].set_now(now);
                let sent = self.daemons[di].step();
                self.total_steps += 1;
                self.route(di, &sent);
                for (at, ifx, src, bytes) in cb(di, now, &sent) {
                    self.schedule(at, di, ifx, src, bytes);
                }
            }
            if self.total_steps > self.step_budget {
                self.budget_exhausted = true;
                break;
            }
        }
        if t_end > self.now {
            self.now = t_end;
        }
        let now = self.now;
        for d in self.daemons.iter_mut() {
            d.set_now(now);
        }
    }

    /// The next instant at which something happens (a delivery or a daemon's wake-up).
    pub fn next_event_time(&self) -> Option<u64> {
        let mut next: Option<u64> = self.inflight.iter().map(|f| f.0).min();
        for d in &self.daemons {
            if let Some(w) = d.wake_time() {
                next = Some(next.map_or(w, |n| n.min(w)));
            }
        }
        next
    }

    pub fn advance(&mut self, ms: u64) {
        let t = self.now + ms;
        self.run_until(t);
    }

    /// Lets the daemons handle pending input at the current instant (no time passes).
    pub fn settle(&mut self) {
        let t = self.now;
        self.run_until(t);
    }

    pub fn finish(self) {
        for d in self.daemons {
            d.finish();
        }
    }
}
