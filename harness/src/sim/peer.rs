//! Scripted peers: build mDNS datagrams with the reference codec.

use crate::refdns::*;
use serde::{Deserialize, Serialize};
use std::net::IpAddr;

/// A service as some responder on the network advertises it.
#[derive(Clone, Debug, PartialEq, Eq, Serialize, Deserialize)]
pub struct Svc {
    /// e.g. ["_http","_tcp","local"]
    pub ty: Name,
    /// subtype label, e.g. "_printer" (PTR owner is <sub>._sub.<ty>)
    pub sub: Option<Vec<u8>>,
    pub inst: Vec<u8>,
    pub host: Name,
    pub port: u16,
    pub txt: Vec<u8>,
    pub addrs: Vec<IpAddr>,
}

impl Svc {
    pub fn fullname(&self) -> Name {
        let mut l = vec![self.inst.clone()];
        l.extend(self.ty.0.iter().cloned());
        Name(l)
    }
    pub fn sub_name(&self) -> Option<Name> {
        self.sub.as_ref().map(|s| {
            let mut l = vec![s.clone(), b"_sub".to_vec()];
            l.extend(self.ty.0.iter().cloned());
            Name(l)
        })
    }
    pub fn ptr(&self, ttl: u32) -> Record {
        Record {
            name: self.ty.clone(),
            rtype: T_PTR,
            class: 1,
            ttl,
            rdata: RData::Ptr(self.fullname()),
        }
    }
    pub fn sub_ptr(&self, ttl: u32) -> Option<Record> {
        self.sub_name().map(|n| Record {
            name: n,
            rtype: T_PTR,
            class: 1,
            ttl,
            rdata: RData::Ptr(self.fullname()),
        })
    }
    pub fn srv(&self, ttl: u32, flush: bool) -> Record {
        Record {
            name: self.fullname(),
            rtype: T_SRV,
            class: 1 | if flush { FLUSH } else { 0 },
            ttl,
            rdata: RData::Srv {
                priority: 0,
                weight: 0,
                port: self.port,
                target: self.host.clone(),
            },
        }
    }
    pub fn txt_rec(&self, ttl: u32, flush: bool) -> Record {
        Record {
            name: self.fullname(),
            rtype: T_TXT,
            class: 1 | if flush { FLUSH } else { 0 },
            ttl,
            rdata: RData::Txt(self.txt.clone()),
        }
    }
    pub fn addr_recs(&self, ttl: u32, flush: bool) -> Vec<Record> {
        self.addrs
            .iter()
            .map(|a| addr_rec(&self.host, *a, ttl, flush))
            .collect()
    }
    /// Full announcement: PTR (+sub PTR), SRV, TXT, addresses, all as answers.
    pub fn announcement(&self, host_ttl: u32, other_ttl: u32) -> Vec<Record> {
        let mut v = vec![self.ptr(other_ttl)];
        v.extend(self.sub_ptr(other_ttl));
        v.push(self.srv(host_ttl, true));
        v.push(self.txt_rec(other_ttl, true));
        v.extend(self.addr_recs(host_ttl, true));
        v
    }
}

pub fn addr_rec(host: &Name, a: IpAddr, ttl: u32, flush: bool) -> Record {
    let (rtype, rdata) = match a {
        IpAddr::V4(v) => (T_A, RData::A(v)),
        IpAddr::V6(v) => (T_AAAA, RData::Aaaa(v)),
    };
    Record {
        name: host.clone(),
        rtype,
        class: 1 | if flush { FLUSH } else { 0 },
        ttl,
        rdata,
    }
}

pub fn response(answers: Vec<Record>, additionals: Vec<Record>) -> Vec<u8> {
    encode(
        &Message {
            id: 0,
            flags: QR | AA,
            questions: vec![],
            answers,
            authorities: vec![],
            additionals,
        },
        Compress::Suffix,
    )
}

pub fn query(id: u16, questions: Vec<Question>, known: Vec<Record>, authorities: Vec<Record>) -> Vec<u8> {
    encode(
        &Message {
            id,
            flags: 0,
            questions,
            answers: known,
            authorities,
            additionals: vec![],
        },
        Compress::Suffix,
    )
}

pub fn q(name: &Name, qtype: u16) -> Question {
    Question {
        name: name.clone(),
        qtype,
        qclass: 1,
    }
}

pub fn name(text: &str) -> Name {
    Name::from_escaped(text)
}
