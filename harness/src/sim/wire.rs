//! Index of what a daemon sent, built from its history.

use super::{Entry, Ev};
use crate::refdns::*;
use std::net::IpAddr;

pub struct Sent<'a> {
    pub t: u64,
    pub iter: u64,
    /// position of the entry in the log
    pub pos: usize,
    pub if_index: Option<u32>,
    pub if_name: &'a str,
    pub v4: bool,
    pub unicast: bool,
    pub dest: std::net::SocketAddr,
    pub m: &'a Message,
    pub bytes: &'a [u8],
    /// The same iteration consumed a query datagram.
    pub solicited: bool,
}

/// Returns the sent packets, or the position of a packet the reference decoder rejects.
pub fn index(log: &[Entry]) -> Result<Vec<Sent<'_>>, usize> {
    let mut sent = Vec::new();
    let mut pending_query = false;
    for (pos, e) in log.iter().enumerate() {
        match &e.ev {
            Ev::Rx { msg, .. } => {
                if msg.as_ref().is_some_and(|m| !m.is_response()) {
                    pending_query = true;
                }
            }
            Ev::Step { .. } => pending_query = false,
            Ev::Tx(tx) => {
                let Some(m) = tx.msg.as_ref() else {
                    return Err(pos);
                };
                sent.push(Sent {
                    t: e.t,
                    iter: e.iter,
                    pos,
                    if_index: tx.if_index,
                    if_name: &tx.if_name,
                    v4: tx.v4(),
                    unicast: tx.unicast,
                    dest: tx.dest,
                    m,
                    bytes: &tx.bytes,
                    solicited: pending_query,
                });
            }
            _ => {}
        }
    }
    Ok(sent)
}

pub fn rec_ip(r: &Record) -> Option<IpAddr> {
    match &r.rdata {
        RData::A(x) => Some(IpAddr::V4(*x)),
        RData::Aaaa(x) => Some(IpAddr::V6(*x)),
        _ => None,
    }
}

pub fn ptr_target(r: &Record) -> Option<&Name> {
    match &r.rdata {
        RData::Ptr(n) => Some(n),
        _ => None,
    }
}

pub fn srv_of(r: &Record) -> Option<(u16, &Name)> {
    match &r.rdata {
        RData::Srv { port, target, .. } => Some((*port, target)),
        _ => None,
    }
}

pub fn txt_has(r: &Record, attr: &[u8]) -> bool {
    match &r.rdata {
        RData::Txt(t) => crate::refdns::txt_decode(t, false).iter().any(|(k, v)| {
            let mut s = k.clone();
            if let Some(v) = v {
                s.push(b'=');
                s.extend_from_slice(v);
            }
            s == attr
        }),
        _ => false,
    }
}

pub fn srv_of_rdata(r: &RData) -> Option<Name> {
    match r {
        RData::Srv { target, .. } => Some(target.clone()),
        _ => None,
    }
}

pub fn ptr_target_rdata(r: &RData) -> Option<Name> {
    match r {
        RData::Ptr(n) => Some(n.clone()),
        _ => None,
    }
}
