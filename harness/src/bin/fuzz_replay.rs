//! fuzz_replay <target> <file>: runs one input through a fuzz entry point outside libFuzzer
//! (to look at an artifact, e.g. a timeout, with ordinary tools).
#[global_allocator]
static ALLOC: verif_harness::guard::CountingAlloc = verif_harness::guard::CountingAlloc;

fn main() {
    let a: Vec<String> = std::env::args().collect();
    if a.len() < 3 {
        eprintln!("usage: fuzz_replay <target> <file>");
        std::process::exit(2);
    }
    let data = std::fs::read(&a[2]).expect("read input");
    let t = std::time::Instant::now();
    use verif_harness::fuzz_entry as f;
    match a[1].as_str() {
        "decode" => f::decode(&data),
        "txt" => f::txt(&data),
        "encode" => f::encode(&data),
        "txt_lists" => f::txt_lists(&data),
        "daemon_packets" => f::daemon_packets(&data),
        "api_arguments" => f::api_arguments(&data),
        "conflicts" => f::conflicts(&data),
        "comparison" => f::comparison(&data),
        "arrivals" => f::arrivals(&data),
        "interfaces" => f::interfaces(&data),
        "shutdown_queue" => f::shutdown_queue(&data),
        other => {
            eprintln!("unknown target {other}");
            std::process::exit(2);
        }
    }
    eprintln!("{} on {} bytes: done in {:?}", a[1], data.len(), t.elapsed());
}
